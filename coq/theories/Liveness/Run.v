(* Evaluators used by the correspondence shards of C09.  A case carries a scenario
   and what was observed on the Go implementation under a watchdog.

   Model output for an interrupted operation = the wake set, in the inventory
   REGENERATED from the current source (Gen/WakeSets.v), of the wait in which
   the scenario leaves the operation: it returns iff that wait listens to the
   event fired (or is released by operations that do).  On a tree where a wait
   does not listen the model therefore predicts the hang, the observation agrees
   with it, and [pclass] -- the property on the observation -- reports it. *)
From Coq Require Import ZArith NArith List Bool String.
From GoCoap Require Import Base.Cases Liveness.Model Liveness.Close Liveness.Stall Liveness.Table Liveness.Stop Liveness.Reg Liveness.Accept Liveness.Spec Gen.WakeSets.
Import ListNotations.
Local Open Scope list_scope.
Open Scope Z_scope.

(* transports: 0 udp Conn over the in-memory session; 1 tcp Conn + real tcp/client.Session over a scripted
   net.Conn; 2 udp Conn + real dtls/server.Session over a scripted net.Conn; 3 udp Conn + real udp/server.Session
   over a loopback socket (udp.Dial); 4 (close runs only) a server-side connection of the udp server: its
   udp/server.Session has no Run, shutdown is called by the server's close function from concurrent ticks.
   operations: 0 request (Client.Do / Get), 1 observe registration, 2 observation Cancel, 3 Ping,
   4 one-way WriteMessage of a confirmable message, 5 one-way WriteMessage of a non-confirmable message.
   interruption points: 0 before the call, 1 request on the wire and unanswered, 2 after an empty ACK without a
   response, 3 in the middle of a block-wise transfer, 4 queued behind the per-endpoint limit, 5 queued behind the
   total parallel-request limit, 6 queued behind NSTART.
   peer behaviour between the point and the trigger: 0 silence, 1 garbage, 2 well-formed but unrelated messages.
   triggers: 0 context cancelled, 1 context deadline, 2 local Close, 3 peer closes / read error,
   4 none -- the peer answers properly (control). *)
Inductive case :=
| Op (tr op pt peer trig : Z) (o_ret : bool) (o_err : Z)
(* discovery on a udp server: started = Serve is running; triggers 0 cancel, 1 deadline, 2 Server.Stop *)
| Disc (started : bool) (peer trig : Z) (o_ret : bool) (o_err : Z)
(* nclose concurrent Close calls on a connection of transport tr with ncb on-close callbacks and inflight
   blocked operations; sock = the session owns the socket *)
| CloseRun (tr : Z) (sock : bool) (nclose ncb inflight : Z) (o_cb : list Z) (o_done o_closers o_panic o_ops : bool)
(* nstop concurrent Server.Stop calls (srv: 0 udp, 1 tcp) with nconn peers, ncb callbacks per server-side
   connection *)
| StopRun (srv nstop nconn ncb : Z) (o_cb : list Z) (o_done o_closers o_panic o_ops o_serve : bool)
(* the write of operation op is stalled in the socket (the peer stopped reading) when the trigger fires:
   tr 1 tcp session / 2 dtls session over a scripted conn whose Write blocks until it is closed, 6 real loopback tcp
   (op 6 = request with a body far beyond the socket buffers); trig 0 cancel, 1 deadline, 2 nclose concurrent
   local Close calls, 3 the peer closes *)
| Stall (tr op trig nclose ncb : Z) (o_cb : list Z) (o_done o_closers o_panic o_op : bool) (o_err : Z)
(* the reader loop ends because of the peer (cause 0 undecodable input, 1 oversized message, 2 peer closes) with
   ninfl operations in flight and no Close call; sock = the session owns the socket; tr 1 tcp, 2 dtls, 3 udp
   loopback (sock: udp.Dial, otherwise udp.Client over a socket of the caller); o_ctx = connection context
   cancelled; o_late = a call made afterwards returned *)
| ReaderEnd (tr : Z) (sock : bool) (cause ninfl ncb : Z) (o_cb : list Z) (o_done o_ctx o_ops o_late : bool)
(* nstop concurrent Server.Stop calls on a datagram server with npeers peers (ncb callbacks each) race with the exit
   path of Serve for the peer table.  who 0: a Stop call takes the table (the Serve goroutine is inside OnNewConn of
   one more, late, peer while Stop starts) and Serve returns while that call is still working through the table (the
   first callback that runs waits for it); who 1: Stop is called while Serve reads: either takes the table.  nconn =
   connections the server handed to OnNewConn in the end (a datagram processed while the server stops adds one);
   o_cb: how often each of their callbacks ran *)
| StopRace (who nstop npeers ncb nconn : Z) (o_cb : list Z) (o_done o_closers o_panic o_serve : bool)
(* the housekeeping (Conn.CheckExpirations with a virtual time) works on the pending message of operation op while
   the caller waits.  tr 0 in-memory udp, 2 dtls session over a scripted conn, 3 udp.Dial over loopback (through the
   function registered with the periodic runner); mode 0 one retransmission, 1 retransmissions used up: the message
   is given up, 2 the deadline of the request's context has passed: given up, 3 as 1 by two goroutines at once while
   the trigger fires; trig 0 cancel, 1 deadline, 2 local Close, 4 the peer answers (mode 0).  o_tick = every
   housekeeping call returned; o_late = a call made afterwards returned *)
| Tick (tr op mode trig : Z) (o_tick o_ret : bool) (o_err : Z) (o_late : bool)
(* ncb on-close callbacks registered, then Close; callback number who registers nlate further callbacks when it runs
   (mode 0), or another goroutine registers them while callback who is running (mode 1); tr 1 tcp, 2 dtls, 3 udp.Dial.
   o_cb / o_late: how often each of the callbacks registered before / during the shutdown ran *)
| RegRun (tr mode ncb nlate who : Z) (o_cb o_late : list Z) (o_done o_closers : bool)
(* nstop concurrent Stop calls on a stream server (mode 0 tcp, 1 tls) with nreg fully registered connections and one
   more, whose peer is silent, still being set up: mode 0 inside its OnNewConn hook (kept there until the registered
   connections have completed Done), mode 1 inside the TLS handshake.  nconn = connections handed to OnNewConn in the
   end, o_cb their callbacks (ncb each), o_done / o_ctx = Done completed on all of them / context of the late one
   cancelled *)
| SetupStop (mode nstop nreg ncb nconn : Z) (o_cb : list Z) (o_done o_ctx o_closers o_panic o_serve : bool).

Definition udp_like (tr : Z) : bool := negb (tr =? 1).

Definition n_wfa := "udp/client.Conn.waitForAcknowledge"%string.
Definition n_udo := "udp/client.Conn.doInternal"%string.
Definition n_nst := "udp/client.Conn.acquireOutstandingInteraction"%string.
Definition n_tdo := "tcp/client.Conn.doInternal"%string.
Definition n_obs := "net/observation.Handler.NewObservation"%string.
Definition n_png := "net/client.Client.Ping"%string.
Definition n_aep := "net/client/limitParallelRequests.LimitParallelRequests.acquireEndpoint"%string.
Definition n_ldo := "net/client/limitParallelRequests.LimitParallelRequests.Do"%string.
Definition n_lob := "net/client/limitParallelRequests.LimitParallelRequests.DoObserve"%string.

(* the function in whose (first) blocking wait the scenario leaves the operation; None = not blocked *)
Definition blocked_at (tr op pt : Z) : option string :=
  if udp_like tr then
    if (op =? 0) || (op =? 2) then
      if pt =? 2 then Some n_udo else if pt =? 4 then Some n_aep else if pt =? 5 then Some n_ldo
      else if pt =? 6 then Some n_nst else Some n_wfa
    else if op =? 1 then
      if pt =? 2 then Some n_obs else if pt =? 4 then Some n_aep else if pt =? 5 then Some n_lob
      else if pt =? 6 then Some n_nst else Some n_wfa
    else if op =? 3 then Some n_png
    else if op =? 4 then Some n_wfa
    else None
  else
    if (op =? 0) || (op =? 2) then
      if pt =? 4 then Some n_aep else if pt =? 5 then Some n_ldo else Some n_tdo
    else if op =? 1 then
      if pt =? 4 then Some n_aep else if pt =? 5 then Some n_lob else Some n_obs
    else if op =? 3 then Some n_png
    else None.

Definition first_wait (fname : string) : option wait :=
  match lookup fname inventory with
  | Some f => match filter blocking (f_waits f) with w :: _ => Some w | [] => None end
  | None => None
  end.

(* does a close wake this wait: it listens itself, or every function its releasers can be blocked in does *)
Fixpoint close_wakes (fuel : nat) (fname : string) (w : wait) : bool :=
  has ConnCtx (w_chans w) || has SrvCtx (w_chans w) ||
  match fuel with
  | O => false
  | S k => match releasers fname with
           | [] => false
           | rs => forallb (fun g => match lookup g inventory with
                                     | Some fg => forallb (close_wakes k g) (filter blocking (f_waits fg))
                                     | None => false
                                     end) rs
           end
  end.

Definition listens (fname : string) (trig : Z) : bool :=
  match first_wait fname with
  | None => false
  | Some w => if (trig =? 0) || (trig =? 1) then has ReqCtx (w_chans w)
              else if (trig =? 2) || (trig =? 3) then close_wakes 3 fname w
              else has Result (w_chans w) || match w_kind w with WAcquire => true | _ => false end
  end.

(* on the real sessions a write after a local Close fails, so an operation started after the
   trigger returns from the write whatever it would have waited for *)
Definition write_fails (tr pt trig : Z) : bool := negb (tr =? 0) && (pt =? 0) && (trig =? 2).

Definition predicted_ret (tr op pt trig : Z) : bool :=
  match blocked_at tr op pt with
  | None => true
  | Some fname => write_fails tr pt trig || listens fname trig
  end.

Definition err_agrees (trig o_err : Z) : bool :=
  if trig =? 0 then o_err =? 1
  else if trig =? 1 then o_err =? 2
  else if trig =? 4 then o_err =? 0
  else negb (o_err =? 0).

Definition needs_reply (tr op pt trig : Z) : bool :=
  negb (trig =? 4) && match blocked_at tr op pt with Some _ => true | None => false end.

(* discovery *)
Definition n_disc := "udp/server.Server.DiscoveryRequest"%string.
Definition n_sconn := "udp/server.Server.conn"%string.
Definition disc_predicted (started : bool) (trig : Z) : bool :=
  listens (if started then n_disc else n_sconn) trig.

(* the close protocol: the model's result (Close.v; the same under every schedule by close_once) *)
Definition sched_all (nthreads : nat) (per : nat) : list nat := flat_map (fun t => repeat t per) (seq 0 nthreads).

Definition model_close (k : dkind) (sock : bool) (nclose nshut ncb : nat) : list Z * bool * bool :=
  let cbs := seq 0 ncb in
  let x := exec k (init_st cbs, session_threads sock nclose nshut []) (sched_all (nclose + nshut) (4 + ncb)) in
  (map (fun f => Z.of_nat (count_occ Nat.eq_dec (c_ran (fst x)) f)) cbs, c_done (fst x), negb (Nat.eqb (c_panics (fst x)) 0)).

Definition kind_of (tr : Z) : dkind := if (tr =? 1) || (tr =? 2) then DoneChan else DoneCtx.

Fixpoint zlist_eqb (a b : list Z) : bool :=
  match a, b with
  | [], [] => true
  | x :: a', y :: b' => (x =? y) && zlist_eqb a' b'
  | _, _ => false
  end.

(* the reader loops of dtls/server.Session and udp/server.Session end on a datagram that does not decode
   (Run returns the error of Conn.Process, which closes the connection): on those transports garbage from the
   peer IS a close by the peer, whatever else the scenario fires afterwards *)
Definition eff_trig (tr pt peer trig : Z) : Z :=
  if ((tr =? 2) || (tr =? 3)) && (peer =? 1) && negb (pt =? 0) then 3 else trig.

(* stalled write: the blocking model (Stall.v) with one writer, the Close calls of the scenario and the reader loop,
   peer not reading, under a round-robin schedule long enough for everything that can happen to happen
   (StallProofs.step_measure: at most [measure] steps are ever taken):
   (the operation returned, every Close call returned, Done completed) *)
Definition is_nil {A} (l : list A) : bool := match l with [] => true | _ => false end.
Definition stall_model (trig nclose : Z) : bool * bool * bool :=
  let e := mkEnv true (trig =? 3) in
  let n := if trig =? 2 then Z.to_nat nclose else O in
  let ts := stall_sys CloseLib [1%nat] n in
  let x := bexec e (b_init, ts) (rr (List.length ts) (S (measure ts))) in
  (is_nil (nth 0 (snd x) []), forallb is_nil (firstn n (skipn 1 (snd x))), b_done (fst x)).

(* reader loop ended by the peer: the Run exit alone (Close.v) *)
Definition reader_end_model (k : dkind) (sock : bool) (ncb : nat) : list Z * bool * bool :=
  let cbs := seq 0 ncb in
  let x := exec k (init_st cbs, [run_exit_prog sock]) (repeat O (6 + ncb)) in
  (map (fun f => Z.of_nat (count_occ Nat.eq_dec (c_ran (fst x)) f)) cbs, c_done (fst x), c_cancelled (fst x)).

(* stopping the server: the model (Stop.v) with nstop Stop calls and the Serve exit over nconn peers; the first
   Stop call takes the table, then round robin, long enough for everything to happen.  The shape of
   Session.shutdown is the one found in the current source (Gen/WakeSets.v udp_shutdown_plain). *)
Definition stop_model (nstop nconn ncb : nat) : list Z * bool :=
  let v := if udp_shutdown_plain then ShutLib else ShutGuarded in
  let ts := server_threads nstop [] [] in
  let x := sexec v (s_init (seq 0 nconn) (fun _ => seq 0 ncb), ts)
                 ([0; 0]%nat ++ rr (List.length ts) (2 + nconn * (4 + ncb))) in
  (flat_map (fun p => map (fun f => Z.of_nat (count_occ Nat.eq_dec (c_ran (s_peer (fst x) p)) f)) (seq 0 ncb)) (seq 0 nconn),
   forallb (peer_done (fst x)) (seq 0 nconn)).

(* housekeeping: the lock model (Table.v) with the walk(s) of the scenario over the one pending entry, the clean-up
   of the waiting call and a call made afterwards, round robin; the walk is the one found in the current source
   (Gen/WakeSets.v mid_walk_unlocks): (every walk returned, the call returned, the later call returned) *)
Definition tick_model (mode : Z) : bool * bool * bool :=
  let n := if mode =? 3 then 2%nat else 1%nat in
  let ts := tick_sys mid_walk_unlocks (negb (mode =? 0)) n in
  let x := texec (t_init, ts) (rr (List.length ts) (S (tmeasure ts))) in
  (forallb is_nil (firstn n (snd x)), is_nil (nth n (snd x) [TRLock]), is_nil (nth (S n) (snd x) [TRLock])).

(* registration during shutdown: the slice model (Reg.v) with the shape of popOnClose found in the current source
   (Gen/WakeSets.v *_pop_shape).  mode 0: one thread, callback who registers the late ones; mode 1: the shutdown
   thread runs up to and including callback who, the other thread registers, the shutdown thread goes on *)
Definition pop_shape_of (n : nat) : popshape := match n with 1%nat => PopTrunc | _ => PopNil end.
Definition reg_shape (tr : Z) : popshape :=
  pop_shape_of (if tr =? 1 then tcp_pop_shape else if tr =? 2 then dtls_pop_shape else udp_pop_shape).
Definition reg_model (v : popshape) (mode : Z) (ncb nlate who : nat) : list Z * list Z :=
  let cbs := seq 0 ncb in
  let lates := seq ncb nlate in
  let regs := fun f => if (mode =? 0) && Nat.eqb f who then lates else [] in
  let ts := if mode =? 0 then [[RPop]] else [[RPop]; map RAdd lates] in
  let sched := if mode =? 0 then repeat 0%nat (2 + ncb + nlate + nlate)
               else repeat 0%nat (2 + who) ++ repeat 1%nat nlate ++ repeat 0%nat ncb in
  let x := rexec v regs (r_init cbs, ts) sched in
  (map (fun f => Z.of_nat (ran_count (fst x) f)) cbs, map (fun f => Z.of_nat (ran_count (fst x) f)) lates).

(* Stop while a connection is being set up: the model (Accept.v) with the parent of the connection contexts found in
   the current source (Gen/WakeSets.v tcp_conn_ctx).  The registered connections are set up first (their peers
   complete the handshake), the late one stays in its hook / in the handshake; then the Stop calls, Serve up to
   the close of its table, then round robin:
   (connections handed to OnNewConn, their callbacks, all of them Done, context of the late one done, Serve returned) *)
Definition has_hook (p : list xact) : bool := existsb (fun a => match a with XHook _ => true | _ => false end) p.
Definition setup_model (mode : Z) (nstop nreg ncb : nat) : Z * list Z * bool * bool * bool :=
  let v := if String.eqb tcp_conn_ctx "s.ctx" then CtxServer else CtxParent in
  let tls := mode =? 1 in
  let n := S nreg in
  let e := mkXE (fun c => Nat.ltb c nreg) (fun _ => false) in
  let ts := server_sys n (fun _ => tls) (fun _ => O) nstop in
  let pre := flat_map (fun c => repeat c 4) (seq 0 nreg) ++
             flat_map (fun t => [t; t]) (seq (S n) nstop) ++ [n; n; n] in
  let x := xexec v e (x_init, ts) (pre ++ rrx (List.length ts) (8 * (n + 2))) in
  let hooked := filter (fun c => negb (has_hook (nth c (snd x) []))) (seq 0 n) in
  (Z.of_nat (List.length hooked),
   flat_map (fun c => repeat (if mem c (x_done (fst x)) then 1 else 0) ncb) hooked,
   forallb (fun c => mem c (x_done (fst x))) hooked,
   forallb (fun c => negb (Nat.eqb c nreg) || ctx_done v (fst x) c) hooked,
   Accept.is_nil (nth n (snd x) [XWaitStop])).

Definition agrees (c : case) : bool :=
  match c with
  | Op tr op pt peer trig0 o_ret o_err =>
      let trig := eff_trig tr pt peer trig0 in
      Bool.eqb o_ret (predicted_ret tr op pt trig) &&
      (negb o_ret || negb (needs_reply tr op pt trig) && negb (trig =? 4) || err_agrees trig o_err)
  | Disc started _ trig o_ret o_err =>
      Bool.eqb o_ret (disc_predicted started trig) &&
      (negb o_ret || (if trig =? 2 then negb (o_err =? 0) else true))
  | CloseRun tr sock nclose ncb _ o_cb o_done o_closers o_panic o_ops =>
      let '(cb, dn, pn) := model_close (kind_of tr) sock (Z.to_nat nclose) 1 (Z.to_nat ncb) in
      zlist_eqb o_cb cb && Bool.eqb o_done dn && Bool.eqb o_panic pn && o_closers && o_ops
  | StopRun _ nstop nconn ncb o_cb o_done o_closers o_panic o_ops o_serve =>
      (* every server-side connection is a session whose shutdown may be called by several Stop / Serve-exit
         callers; per connection the model gives each callback once *)
      let '(cb, dn, pn) := model_close DoneCtx false (Z.to_nat nstop) (Z.to_nat nstop) (Z.to_nat ncb) in
      zlist_eqb o_cb (flat_map (fun _ => cb) (seq 0 (Z.to_nat nconn))) && Bool.eqb o_done dn && Bool.eqb o_panic pn &&
      o_closers && o_ops && o_serve
  | Stall tr _ trig nclose ncb o_cb o_done o_closers o_panic o_op o_err =>
      let '(m_op, m_closers, m_done) := stall_model trig nclose in
      let cb := if m_done then fst (fst (model_close (kind_of tr) true (Z.to_nat nclose) 1 (Z.to_nat ncb)))
                else map (fun _ => 0) (seq 0 (Z.to_nat ncb)) in
      Bool.eqb o_op m_op && Bool.eqb o_closers m_closers && Bool.eqb o_done m_done && negb o_panic &&
      zlist_eqb o_cb cb && (negb o_op || negb (o_err =? 0))
  | ReaderEnd tr sock _ _ ncb o_cb o_done o_ctx o_ops o_late =>
      let '(cb, dn, cn) := reader_end_model (kind_of tr) sock (Z.to_nat ncb) in
      zlist_eqb o_cb cb && Bool.eqb o_done dn && Bool.eqb o_ctx cn && o_ops && o_late
  | StopRace who nstop npeers ncb nconn o_cb o_done o_closers o_panic o_serve =>
      let '(cb, dn) := stop_model (Z.to_nat nstop) (Z.to_nat nconn) (Z.to_nat ncb) in
      (npeers + (if who =? 0 then 1 else 0) <=? nconn) &&
      zlist_eqb o_cb cb && Bool.eqb o_done dn && negb o_panic && o_closers && o_serve
  | Tick _ _ mode trig o_tick o_ret o_err o_late =>
      let '(m_tick, m_ret, m_late) := tick_model mode in
      Bool.eqb o_tick m_tick && Bool.eqb o_ret m_ret && Bool.eqb o_late m_late &&
      (negb o_ret || err_agrees trig o_err)
  | RegRun tr mode ncb nlate who o_cb o_late o_done o_closers =>
      let '(cb, late) := reg_model (reg_shape tr) mode (Z.to_nat ncb) (Z.to_nat nlate) (Z.to_nat who) in
      zlist_eqb o_cb cb && zlist_eqb o_late late && o_done && o_closers
  | SetupStop mode nstop nreg ncb nconn o_cb o_done o_ctx o_closers o_panic o_serve =>
      let '(m_nconn, cb, dn, cx, sv) := setup_model mode (Z.to_nat nstop) (Z.to_nat nreg) (Z.to_nat ncb) in
      (nconn =? m_nconn) && zlist_eqb o_cb cb && Bool.eqb o_done dn && Bool.eqb o_ctx cx && o_closers && negb o_panic &&
      Bool.eqb o_serve sv
  end.

(* the property on the OBSERVED output (Spec only) *)
Definition pclass (c : case) : N :=
  match c with
  | Op tr op pt _ trig o_ret o_err => op_class (needs_reply tr op pt trig) o_ret o_err
  | Disc _ _ trig o_ret o_err => op_class false o_ret o_err
  | CloseRun _ _ _ _ _ o_cb o_done o_closers o_panic o_ops => close_class o_cb o_done o_closers o_panic o_ops true
  | StopRun _ _ _ _ o_cb o_done o_closers o_panic o_ops o_serve => close_class o_cb o_done o_closers o_panic o_ops o_serve
  | Stall _ _ trig _ _ o_cb o_done o_closers o_panic o_op o_err => stall_class trig o_cb o_done o_closers o_panic o_op o_err
  | ReaderEnd _ _ cause _ _ o_cb o_done o_ctx o_ops o_late => reader_end_class cause o_cb o_done o_ctx o_ops o_late
  | StopRace _ _ _ _ _ o_cb o_done o_closers o_panic o_serve => stop_race_class o_cb o_done o_closers o_panic o_serve
  | Tick _ _ _ trig _ o_ret o_err o_late => tick_class trig o_ret o_err o_late
  | RegRun _ _ _ _ _ o_cb o_late o_done o_closers => reg_class o_cb o_late o_done o_closers
  | SetupStop _ _ _ _ _ o_cb o_done o_ctx o_closers o_panic o_serve => setup_stop_class o_cb o_done o_ctx o_closers o_panic o_serve
  end.

Definition mismatches (cs : list case) : list N := bad_indices (fun c => negb (agrees c)) cs.
Definition property_failures (cs : list case) : list (N * N) := classes pclass cs.
