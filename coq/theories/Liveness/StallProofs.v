(* C09 -- proofs about blocking (Stall.v) and about the order cancel -> Done (Close.v).

   D. Close while a write is stalled.  For ARBITRARY thread programs over the
      actions of Stall.v in which every Lock is followed by socket writes and
      the Unlock (lock_ok), net.Conn.Close is the library's (no lock), and some
      thread is on its way to close the socket (a Close call, or the reader
      loop when the peer has closed):
        - under every schedule the system is never stuck: as long as a thread
          has something left to do, some thread can take a step (not_stuck);
        - every step taken decreases a measure (step_measure), so at most
          [measure] steps are ever taken;
        - hence from every reachable state the system completes (completes),
          and then the socket is closed, every Close call and every writer has
          returned and Done is completed.
      The same system with a Close that takes the write lock before closing
      the socket deadlocks (lock_before_close_deadlocks).  Without anybody
      closing the socket a stalled write never returns, whatever else happens
      -- in particular whatever happens to the writer's context
      (stalled_write_needs_close).

   E. Done => connection context cancelled: in the close protocol of Close.v,
      for arbitrary thread programs in which every completion of Done is
      preceded, in the same thread, by s.cancel() (guarded), at every moment of
      every schedule Done completed implies the connection context is
      cancelled (done_implies_cancelled); the library's programs are guarded;
      a Run exit that skips Close for a caller-owned socket is not
      (run_exit_without_close_refuted). *)
From Coq Require Import List Bool Arith Lia.
From GoCoap Require Import Liveness.Close Liveness.Stall Liveness.Proofs.
Import ListNotations.
Local Notation length := List.length (only parsing).
Local Open Scope list_scope.

(* ================= lists ================= *)
Lemma nth_error_upd_same : forall {A} (l : list A) n x y,
  nth_error l n = Some y -> nth_error (upd n x l) n = Some x.
Proof.
  induction l as [|z l IH]; intros n x y H; destruct n; simpl in *; try discriminate; auto.
  eapply IH; eauto.
Qed.

Lemma nth_error_upd_other : forall {A} (l : list A) n m x,
  n <> m -> nth_error (upd n x l) m = nth_error l m.
Proof.
  induction l as [|z l IH]; intros n m x H; destruct n, m; simpl; auto; try congruence.
Qed.

Lemma Forall_upd : forall {A} (P : A -> Prop) l n x, Forall P l -> P x -> Forall P (upd n x l).
Proof.
  induction l as [|z l IH]; intros n x Hf Hx; destruct n; simpl; auto;
    inversion Hf; subst; constructor; auto.
Qed.

Lemma Forall_nth_error : forall {A} (P : A -> Prop) l n x, Forall P l -> nth_error l n = Some x -> P x.
Proof.
  intros A P l n x Hf Hn. apply nth_error_In in Hn. rewrite Forall_forall in Hf. auto.
Qed.

Lemma measure_upd : forall ts tid p q,
  nth_error ts tid = Some p -> measure (upd tid q ts) + pweight p = measure ts + pweight q.
Proof.
  unfold measure. induction ts as [|z ts IH]; intros tid p q H; destruct tid; simpl in *; try discriminate.
  - injection H as ->. lia.
  - specialize (IH _ _ q H). lia.
Qed.

Lemma pweight_app : forall p q, pweight (p ++ q) = pweight p + pweight q.
Proof. intros p q. unfold pweight. rewrite map_app. induction (map weight p); simpl; lia. Qed.

Lemma done_or_not : forall ts : list (list bact),
  ball_done ts \/ exists tid a rest, nth_error ts tid = Some (a :: rest).
Proof.
  induction ts as [|p ts IH].
  - left. constructor.
  - destruct p as [|a rest].
    + destruct IH as [IH|[tid [a [rest H]]]].
      * left. constructor; auto.
      * right. exists (S tid), a, rest. exact H.
    + right. exists 0, a, rest. reflexivity.
Qed.

(* ================= D. steps ================= *)
Lemma bstep_run : forall e x tid a rest,
  nth_error (snd x) tid = Some (a :: rest) -> enabled e (fst x) a = true ->
  bstep e x tid = (fst (bact_step (fst x) a), upd tid (snd (bact_step (fst x) a) ++ rest) (snd x)).
Proof. intros e x tid a rest Hn He. unfold bstep. rewrite Hn, He. reflexivity. Qed.

Lemma bstep_idle : forall e x tid, can_run e x tid = false -> bstep e x tid = x.
Proof.
  intros e x tid H. unfold bstep, can_run in *.
  destruct (nth_error (snd x) tid) as [[|a rest]|]; auto. rewrite H. reflexivity.
Qed.

Lemma bstep_cases : forall e x tid,
  bstep e x tid = x \/
  exists a rest, nth_error (snd x) tid = Some (a :: rest) /\ enabled e (fst x) a = true /\
                 bstep e x tid = (fst (bact_step (fst x) a), upd tid (snd (bact_step (fst x) a) ++ rest) (snd x)).
Proof.
  intros e x tid. unfold bstep.
  destruct (nth_error (snd x) tid) as [[|a rest]|] eqn:Hn; auto.
  destruct (enabled e (fst x) a) eqn:He; auto.
  right. exists a, rest. auto.
Qed.

(* a system in which no thread can run stays as it is, for ever *)
Lemma stuck_forever : forall e x, (forall tid, can_run e x tid = false) -> forall sched, bexec e x sched = x.
Proof.
  intros e x H sched. induction sched as [|t sched IH]; simpl; [reflexivity|].
  rewrite bstep_idle by apply H. exact IH.
Qed.

(* every step taken costs at least one unit of the measure *)
Theorem step_measure : forall e x tid,
  can_run e x tid = true -> measure (snd (bstep e x tid)) < measure (snd x).
Proof.
  intros e x tid H. unfold can_run in H.
  destruct (nth_error (snd x) tid) as [[|a rest]|] eqn:Hn; try discriminate.
  rewrite (bstep_run e x tid a rest Hn H). simpl.
  pose proof (measure_upd (snd x) tid (a :: rest) (snd (bact_step (fst x) a) ++ rest) Hn) as M.
  rewrite pweight_app in M.
  assert (W : pweight (snd (bact_step (fst x) a)) < weight a).
  { destruct a as [|v| | | | | |]; simpl; try (unfold pweight; simpl; lia).
    destruct (b_flag (fst x)); destruct v; unfold pweight; simpl; lia. }
  change (pweight (a :: rest)) with (weight a + pweight rest) in M. lia.
Qed.

(* ================= D. the invariant ================= *)
Record BInv (e : benv) (x : bsys) : Prop := mkBInv {
  bi_lockok : Forall (fun p => lock_ok p = true) (snd x);
  bi_lib : Forall (fun p => forallb lib_act p = true) (snd x);
  bi_lock : b_lock (fst x) = true -> exists t p, nth_error (snd x) t = Some p /\ incs p = true;
  bi_sock : b_sock (fst x) = false ->
            (b_flag (fst x) = false /\ exists t p, nth_error (snd x) t = Some p /\ pending e p = true) \/
            (exists t rest, nth_error (snd x) t = Some (BSockClose :: rest));
  bi_done : b_done (fst x) = true \/ exists t p, nth_error (snd x) t = Some p /\ In BShutdown p }.

Lemma lock_ok_tail : forall a r, lock_ok (a :: r) = true -> lock_ok r = true.
Proof. intros a r H. destruct a; simpl in H; auto. apply andb_true_iff in H. tauto. Qed.

Lemma lock_ok_next : forall s a rest,
  lib_act a = true -> lock_ok (a :: rest) = true -> lock_ok (snd (bact_step s a) ++ rest) = true.
Proof.
  intros s a rest Hl H. pose proof (lock_ok_tail _ _ H) as T.
  destruct a as [|v| | | | | |]; simpl; auto.
  destruct v; simpl in Hl; try discriminate. destruct (b_flag s); simpl; auto.
Qed.

Lemma lib_next : forall s a rest,
  forallb lib_act (a :: rest) = true -> forallb lib_act (snd (bact_step s a) ++ rest) = true.
Proof.
  intros s a rest H. simpl in H. apply andb_true_iff in H. destruct H as [Ha Hr].
  destruct a as [|v| | | | | |]; simpl; auto.
  destruct v; simpl in Ha; try discriminate. destruct (b_flag s); simpl; auto.
Qed.

Lemma witness_keep : forall (Q : list bact -> Prop) ts tid a rest pre,
  nth_error ts tid = Some (a :: rest) ->
  (Q (a :: rest) -> Q (pre ++ rest)) ->
  (exists t p, nth_error ts t = Some p /\ Q p) ->
  exists t p, nth_error (upd tid (pre ++ rest) ts) t = Some p /\ Q p.
Proof.
  intros Q ts tid a rest pre Hn Himp [t0 [p0 [Hp0 Hq]]].
  destruct (Nat.eq_dec tid t0) as [->|Hne].
  - rewrite Hn in Hp0. injection Hp0 as <-. exists t0, (pre ++ rest). split; [eapply nth_error_upd_same; eauto|auto].
  - exists t0, p0. split; [rewrite nth_error_upd_other by exact Hne; exact Hp0|exact Hq].
Qed.

Lemma sockclose_keep : forall ts tid a rest pre,
  nth_error ts tid = Some (a :: rest) -> a <> BSockClose ->
  (exists t r, nth_error ts t = Some (BSockClose :: r)) ->
  exists t r, nth_error (upd tid (pre ++ rest) ts) t = Some (BSockClose :: r).
Proof.
  intros ts tid a rest pre Hn Ha [t0 [r0 Hp0]].
  destruct (Nat.eq_dec tid t0) as [->|Hne].
  - rewrite Hn in Hp0. injection Hp0 as -> _. congruence.
  - exists t0, r0. rewrite nth_error_upd_other by exact Hne. exact Hp0.
Qed.

Lemma binv_step : forall e x tid, BInv e x -> BInv e (bstep e x tid).
Proof.
  intros e x tid I. destruct (bstep_cases e x tid) as [->|[a [rest [Hn [He ->]]]]]; [exact I|].
  destruct I as [Ilo Ili Il Is Id]. destruct x as [s ts]. simpl in *.
  pose proof (Forall_nth_error _ _ _ _ Ilo Hn) as Hlo. simpl in Hlo.
  pose proof (Forall_nth_error _ _ _ _ Ili Hn) as Hli. simpl in Hli.
  assert (Hla : lib_act a = true) by (simpl in Hli; apply andb_true_iff in Hli; tauto).
  constructor; simpl.
  - apply Forall_upd; [exact Ilo|]. apply lock_ok_next; assumption.
  - apply Forall_upd; [exact Ili|]. apply lib_next; assumption.
  - (* the lock is held => some thread is inside the critical section *)
    intros Hl'.
    destruct a as [|v| | | | | |].
    + simpl in *. apply (witness_keep (fun p => incs p = true) ts tid BCancel rest [] Hn); [simpl; discriminate|auto].
    + destruct v; simpl in Hla; try discriminate. simpl in *.
      destruct (b_flag s); simpl in *.
      * apply (witness_keep (fun p => incs p = true) ts tid (BCas CloseLib) rest [] Hn); [simpl; discriminate|auto].
      * apply (witness_keep (fun p => incs p = true) ts tid (BCas CloseLib) rest [BSockClose] Hn); [simpl; discriminate|auto].
    + simpl in *. apply (witness_keep (fun p => incs p = true) ts tid BSockClose rest [] Hn); [simpl; discriminate|auto].
    + simpl in *. exists tid, rest. split; [eapply nth_error_upd_same; eauto|].
      apply andb_true_iff in Hlo. tauto.
    + simpl in Hl'. discriminate.
    + simpl in *. apply (witness_keep (fun p => incs p = true) ts tid BWrite rest [] Hn); [simpl; auto|auto].
    + simpl in *. apply (witness_keep (fun p => incs p = true) ts tid BRead rest [] Hn); [simpl; discriminate|auto].
    + simpl in *. apply (witness_keep (fun p => incs p = true) ts tid BShutdown rest [] Hn); [simpl; discriminate|auto].
  - (* the socket is open => somebody is about to close it *)
    intros Hs'.
    destruct a as [|v| | | | | |].
    + simpl in *. destruct (Is Hs') as [[Hf W]|W].
      * left. split; [exact Hf|]. apply (witness_keep (fun p => pending e p = true) ts tid BCancel rest [] Hn); [simpl; auto|exact W].
      * right. apply (sockclose_keep ts tid BCancel rest [] Hn); [discriminate|exact W].
    + destruct v; simpl in Hla; try discriminate. simpl in *.
      destruct (b_flag s) eqn:Hf; simpl in *.
      * destruct (Is Hs') as [[Hf' _]|W]; [congruence|].
        right. apply (sockclose_keep ts tid (BCas CloseLib) rest [] Hn); [discriminate|exact W].
      * right. exists tid, rest. eapply nth_error_upd_same; eauto.
    + simpl in Hs'. discriminate.
    + simpl in *. destruct (Is Hs') as [[Hf W]|W].
      * left. split; [exact Hf|]. apply (witness_keep (fun p => pending e p = true) ts tid BLock rest [] Hn); [simpl; discriminate|exact W].
      * right. apply (sockclose_keep ts tid BLock rest [] Hn); [discriminate|exact W].
    + simpl in *. destruct (Is Hs') as [[Hf W]|W].
      * left. split; [exact Hf|]. apply (witness_keep (fun p => pending e p = true) ts tid BUnlock rest [] Hn); [simpl; discriminate|exact W].
      * right. apply (sockclose_keep ts tid BUnlock rest [] Hn); [discriminate|exact W].
    + simpl in *. destruct (Is Hs') as [[Hf W]|W].
      * left. split; [exact Hf|]. apply (witness_keep (fun p => pending e p = true) ts tid BWrite rest [] Hn); [simpl; discriminate|exact W].
      * right. apply (sockclose_keep ts tid BWrite rest [] Hn); [discriminate|exact W].
    + simpl in *. destruct (Is Hs') as [[Hf W]|W].
      * left. split; [exact Hf|]. apply (witness_keep (fun p => pending e p = true) ts tid BRead rest [] Hn); [|exact W].
        simpl. intros H. apply andb_true_iff in H. tauto.
      * right. apply (sockclose_keep ts tid BRead rest [] Hn); [discriminate|exact W].
    + simpl in *. destruct (Is Hs') as [[Hf W]|W].
      * left. split; [exact Hf|]. apply (witness_keep (fun p => pending e p = true) ts tid BShutdown rest [] Hn); [simpl; discriminate|exact W].
      * right. apply (sockclose_keep ts tid BShutdown rest [] Hn); [discriminate|exact W].
  - (* Done is completed, or the shutdown is still ahead *)
    destruct Id as [Hd|W].
    + left. destruct a as [|v| | | | | |]; simpl; auto. destruct (b_flag s); simpl; auto.
    + assert (K : forall a0 pre, nth_error ts tid = Some (a0 :: rest) -> a0 <> BShutdown ->
                  exists t p, nth_error (upd tid (pre ++ rest) ts) t = Some p /\ In BShutdown p).
      { intros a0 pre Hn0 Hne. apply (witness_keep (fun p => In BShutdown p) ts tid a0 rest pre Hn0); [|exact W].
        intros [H|H]; [congruence|apply in_or_app; right; exact H]. }
      destruct a as [|v| | | | | |]; try (right; apply (K _ _ Hn); discriminate).
      left. reflexivity.
Qed.

Lemma binv_exec : forall e sched x, BInv e x -> BInv e (bexec e x sched).
Proof. intros e sched. induction sched as [|t sched IH]; intros x I; simpl; auto using binv_step. Qed.

Lemma pending_head : forall e p, pending e p = true ->
  exists a r, p = a :: r /\ forall s, enabled e s a = true.
Proof.
  intros e p H. destruct p as [|a r]; simpl in H; try discriminate.
  exists a, r. split; [reflexivity|]. intros s.
  destruct a as [|v| | | | | |]; simpl in *; try discriminate; auto.
  apply andb_true_iff in H. destruct H as [-> _]. reflexivity.
Qed.

(* never stuck: while some thread has something left to do, some thread can take a step *)
Lemma not_stuck : forall e x, BInv e x -> ~ ball_done (snd x) -> exists tid, can_run e x tid = true.
Proof.
  intros e x I Hnd. destruct (done_or_not (snd x)) as [Hd|[tid [a [rest Hn]]]]; [contradiction|].
  destruct (b_sock (fst x)) eqn:Hs.
  - (* socket closed: only a Lock behind a holder can wait, and the holder can run *)
    destruct (enabled e (fst x) a) eqn:He.
    + exists tid. unfold can_run. rewrite Hn. exact He.
    + destruct a; simpl in He; try discriminate.
      * apply negb_false_iff in He. destruct (bi_lock e x I He) as [t0 [p0 [Hp0 Hi0]]].
        exists t0. unfold can_run. rewrite Hp0.
        destruct p0 as [|b r0]; simpl in Hi0; try discriminate.
        destruct b; simpl in *; try discriminate; auto. rewrite Hs. apply orb_true_r.
      * rewrite Hs in He. rewrite orb_true_r in He. discriminate.
      * rewrite Hs in He. rewrite orb_true_r in He. discriminate.
  - destruct (bi_sock e x I Hs) as [[_ [t0 [p0 [Hp0 Hpe]]]]|[t0 [r0 Hp0]]].
    + destruct (pending_head e p0 Hpe) as [b [r [-> Hen]]].
      exists t0. unfold can_run. rewrite Hp0. apply Hen.
    + exists t0. unfold can_run. rewrite Hp0. reflexivity.
Qed.

(* from every state that satisfies the invariant the system completes *)
Lemma completes_from : forall e n x, BInv e x -> measure (snd x) <= n ->
  exists ext, ball_done (snd (bexec e x ext)).
Proof.
  intros e n. induction n as [|n IH]; intros x I Hm.
  - destruct (done_or_not (snd x)) as [Hd|[tid [a [rest Hn]]]].
    + exists []. exact Hd.
    + exfalso. assert (Hnd : ~ ball_done (snd x)).
      { intro Hd. pose proof (Forall_nth_error _ _ _ _ Hd Hn) as E. simpl in E. discriminate. }
      destruct (not_stuck e x I Hnd) as [t Ht]. pose proof (step_measure e x t Ht). lia.
  - destruct (done_or_not (snd x)) as [Hd|[tid [a [rest Hn]]]].
    + exists []. exact Hd.
    + assert (Hnd : ~ ball_done (snd x)).
      { intro Hd. pose proof (Forall_nth_error _ _ _ _ Hd Hn) as E. simpl in E. discriminate. }
      destruct (not_stuck e x I Hnd) as [t Ht]. pose proof (step_measure e x t Ht) as M.
      destruct (IH (bstep e x t) (binv_step e x t I)) as [ext Hext]; [lia|].
      exists (t :: ext). exact Hext.
Qed.

(* what holds when everything has returned *)
Lemma binv_final : forall e x, BInv e x -> ball_done (snd x) ->
  b_sock (fst x) = true /\ b_done (fst x) = true.
Proof.
  intros e x I Hd. split.
  - destruct (b_sock (fst x)) eqn:Hs; [reflexivity|]. exfalso.
    destruct (bi_sock e x I Hs) as [[_ [t0 [p0 [Hp0 Hpe]]]]|[t0 [r0 Hp0]]].
    + pose proof (Forall_nth_error _ _ _ _ Hd Hp0) as E. simpl in E. subst p0. simpl in Hpe. discriminate.
    + pose proof (Forall_nth_error _ _ _ _ Hd Hp0) as E. simpl in E. discriminate.
  - destruct (bi_done e x I) as [H|[t0 [p0 [Hp0 Hin]]]]; [exact H|].
    pose proof (Forall_nth_error _ _ _ _ Hd Hp0) as E. simpl in E. subst p0. contradiction.
Qed.

(* the start state of arbitrary programs *)
Definition good_start (e : benv) (ts : list (list bact)) : Prop :=
  Forall (fun p => lock_ok p = true) ts /\
  Forall (fun p => forallb lib_act p = true) ts /\
  (exists t p, nth_error ts t = Some p /\ pending e p = true) /\
  (exists t p, nth_error ts t = Some p /\ In BShutdown p).

Lemma binv_init : forall e ts, good_start e ts -> BInv e (b_init, ts).
Proof.
  intros e ts [H1 [H2 [H3 H4]]]. constructor; simpl; auto; try discriminate.
Qed.

Theorem close_releases_stalled_write : forall e ts sched,
  good_start e ts ->
  let x := bexec e (b_init, ts) sched in
  (* never stuck *)
  (~ ball_done (snd x) -> exists tid, can_run e x tid = true) /\
  (* completes, and then the socket is closed and Done is completed *)
  (exists ext, ball_done (snd (bexec e x ext))) /\
  (ball_done (snd x) -> b_sock (fst x) = true /\ b_done (fst x) = true).
Proof.
  intros e ts sched G x. pose proof (binv_exec e sched _ (binv_init e ts G)) as I. fold x in I.
  split; [apply not_stuck; exact I|]. split; [|apply (binv_final e); exact I].
  apply (completes_from e (measure (snd x)) x I). lia.
Qed.

(* ---------- the library's system is a good start ---------- *)
Lemma incs_writes : forall k r, incs (repeat BWrite k ++ BUnlock :: r) = true.
Proof. induction k as [|k IH]; intros r; simpl; auto. Qed.
Lemma lock_ok_writes : forall k, lock_ok (repeat BWrite k ++ [BUnlock]) = true.
Proof. induction k as [|k IH]; simpl; auto. Qed.
Lemma lib_writes : forall k, forallb lib_act (repeat BWrite k ++ [BUnlock]) = true.
Proof. induction k as [|k IH]; simpl; auto. Qed.

Lemma lock_ok_writer : forall k, lock_ok (writer k) = true.
Proof. intros k. unfold writer. simpl. rewrite incs_writes, lock_ok_writes. reflexivity. Qed.
Lemma lib_writer : forall k, forallb lib_act (writer k) = true.
Proof. intros k. unfold writer. simpl. apply lib_writes. Qed.

Lemma In_nth_error_ex : forall {A} (l : list A) x, In x l -> exists t, nth_error l t = Some x.
Proof. intros A l x H. apply In_nth_error. exact H. Qed.

Lemma stall_sys_good : forall e ks nclose,
  1 <= nclose \/ e_eof e = true -> good_start e (stall_sys CloseLib ks nclose).
Proof.
  intros e ks nclose H. unfold good_start, stall_sys. repeat split.
  - apply Forall_app. split.
    + apply Forall_forall. intros p Hp. apply in_map_iff in Hp. destruct Hp as [k [<- _]]. apply lock_ok_writer.
    + apply Forall_app. split.
      * apply Forall_forall. intros p Hp. apply repeat_spec in Hp. subst. reflexivity.
      * constructor; [reflexivity|constructor].
  - apply Forall_app. split.
    + apply Forall_forall. intros p Hp. apply in_map_iff in Hp. destruct Hp as [k [<- _]]. apply lib_writer.
    + apply Forall_app. split.
      * apply Forall_forall. intros p Hp. apply repeat_spec in Hp. subst. reflexivity.
      * constructor; [reflexivity|constructor].
  - destruct H as [H|H].
    + destruct (In_nth_error_ex (map writer ks ++ repeat (closer CloseLib) nclose ++ [reader CloseLib]) (closer CloseLib)) as [t Ht].
      { apply in_or_app. right. apply in_or_app. left. destruct nclose; [lia|]. simpl. auto. }
      exists t, (closer CloseLib). split; [exact Ht|reflexivity].
    + destruct (In_nth_error_ex (map writer ks ++ repeat (closer CloseLib) nclose ++ [reader CloseLib]) (reader CloseLib)) as [t Ht].
      { apply in_or_app. right. apply in_or_app. right. simpl. auto. }
      exists t, (reader CloseLib). split; [exact Ht|]. simpl. rewrite H. reflexivity.
  - destruct (In_nth_error_ex (map writer ks ++ repeat (closer CloseLib) nclose ++ [reader CloseLib]) (reader CloseLib)) as [t Ht].
    { apply in_or_app. right. apply in_or_app. right. simpl. auto. }
    exists t, (reader CloseLib). split; [exact Ht|]. simpl. auto 10.
Qed.

(* any number of writers with any number of socket writes each, blocked behind a peer that does not read;
   at least one Close call, or the peer has closed: *)
Theorem close_while_write_stalled : forall e ks nclose sched,
  1 <= nclose \/ e_eof e = true ->
  let x := bexec e (b_init, stall_sys CloseLib ks nclose) sched in
  (~ ball_done (snd x) -> exists tid, can_run e x tid = true) /\
  (exists ext, ball_done (snd (bexec e x ext))) /\
  (ball_done (snd x) -> b_sock (fst x) = true /\ b_done (fst x) = true).
Proof.
  intros e ks nclose sched H x.
  destruct (close_releases_stalled_write e _ sched (stall_sys_good e ks nclose H)) as [A [B C]].
  auto.
Qed.

(* ---------- the converse: a Close that takes the write lock first ---------- *)
Theorem lock_before_close_deadlocks :
  exists sched,
    let e := mkEnv true false in
    let x := bexec e (b_init, stall_sys CloseLocked [1] 1) sched in
    (forall ext, bexec e x ext = x) /\ ~ ball_done (snd x) /\
    b_sock (fst x) = false /\ b_done (fst x) = false /\
    (* the Close call, the writer and the reader are all parked *)
    (forall tid, can_run e x tid = false).
Proof.
  exists [0; 1; 1]. cbv zeta.
  assert (S : forall tid, can_run (mkEnv true false) (bexec (mkEnv true false) (b_init, stall_sys CloseLocked [1] 1) [0; 1; 1]) tid = false).
  { intros tid. destruct tid as [|[|[|tid]]]; vm_compute; try reflexivity. destruct tid; reflexivity. }
  split; [apply stuck_forever; exact S|]. split.
  - vm_compute. intro H. inversion H. discriminate.
  - split; [reflexivity|]. split; [reflexivity|exact S].
Qed.

(* ---------- without a close nothing releases a stalled write ---------- *)
Definition is_read (a : bact) : bool := match a with BRead => true | _ => false end.

Lemma noclose_next : forall s a rest,
  noclose (a :: rest) = true -> is_read a = false ->
  snd (bact_step s a) = [] /\ noclose rest = true /\ b_sock (fst (bact_step s a)) = b_sock s.
Proof.
  intros s a rest H Hr. destruct a; simpl in *; try discriminate; auto.
Qed.

Lemma needs_close_gen : forall e sched x tid p,
  e_stalled e = true -> e_eof e = false ->
  b_sock (fst x) = false ->
  Forall (fun q => noclose q = true) (snd x) ->
  nth_error (snd x) tid = Some p -> In BWrite p ->
  b_sock (fst (bexec e x sched)) = false /\
  exists p', nth_error (snd (bexec e x sched)) tid = Some p' /\ In BWrite p'.
Proof.
  intros e sched. induction sched as [|t sched IH]; intros x tid p Hst Heof Hs0 Hf Hn Hin; simpl.
  - split; [exact Hs0|]. exists p. auto.
  - destruct (bstep_cases e x t) as [->|[a [rest [Hna [Hen Heq]]]]]; [eapply IH; eauto|].
    assert (Hra : is_read a = false).
    { destruct a; simpl in *; auto. rewrite Heof, Hs0 in Hen. discriminate. }
    pose proof (Forall_nth_error _ _ _ _ Hf Hna) as Hnc. simpl in Hnc.
    destruct (noclose_next (fst x) a rest Hnc Hra) as [Hpre [Hnr Hsk]].
    rewrite Heq. rewrite Hpre. simpl app.
    destruct (Nat.eq_dec t tid) as [->|Hne].
    + rewrite Hn in Hna. injection Hna as ->.
      assert (Hin' : In BWrite rest).
      { destruct Hin as [->|Hin]; [|exact Hin]. simpl in Hen. rewrite Hst, Hs0 in Hen. discriminate. }
      apply (IH _ tid rest); simpl; auto.
      * rewrite Hsk. exact Hs0.
      * apply Forall_upd; assumption.
      * eapply nth_error_upd_same; eauto.
    + apply (IH _ tid p); simpl; auto.
      * rewrite Hsk. exact Hs0.
      * apply Forall_upd; assumption.
      * rewrite nth_error_upd_other by exact Hne. exact Hn.
Qed.

Theorem stalled_write_needs_close : forall e ts sched tid p,
  e_stalled e = true -> e_eof e = false ->
  Forall (fun q => noclose q = true) ts ->
  nth_error ts tid = Some p -> In BWrite p ->
  let x := bexec e (b_init, ts) sched in
  b_sock (fst x) = false /\ exists p', nth_error (snd x) tid = Some p' /\ In BWrite p'.
Proof.
  intros e ts sched tid p Hst Heof Hf Hn Hin. cbv zeta.
  apply (needs_close_gen e sched (b_init, ts) tid p); auto.
Qed.

Lemma noclose_writes : forall k, noclose (repeat BWrite k ++ [BUnlock]) = true.
Proof. induction k as [|k IH]; simpl; auto. Qed.

(* the library's system without any Close call and with a silent peer: no writer ever returns *)
Theorem stalled_write_hangs_without_close : forall e ks sched tid k,
  e_stalled e = true -> e_eof e = false ->
  nth_error ks tid = Some (S k) ->
  let x := bexec e (b_init, stall_sys CloseLib ks 0) sched in
  b_sock (fst x) = false /\ exists p', nth_error (snd x) tid = Some p' /\ In BWrite p'.
Proof.
  intros e ks sched tid k Hst Heof Hk.
  apply (stalled_write_needs_close e _ sched tid (writer (S k)) Hst Heof).
  - unfold stall_sys. apply Forall_app. split.
    + apply Forall_forall. intros p Hp. apply in_map_iff in Hp. destruct Hp as [j [<- _]].
      unfold writer. simpl. apply noclose_writes.
    + simpl. constructor; [reflexivity|constructor].
  - unfold stall_sys. rewrite nth_error_app1.
    + rewrite nth_error_map, Hk. reflexivity.
    + rewrite map_length. apply nth_error_Some. congruence.
  - unfold writer. simpl. auto.
Qed.

(* ================= E. Done => connection context cancelled ================= *)
Fixpoint guarded (p : list action) : bool :=
  match p with
  | [] => true
  | ACancel :: _ => true
  | ADone :: _ => false
  | _ :: r => guarded r
  end.

Lemma guarded_runs : forall l r, guarded (map ARun l ++ r) = guarded r.
Proof. induction l as [|f l IH]; intros r; simpl; auto. Qed.

Definition DInv (x : sys) : Prop :=
  c_cancelled (fst x) = true \/ (c_done (fst x) = false /\ Forall (fun p => guarded p = true) (snd x)).

Lemma dinv_step : forall k x tid, DInv x -> DInv (step k x tid).
Proof.
  intros k x tid I. unfold step.
  destruct (nth_error (snd x) tid) as [[|a rest]|] eqn:Hn; auto.
  destruct I as [Hc|[Hd Hf]].
  - left. pose proof (act_monotone k a (fst x)) as [M _].
    destruct (act k a (fst x)) as [s' pre] eqn:Ha. simpl in *. auto.
  - pose proof (Forall_nth_error _ _ _ _ Hf Hn) as Hg. simpl in Hg.
    destruct a; simpl in *; try discriminate.
    + left. reflexivity.
    + destruct (c_sock_closed (fst x)); simpl; right; (split; [exact Hd|apply Forall_upd; assumption]).
    + right. split; [exact Hd|]. apply Forall_upd; [exact Hf|]. rewrite guarded_runs. exact Hg.
    + right. split; [exact Hd|]. apply Forall_upd; assumption.
    + right. split; [exact Hd|]. apply Forall_upd; assumption.
Qed.

Theorem done_implies_cancelled : forall k cbs ts0 sched,
  Forall (fun p => guarded p = true) ts0 ->
  let x := exec k (init_st cbs, ts0) sched in
  c_done (fst x) = true -> c_cancelled (fst x) = true.
Proof.
  intros k cbs ts0 sched Hg x.
  assert (I : DInv x).
  { unfold x. assert (I0 : DInv (init_st cbs, ts0)) by (right; split; [reflexivity|exact Hg]).
    revert I0. generalize (init_st cbs, ts0). induction sched as [|t sched IH]; intros y Iy; simpl; auto using dinv_step. }
  destruct I as [Hc|[Hd _]]; intros H; [exact Hc|congruence].
Qed.

Lemma session_threads_guarded : forall cs nclose nshut adds,
  Forall (fun p => guarded p = true) (session_threads cs nclose nshut adds).
Proof.
  intros cs nclose nshut adds. unfold session_threads. apply Forall_app. split; [|apply Forall_app; split].
  - apply Forall_forall. intros p Hp. apply repeat_spec in Hp. subst. reflexivity.
  - apply Forall_forall. intros p Hp. apply repeat_spec in Hp. subst. reflexivity.
  - apply Forall_forall. intros p Hp. apply in_map_iff in Hp. destruct Hp as [f [<- _]]. reflexivity.
Qed.

(* the library: any number of Close calls, Run exits / close-function callers and AddOnClose calls *)
Theorem session_done_implies_cancelled : forall k cs cbs nclose nshut adds sched,
  let x := exec k (init_st cbs, session_threads cs nclose nshut adds) sched in
  c_done (fst x) = true -> c_cancelled (fst x) = true.
Proof.
  intros k cs cbs nclose nshut adds sched. apply done_implies_cancelled. apply session_threads_guarded.
Qed.

(* a Run exit that calls Close only when the session owns the socket: Done is completed, the callbacks have
   run, and the connection context is still alive -- the waits that listen to it are never woken *)
Theorem run_exit_without_close_refuted :
  exists sched, let x := exec DoneCtx (init_st [7], [shutdown_prog]) sched in
    all_done (snd x) /\ c_done (fst x) = true /\ c_ran (fst x) = [7] /\ c_cancelled (fst x) = false.
Proof. exists [0; 0; 0]. vm_compute. repeat split. repeat constructor. Qed.
