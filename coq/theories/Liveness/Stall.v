(* C09 -- blocking model of the stream socket wrapper (net/conn.go) under a
   session (tcp/client/session.go, dtls/server/session.go): the write lock, a
   socket whose peer stopped reading, the reader loop.  Definitions only; proofs
   in StallProofs.v.

   Transcribed from the code (as it is):

     net.Conn.WriteWithContext(ctx, data):
        c.lock.Lock(); defer c.lock.Unlock()
        for written < len(data) { poll ctx; if c.closed { return err }
                                  n, err := c.connection.Write(data[written:]) ... }
     net.Conn.Close():
        if !c.closed.CompareAndSwap(false, true) { return nil }
        return c.connection.Close()                      -- NO lock is taken
     Session.Close():   s.cancel(); if s.closeSocket { s.connection.Close() }
     Session.Run():     defer func(){ s.Close(); s.shutdown() }()
                        for { s.connection.ReadWithContext(s.Context(), buf) ... }

   Close.v treats every action as always enabled.  Here three actions can BLOCK:

     BLock   -- sync.Mutex.Lock: enabled iff the lock is free;
     BWrite  -- connection.Write: when the peer has stopped reading (socket
                buffers full, half-open stream) the call stays in the kernel
                until the socket is closed; a context is not looked at;
     BRead   -- connection.Read of the reader loop: returns when the socket is
                closed or the peer has closed / failed (e_eof).

   A step of a thread whose head action is not enabled leaves the system
   unchanged (the goroutine stays parked).  The shutdown of the session (pop,
   callbacks, completing Done: Close.v) is the single action BShutdown here.

   [cvar] is the shape of net.Conn.Close: CloseLib = as above; CloseLocked =
   taking the write lock between the compare-and-swap and the socket's Close
   ("let a write in progress finish") -- the variant StallProofs.v refutes. *)
From Coq Require Import List Bool Arith.
From GoCoap Require Import Liveness.Close.
Import ListNotations.

Inductive cvar := CloseLib | CloseLocked.

Inductive bact :=
| BCancel            (* s.cancel() *)
| BCas (v : cvar)    (* c.closed.CompareAndSwap(false, true); the winner goes on with [cas_won v] *)
| BSockClose         (* c.connection.Close(): the socket's Close *)
| BLock | BUnlock    (* c.lock *)
| BWrite             (* c.connection.Write *)
| BRead              (* c.connection.Read in the reader loop *)
| BShutdown.         (* s.shutdown(): callbacks, Done completed *)

Definition cas_won (v : cvar) : list bact :=
  match v with
  | CloseLib => [BSockClose]
  | CloseLocked => [BLock; BSockClose; BUnlock]
  end.

(* the peer, fixed for a run: does it read what we write; has it closed / failed *)
Record benv := mkEnv { e_stalled : bool; e_eof : bool }.

Record bst := mkB {
  b_ctx : bool;            (* connection context cancelled *)
  b_flag : bool;           (* net.Conn.closed *)
  b_sock : bool;           (* the socket is closed *)
  b_sock_closes : nat;
  b_lock : bool;           (* net.Conn.lock is held *)
  b_done : bool }.         (* Done() completed *)

Definition b_init : bst := mkB false false false 0 false false.

Definition enabled (e : benv) (s : bst) (a : bact) : bool :=
  match a with
  | BLock => negb (b_lock s)
  | BWrite => negb (e_stalled e) || b_sock s
  | BRead => e_eof e || b_sock s
  | _ => true
  end.

Definition bact_step (s : bst) (a : bact) : bst * list bact :=
  match a with
  | BCancel => (mkB true (b_flag s) (b_sock s) (b_sock_closes s) (b_lock s) (b_done s), [])
  | BCas v =>
      if b_flag s then (s, [])
      else (mkB (b_ctx s) true (b_sock s) (b_sock_closes s) (b_lock s) (b_done s), cas_won v)
  | BSockClose => (mkB (b_ctx s) (b_flag s) true (S (b_sock_closes s)) (b_lock s) (b_done s), [])
  | BLock => (mkB (b_ctx s) (b_flag s) (b_sock s) (b_sock_closes s) true (b_done s), [])
  | BUnlock => (mkB (b_ctx s) (b_flag s) (b_sock s) (b_sock_closes s) false (b_done s), [])
  | BWrite => (s, [])
  | BRead => (s, [])
  | BShutdown => (mkB (b_ctx s) (b_flag s) (b_sock s) (b_sock_closes s) (b_lock s) true, [])
  end.

Definition bsys := (bst * list (list bact))%type.

Definition bstep (e : benv) (x : bsys) (tid : nat) : bsys :=
  match nth_error (snd x) tid with
  | Some (a :: rest) =>
      if enabled e (fst x) a
      then (fst (bact_step (fst x) a), upd tid (snd (bact_step (fst x) a) ++ rest) (snd x))
      else x
  | _ => x
  end.

Definition bexec (e : benv) (x : bsys) (sched : list nat) : bsys := fold_left (bstep e) sched x.

(* thread tid can take a step *)
Definition can_run (e : benv) (x : bsys) (tid : nat) : bool :=
  match nth_error (snd x) tid with
  | Some (a :: _) => enabled e (fst x) a
  | _ => false
  end.

Definition ball_done (ts : list (list bact)) : Prop := Forall (fun p => p = []) ts.

(* ---------- the programs of the library ---------- *)
(* WriteWithContext with k calls of the socket's Write *)
Definition writer (k : nat) : list bact := BLock :: repeat BWrite k ++ [BUnlock].
(* Session.Close of a session that owns its socket *)
Definition closer (v : cvar) : list bact := [BCancel; BCas v].
(* Session.Run: parked in Read; when Read returns, the deferred Close and shutdown *)
Definition reader (v : cvar) : list bact := BRead :: closer v ++ [BShutdown].

(* writers (one per element of ks), nclose concurrent Close calls, the reader loop *)
Definition stall_sys (v : cvar) (ks : list nat) (nclose : nat) : list (list bact) :=
  map writer ks ++ repeat (closer v) nclose ++ [reader v].

(* ---------- measures and shapes used by the theorems ---------- *)
Definition weight (a : bact) : nat := match a with BCas v => S (List.length (cas_won v)) | _ => 1 end.
Definition pweight (p : list bact) : nat := list_sum (map weight p).
Definition measure (ts : list (list bact)) : nat := list_sum (map pweight ts).

(* inside the critical section: socket writes, then the unlock *)
Fixpoint incs (p : list bact) : bool :=
  match p with
  | BWrite :: r => incs r
  | BUnlock :: _ => true
  | _ => false
  end.
(* every Lock of the program is followed by socket writes and the Unlock *)
Fixpoint lock_ok (p : list bact) : bool :=
  match p with
  | [] => true
  | BLock :: r => incs r && lock_ok r
  | _ :: r => lock_ok r
  end.
Definition lib_act (a : bact) : bool := match a with BCas CloseLocked => false | _ => true end.

(* the thread is on its way to the compare-and-swap of net.Conn.Close and nothing before it can block *)
Fixpoint pending (e : benv) (p : list bact) : bool :=
  match p with
  | BCas CloseLib :: _ => true
  | BCancel :: r => pending e r
  | BRead :: r => e_eof e && pending e r
  | _ => false
  end.

(* nothing in the program closes the socket before a Read has returned *)
Fixpoint noclose (p : list bact) : bool :=
  match p with
  | [] => true
  | BRead :: _ => true
  | BSockClose :: _ => false
  | BCas _ :: _ => false
  | _ :: r => noclose r
  end.

(* round-robin schedule used by the evaluators of Run.v *)
Definition rr (nthreads rounds : nat) : list nat := flat_map (fun _ => seq 0 nthreads) (seq 0 rounds).
