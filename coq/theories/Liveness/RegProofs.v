(* C09 -- proofs about the on-close registry as a slice (Reg.v).

   G. With popOnClose leaving `nil` behind (PopNil, the source): for ALL callbacks that register further callbacks
      when they run (regs), arbitrary thread programs of AddOnClose and popOnClose/shutdown (concurrent
      registrations, any number of shutdown callers), every schedule:
        - at every moment no callback has run more often than it was registered
          (before the close + by AddOnClose calls executed so far);
        - when all threads have returned and somebody has shut the session down, every callback that was not
          registered again during the run has run EXACTLY as often as it was registered before -- once -- however
          many callbacks were registered while the loop of shutdown was running
          (callbacks_registered_before_close_run_once; added_sources: which callbacks can be registered in a run).
      The invariant that carries it: the arrays the pending iterations of shutdown read from are never the array
      s.onClose appends into.
      With `s.onClose = s.onClose[:0]` (PopTrunc) that is false: a callback that registers two callbacks, or
      another goroutine registering while a callback runs, overwrites the slots shutdown has not read yet; callbacks
      registered before the close never run, the late ones run and stay registered
      (pop_trunc_nested_registration_loses_callback, pop_trunc_concurrent_registration_loses_callbacks). *)
From Coq Require Import List Bool Arith Lia.
From GoCoap Require Import Liveness.Close Liveness.Reg.
Import ListNotations.
Local Notation length := List.length (only parsing).
Local Open Scope list_scope.

(* ================= lists ================= *)
Lemma r_upd_length : forall {A} (l : list A) n x, length (upd n x l) = length l.
Proof. induction l as [|z l IH]; intros n x; destruct n; simpl; auto. Qed.

Lemma r_nth_upd_same : forall {A} (l : list A) n x d, n < length l -> nth n (upd n x l) d = x.
Proof.
  induction l as [|z l IH]; intros n x d H; destruct n; simpl in *; try lia; auto. apply IH. lia.
Qed.

Lemma r_nth_upd_other : forall {A} (l : list A) n m x d, n <> m -> nth m (upd n x l) d = nth m l d.
Proof.
  induction l as [|z l IH]; intros n m x d H; destruct n, m; simpl; auto; try congruence.
Qed.

Lemma firstn_upd_snoc : forall (a : list nat) l f, l < length a -> firstn (S l) (upd l f a) = firstn l a ++ [f].
Proof.
  induction a as [|z a IH]; intros l f H; simpl in H; [lia|].
  destruct l; simpl; [reflexivity|]. f_equal. apply IH. lia.
Qed.

Lemma firstn_S_snoc : forall (a : list nat) l, l < length a -> firstn (S l) a = firstn l a ++ [nth l a 0].
Proof.
  induction a as [|z a IH]; intros l H; simpl in H; [lia|].
  destruct l; simpl; [reflexivity|]. f_equal. apply IH. lia.
Qed.

Lemma arr_app1 : forall h r a, a < length h -> arr (h ++ r) a = arr h a.
Proof. intros h r a H. unfold arr. apply app_nth1. exact H. Qed.

Lemma arr_app_new : forall h x, arr (h ++ [x]) (length h) = x.
Proof. intros h x. unfold arr. rewrite app_nth2 by lia. rewrite Nat.sub_diag. reflexivity. Qed.

Definition lsum (w : ract -> nat) (p : list ract) : nat := list_sum (map w p).

Lemma lsum_app : forall w p q, lsum w (p ++ q) = lsum w p + lsum w q.
Proof. intros w p q. unfold lsum. rewrite map_app. induction (map w p); simpl; lia. Qed.

Lemma tsum_upd : forall w ts tid p q,
  nth_error ts tid = Some p -> tsum w (upd tid q ts) + lsum w p = tsum w ts + lsum w q.
Proof.
  unfold tsum, lsum. induction ts as [|z ts IH]; intros tid p q H; destruct tid; simpl in *; try discriminate.
  - injection H as ->. lia.
  - specialize (IH _ _ q H). lia.
Qed.

Lemma tsum_ext : forall w1 w2 ts, Forall (Forall (fun a => w1 a = w2 a)) ts -> tsum w1 ts = tsum w2 ts.
Proof.
  intros w1 w2 ts H. unfold tsum. induction H as [|p ts Hp _ IH]; simpl; [reflexivity|].
  rewrite IH. f_equal. induction Hp as [|a p Ha _ IHp]; simpl; [reflexivity|]. rewrite Ha, IHp. reflexivity.
Qed.

Lemma tsum_done : forall w ts, rall_done ts -> tsum w ts = 0.
Proof.
  intros w ts H. unfold tsum. induction H as [|p ts Hp _ IH]; simpl; [reflexivity|]. subst p. simpl. exact IH.
Qed.

Lemma r_Forall_upd : forall {A} (P : A -> Prop) l n x, Forall P l -> P x -> Forall P (upd n x l).
Proof.
  induction l as [|z l IH]; intros n x Hf Hx; destruct n; simpl; auto;
    inversion Hf; subst; constructor; auto.
Qed.

Lemma r_Forall_nth : forall {A} (P : A -> Prop) l n x, Forall P l -> nth_error l n = Some x -> P x.
Proof. intros A P l n x Hf Hn. apply nth_error_In in Hn. rewrite Forall_forall in Hf. auto. Qed.

Lemma count_single : forall x f, count_occ Nat.eq_dec [x] f = if Nat.eqb x f then 1 else 0.
Proof. intros x f. simpl. destruct (Nat.eq_dec x f); destruct (Nat.eqb_spec x f); congruence. Qed.

Lemma count_cons : forall x l f, count_occ Nat.eq_dec (x :: l) f = (if Nat.eqb x f then 1 else 0) + count_occ Nat.eq_dec l f.
Proof. intros x l f. simpl. destruct (Nat.eq_dec x f); destruct (Nat.eqb_spec x f); try congruence; lia. Qed.

(* ================= append ================= *)
Definition wf (h : list (list nat)) (on : option (nat * nat)) : Prop :=
  match on with None => True | Some (a, l) => a < length h /\ l <= length (arr h a) end.

Definition apart (on : option (nat * nat)) (a : nat) : Prop :=
  match on with Some (a', _) => a <> a' | None => True end.

Lemma append_spec : forall h on f, wf h on ->
  wf (fst (append h on f)) (snd (append h on f)) /\
  view (fst (append h on f)) (snd (append h on f)) = view h on ++ [f] /\
  length h <= length (fst (append h on f)) /\
  (forall a, a < length h -> apart on a ->
             arr (fst (append h on f)) a = arr h a /\ apart (snd (append h on f)) a).
Proof.
  intros h on f W. unfold append. destruct on as [[a' l]|]; cbn [wf] in W.
  - destruct W as [Wa Wl]. destruct (l <? length (arr h a')) eqn:E; cbn [fst snd view wf apart].
    + apply Nat.ltb_lt in E.
      assert (A : arr (upd a' (upd l f (arr h a')) h) a' = upd l f (arr h a')).
      { unfold arr at 1. apply r_nth_upd_same. exact Wa. }
      split; [|split; [|split]].
      * rewrite r_upd_length. split; [exact Wa|]. rewrite A, r_upd_length. lia.
      * rewrite A. apply firstn_upd_snoc. exact E.
      * rewrite r_upd_length. lia.
      * intros a Ha Hap. split; [|exact Hap]. unfold arr. apply r_nth_upd_other. congruence.
    + apply Nat.ltb_ge in E. assert (l = length (arr h a')) by lia.
      split; [|split; [|split]].
      * rewrite app_length. simpl. split; [lia|]. rewrite arr_app_new, app_length, firstn_length. simpl. lia.
      * rewrite arr_app_new. rewrite firstn_app, firstn_length.
        replace (Nat.min l (length (arr h a'))) with l by lia.
        replace (S l - l) with 1 by lia.
        rewrite (firstn_all2 (n := S l)) by (rewrite firstn_length; lia). reflexivity.
      * rewrite app_length. lia.
      * intros a Ha Hap. split; [apply arr_app1; exact Ha|lia].
  - cbn [fst snd view wf apart]. split; [|split; [|split]].
    + rewrite app_length. simpl. split; [lia|]. rewrite arr_app_new. simpl. lia.
    + rewrite arr_app_new. reflexivity.
    + rewrite app_length. lia.
    + intros a Ha _. split; [apply arr_app1; exact Ha|lia].
Qed.

Lemma build_spec_gen : forall cbs h on, wf h on ->
  let r := fold_left (fun ho f => append (fst ho) (snd ho) f) cbs (h, on) in
  wf (fst r) (snd r) /\ view (fst r) (snd r) = view h on ++ cbs.
Proof.
  induction cbs as [|f cbs IH]; intros h on W; simpl.
  - split; [exact W|]. rewrite app_nil_r. reflexivity.
  - destruct (append_spec h on f W) as [W' [V' _]].
    destruct (append h on f) as [h' on'] eqn:E. simpl in *.
    destruct (IH h' on' W') as [W'' V'']. split; [exact W''|]. rewrite V'', V', <- app_assoc. reflexivity.
Qed.

Lemma build_spec : forall cbs, wf (fst (build cbs)) (snd (build cbs)) /\ view (fst (build cbs)) (snd (build cbs)) = cbs.
Proof. intros cbs. apply (build_spec_gen cbs [] None). exact I. Qed.

(* ================= G. the invariant ================= *)
(* a pending iteration reads inside an existing array that is not the one s.onClose appends into *)
Definition iter_ok (h : list (list nat)) (on : option (nat * nat)) (act : ract) : Prop :=
  match act with
  | RIter a i => a < length h /\ i < length (arr h a) /\ apart on a
  | _ => True
  end.

Record RInv (cbs : list nat) (x : rsys) : Prop := mkRInv {
  ri_wf : wf (r_heap (fst x)) (r_on (fst x));
  ri_iter : Forall (Forall (iter_ok (r_heap (fst x)) (r_on (fst x)))) (snd x);
  ri_count : forall f, ran_count (fst x) f + tsum (wi (r_heap (fst x)) f) (snd x) +
                       count_occ Nat.eq_dec (view (r_heap (fst x)) (r_on (fst x))) f
                       = count_occ Nat.eq_dec cbs f + count_occ Nat.eq_dec (r_added (fst x)) f;
  ri_view : r_popped (fst x) = true ->
            forall f, In f (view (r_heap (fst x)) (r_on (fst x))) -> In f (r_added (fst x)) }.

Lemma iter_count : forall h f a l, l <= length (arr h a) ->
  lsum (wi h f) (map (RIter a) (seq 0 l)) = count_occ Nat.eq_dec (firstn l (arr h a)) f.
Proof.
  intros h f a l. induction l as [|l IH]; intros H; [reflexivity|].
  rewrite seq_S, map_app, lsum_app, IH by lia.
  rewrite firstn_S_snoc by lia. rewrite count_occ_app, count_single. unfold lsum. simpl. lia.
Qed.

Lemma lsum_adds : forall w l, (forall f, w (RAdd f) = 0) -> lsum w (map RAdd l) = 0.
Proof. intros w l H. unfold lsum. induction l as [|f l IH]; simpl; [reflexivity|]. rewrite H. exact IH. Qed.

Lemma rstep_cases : forall v regs x tid,
  rstep v regs x tid = x \/
  exists a rest, nth_error (snd x) tid = Some (a :: rest) /\
                 rstep v regs x tid = (fst (ract_step v regs (fst x) a), upd tid (snd (ract_step v regs (fst x) a) ++ rest) (snd x)).
Proof.
  intros v regs x tid. unfold rstep.
  destruct (nth_error (snd x) tid) as [[|a rest]|] eqn:Hn; auto.
  right. exists a, rest. auto.
Qed.

Lemma Forall2_weaken : forall (P Q : ract -> Prop) ts, (forall a, P a -> Q a) ->
  Forall (Forall P) ts -> Forall (Forall Q) ts.
Proof.
  intros P Q ts H Hf. eapply Forall_impl; [|exact Hf]. intros p Hp. eapply Forall_impl; [|exact Hp]. exact H.
Qed.

Lemma Forall_tail : forall {A} (P : A -> Prop) a r, Forall P (a :: r) -> Forall P r.
Proof. intros A P a r H. inversion H; assumption. Qed.

Ltac rsimpl := cbn [ract_step fst snd r_heap r_on r_ran r_added r_popped app] in *.

Lemma rinv_step : forall cbs regs x tid, RInv cbs x -> RInv cbs (rstep PopNil regs x tid).
Proof.
  intros cbs regs [s ts] tid I. destruct (rstep_cases PopNil regs (s, ts) tid) as [E|[a [rest [Hn E]]]]; rewrite E; [exact I|].
  clear E. simpl in Hn. destruct I as [W It Cn Vw]. rsimpl.
  assert (Hthr : Forall (iter_ok (r_heap s) (r_on s)) (a :: rest)) by (eapply r_Forall_nth; eauto).
  assert (Hrest := Forall_tail _ _ _ Hthr).
  destruct a as [g| |a i].
  - (* AddOnClose(g) *)
    destruct (append_spec (r_heap s) (r_on s) g W) as [W' [V' [L' K']]].
    assert (Mono : forall act, iter_ok (r_heap s) (r_on s) act ->
                               iter_ok (fst (append (r_heap s) (r_on s) g)) (snd (append (r_heap s) (r_on s) g)) act).
    { intros [ | |b j]; simpl; auto. intros [Hb [Hj Hap]]. destruct (K' b Hb Hap) as [Ea Hap'].
      rewrite Ea. split; [lia|]. split; assumption. }
    assert (Wsame : forall f, tsum (wi (fst (append (r_heap s) (r_on s) g)) f) ts = tsum (wi (r_heap s) f) ts).
    { intros f. apply tsum_ext. eapply Forall2_weaken; [|exact It].
      intros [ | |b j]; simpl; auto. intros [Hb [Hj Hap]]. destruct (K' b Hb Hap) as [Ea _]. rewrite Ea. reflexivity. }
    constructor; rsimpl.
    + exact W'.
    + apply r_Forall_upd.
      * eapply Forall2_weaken; [exact Mono|exact It].
      * eapply Forall_impl; [exact Mono|exact Hrest].
    + intros f. specialize (Cn f). unfold ran_count in *. rsimpl.
      pose proof (tsum_upd (wi (fst (append (r_heap s) (r_on s) g)) f) ts tid _ rest Hn) as T.
      unfold lsum in T. simpl in T. rewrite Wsame in T.
      rewrite V', count_occ_app, count_single, count_cons. lia.
    + intros Hp f Hin. rewrite V' in Hin. apply in_app_or in Hin. destruct Hin as [Hin|[->|[]]].
      * right. apply (Vw Hp). exact Hin.
      * left. reflexivity.
  - (* popOnClose *)
    rsimpl. destruct (r_on s) as [[a l]|] eqn:Eon; rsimpl.
    + destruct W as [Wa Wl]. constructor; rsimpl.
      * exact I.
      * apply r_Forall_upd.
        -- eapply Forall2_weaken; [|exact It]. intros [ | |b j]; simpl; auto. tauto.
        -- apply Forall_app. split.
           ++ rewrite Forall_forall. intros act Hact. apply in_map_iff in Hact. destruct Hact as [j [<- Hj]].
              apply in_seq in Hj. simpl. split; [exact Wa|]. split; [lia|exact I].
           ++ eapply Forall_impl; [|exact Hrest]. intros [ | |b j]; simpl; auto. tauto.
      * intros f. specialize (Cn f). unfold ran_count in *. rsimpl.
        pose proof (tsum_upd (wi (r_heap s) f) ts tid _ (map (RIter a) (seq 0 l) ++ rest) Hn) as T.
        rewrite lsum_app, iter_count in T by exact Wl. unfold lsum in T. simpl in T. unfold lsum. cbn [view count_occ] in *. lia.
      * intros _ f [].
    + constructor; rsimpl.
      * exact I.
      * apply r_Forall_upd; [exact It|exact Hrest].
      * intros f. specialize (Cn f). unfold ran_count in *. rsimpl.
        pose proof (tsum_upd (wi (r_heap s) f) ts tid _ rest Hn) as T. unfold lsum in T. simpl in T. lia.
      * intros _ f [].
  - (* one iteration of the loop of shutdown: read the element, call it; it registers regs f *)
    constructor; rsimpl.
    + exact W.
    + apply r_Forall_upd; [exact It|]. apply Forall_app. split; [|exact Hrest].
      rewrite Forall_forall. intros act Hact. apply in_map_iff in Hact. destruct Hact as [j [<- _]]. exact I.
    + intros f. specialize (Cn f). unfold ran_count in *. rsimpl.
      pose proof (tsum_upd (wi (r_heap s) f) ts tid _ (map RAdd (regs (nth i (arr (r_heap s) a) 0)) ++ rest) Hn) as T.
      rewrite lsum_app, lsum_adds in T by reflexivity. unfold lsum in T. simpl in T.
      rewrite count_cons. lia.
    + exact Vw.
Qed.

Lemma rinv_exec : forall cbs regs sched x, RInv cbs x -> RInv cbs (rexec PopNil regs x sched).
Proof. intros cbs regs sched. induction sched as [|t sched IH]; intros x I; simpl; auto using rinv_step. Qed.

Lemma user_no_iter : forall h on p, forallb user_act p = true -> Forall (iter_ok h on) p.
Proof.
  intros h on p H. rewrite forallb_forall in H. rewrite Forall_forall. intros a Ha. specialize (H a Ha).
  destruct a; simpl in *; auto. discriminate.
Qed.

Lemma tsum_user : forall h f ts, Forall (fun p => forallb user_act p = true) ts -> tsum (wi h f) ts = 0.
Proof.
  intros h f ts H. unfold tsum. induction H as [|p ts Hp _ IH]; simpl; [reflexivity|]. rewrite IH.
  rewrite forallb_forall in Hp. assert (E : list_sum (map (wi h f) p) = 0).
  { induction p as [|a p IHp]; simpl; [reflexivity|]. rewrite IHp by (intros b Hb; apply Hp; right; exact Hb).
    specialize (Hp a (or_introl eq_refl)). destruct a; simpl in *; auto. discriminate. }
  rewrite E. reflexivity.
Qed.

Lemma rinv_init : forall cbs ts, Forall (fun p => forallb user_act p = true) ts -> RInv cbs (r_init cbs, ts).
Proof.
  intros cbs ts U. destruct (build_spec cbs) as [W V]. constructor; simpl.
  - exact W.
  - eapply Forall_impl; [|exact U]. intros p Hp. apply user_no_iter. exact Hp.
  - intros f. unfold ran_count. simpl. rewrite V, tsum_user by exact U. lia.
  - discriminate.
Qed.

(* ---------- somebody shuts the session down (any shape of popOnClose) ---------- *)
Definition pop_inv (x : rsys) : Prop := r_popped (fst x) = true \/ 0 < tsum wpop (snd x).

Lemma pop_inv_step : forall v regs x tid, pop_inv x -> pop_inv (rstep v regs x tid).
Proof.
  intros v regs [s ts] tid I. destruct (rstep_cases v regs (s, ts) tid) as [E|[a [rest [Hn E]]]]; rewrite E; [exact I|].
  clear E. simpl in Hn. unfold pop_inv in *. simpl in *. destruct I as [Hp|Hp].
  - left. destruct a; simpl; auto. destruct (r_on s) as [[? ?]|]; reflexivity.
  - destruct a as [g| |a i]; simpl.
    + right. pose proof (tsum_upd wpop ts tid _ rest Hn) as T. unfold lsum in T. simpl in T. lia.
    + left. destruct (r_on s) as [[? ?]|]; reflexivity.
    + right. pose proof (tsum_upd wpop ts tid _ (map RAdd (regs (nth i (arr (r_heap s) a) 0)) ++ rest) Hn) as T.
      rewrite lsum_app, lsum_adds in T by reflexivity. unfold lsum in T. simpl in T. lia.
Qed.

Lemma pop_inv_exec : forall v regs sched x, pop_inv x -> pop_inv (rexec v regs x sched).
Proof. intros v regs sched. induction sched as [|t sched IH]; intros x I; simpl; auto using pop_inv_step. Qed.

Lemma tsum_pop_pos : forall ts, Exists (fun p => existsb is_pop p = true) ts -> 0 < tsum wpop ts.
Proof.
  intros ts H. unfold tsum. induction H as [p ts Hp|p ts _ IH]; simpl; [|lia].
  assert (0 < list_sum (map wpop p)).
  { induction p as [|a p IHp]; simpl in *; [discriminate|]. destruct a; simpl in *; try lia; apply IHp; exact Hp. }
  lia.
Qed.

Theorem callbacks_registered_before_close_run_once : forall regs cbs ts sched,
  Forall (fun p => forallb user_act p = true) ts ->
  let x := rexec PopNil regs (r_init cbs, ts) sched in
  (* at every moment nothing has run more often than it was registered *)
  (forall f, ran_count (fst x) f <= count_occ Nat.eq_dec cbs f + count_occ Nat.eq_dec (r_added (fst x)) f) /\
  (* all threads have returned and one of them shut the session down: what was registered before and not again *)
  (rall_done (snd x) -> Exists (fun p => existsb is_pop p = true) ts ->
   forall f, ~ In f (r_added (fst x)) -> ran_count (fst x) f = count_occ Nat.eq_dec cbs f).
Proof.
  intros regs cbs ts sched U x. pose proof (rinv_exec cbs regs sched _ (rinv_init cbs ts U)) as I. fold x in I.
  split.
  - intros f. pose proof (ri_count cbs x I f). lia.
  - intros Hd Hp f Hf.
    assert (P : pop_inv x). { unfold x. apply pop_inv_exec. right. apply tsum_pop_pos. exact Hp. }
    destruct P as [P|P]; [|rewrite tsum_done in P by exact Hd; lia].
    pose proof (ri_count cbs x I f) as C. rewrite tsum_done in C by exact Hd.
    assert (V : count_occ Nat.eq_dec (view (r_heap (fst x)) (r_on (fst x))) f = 0).
    { apply count_occ_not_In. intro Hin. apply Hf. apply (ri_view cbs x I P). exact Hin. }
    assert (A : count_occ Nat.eq_dec (r_added (fst x)) f = 0) by (apply count_occ_not_In; exact Hf).
    lia.
Qed.

(* ---------- which callbacks can be registered during a run (any shape) ---------- *)
Section Sources.
  Variable regs : nat -> list nat.
  Variable ts0 : list (list ract).
  Definition src (f : nat) : Prop := (exists p, In p ts0 /\ In (RAdd f) p) \/ exists g, In f (regs g).
  Definition src_act (a : ract) : Prop := match a with RAdd f => src f | _ => True end.
  Definition src_inv (x : rsys) : Prop :=
    (forall f, In f (r_added (fst x)) -> src f) /\ Forall (Forall src_act) (snd x).

  Lemma src_inv_step : forall v x tid, src_inv x -> src_inv (rstep v regs x tid).
  Proof.
    intros v [s ts] tid I. destruct (rstep_cases v regs (s, ts) tid) as [E|[a [rest [Hn E]]]]; rewrite E; [exact I|].
    clear E. simpl in Hn. destruct I as [IA IT]. simpl in *.
    assert (Hthr : Forall src_act (a :: rest)) by (eapply r_Forall_nth; eauto).
    assert (Hrest := Forall_tail _ _ _ Hthr).
    assert (Ha : src_act a) by (inversion Hthr; assumption).
    split; simpl.
    - destruct a as [g| |a i]; simpl.
      + intros f [<-|Hin]; [exact Ha|apply IA; exact Hin].
      + destruct (r_on s) as [[? ?]|]; exact IA.
      + exact IA.
    - apply r_Forall_upd; [exact IT|]. apply Forall_app. split; [|exact Hrest].
      destruct a as [g| |a i]; simpl.
      + constructor.
      + destruct (r_on s) as [[? ?]|]; simpl; [|constructor].
        rewrite Forall_forall. intros act Hact. apply in_map_iff in Hact. destruct Hact as [j [<- _]]. exact I.
      + rewrite Forall_forall. intros act Hact. apply in_map_iff in Hact. destruct Hact as [f [<- Hf]].
        right. eexists. exact Hf.
  Qed.

  Theorem added_sources : forall v cbs sched f,
    In f (r_added (fst (rexec v regs (r_init cbs, ts0) sched))) -> src f.
  Proof.
    intros v cbs sched.
    assert (G : forall x, src_inv x -> src_inv (rexec v regs x sched)).
    { induction sched as [|t sched IH]; intros x I; simpl; auto using src_inv_step. }
    intros f. apply (G (r_init cbs, ts0)). split; simpl; [intros ? []|].
    rewrite Forall_forall. intros p Hp. rewrite Forall_forall. intros a Ha.
    destruct a; simpl; auto. left. exists p. split; assumption.
  Qed.
End Sources.

(* ================= the same with `s.onClose = s.onClose[:0]` ================= *)
(* callbacks 0 and 1 registered; callback 0, when it runs, registers 2 and 3; one Close + shutdown *)
Theorem pop_trunc_nested_registration_loses_callback :
  let regs := fun f => if Nat.eqb f 0 then [2; 3] else [] in
  let x := rexec PopTrunc regs (r_init [0; 1], [[RPop]]) (repeat 0 6) in
  rall_done (snd x) /\ ~ In 1 (r_added (fst x)) /\
  ran_count (fst x) 0 = 1 /\ ran_count (fst x) 1 = 0 /\ ran_count (fst x) 3 = 1 /\
  view (r_heap (fst x)) (r_on (fst x)) = [2; 3].
Proof.
  cbv zeta. split; [vm_compute; repeat constructor|]. split; [vm_compute; intuition discriminate|].
  vm_compute. auto.
Qed.

(* callbacks 0..3 registered; while callback 0 runs another goroutine registers 10..13 *)
Theorem pop_trunc_concurrent_registration_loses_callbacks :
  let regs := fun _ : nat => @nil nat in
  let x := rexec PopTrunc regs (r_init [0; 1; 2; 3], [[RPop]; [RAdd 10; RAdd 11; RAdd 12; RAdd 13]])
                 [0; 0; 1; 1; 1; 1; 0; 0; 0] in
  rall_done (snd x) /\
  ran_count (fst x) 0 = 1 /\ ran_count (fst x) 1 = 0 /\ ran_count (fst x) 2 = 0 /\ ran_count (fst x) 3 = 0 /\
  ran_count (fst x) 11 = 1 /\ view (r_heap (fst x)) (r_on (fst x)) = [10; 11; 12; 13].
Proof.
  cbv zeta. split; [vm_compute; repeat constructor|]. vm_compute. auto 10.
Qed.

(* the same two stories with the source's `nil`: everybody runs once *)
Example pop_nil_nested_registration :
  let regs := fun f => if Nat.eqb f 0 then [2; 3] else [] in
  let x := rexec PopNil regs (r_init [0; 1], [[RPop]]) (repeat 0 6) in
  rall_done (snd x) /\ ran_count (fst x) 0 = 1 /\ ran_count (fst x) 1 = 1 /\ ran_count (fst x) 3 = 0.
Proof. cbv zeta. split; [vm_compute; repeat constructor|]. vm_compute. auto. Qed.
