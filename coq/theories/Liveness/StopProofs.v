(* C09 -- proofs about stopping a datagram server (Stop.v).

   H. For ARBITRARY thread programs over the actions of Stop.v in which no
      callback is run before it is popped and none is registered meanwhile, for
      both shapes of shutdown, under EVERY schedule, at every moment: no
      on-close callback of any peer has run twice (stop_callbacks_at_most_once).

   I. With the library's shutdown, for arbitrary programs in which every peer a
      thread admits is followed, in that thread, by a closeSessions, and every
      pop by the completion of that peer's done signal (ok_prog; the library's
      Stop, Serve exit and sweeps are of that shape: server_threads_ok), for
      every initial peer table, any number of concurrent Stop calls, every
      schedule: when all threads have returned the table is empty and for every
      peer that was in the table or was admitted meanwhile every registered
      callback has run EXACTLY once and Done is completed
      (stop_runs_every_callback_once, server_stop_clean).

   J. With the check `if s.doneCtx.Err() != nil { return }` in front of shutdown
      (ShutGuarded) there is a schedule of one Stop call and the Serve exit --
      Stop takes the table, Serve finishes and cancels the server's done context,
      Stop goes on -- after which every thread has returned, every peer's Done is
      completed and NO callback has run (shutdown_guard_on_done_refuted). *)
From Coq Require Import List Bool Arith Lia.
From GoCoap Require Import Liveness.Close Liveness.Stop Liveness.StallProofs Liveness.TableProofs.
Import ListNotations.
Local Notation length := List.length (only parsing).
Local Open Scope list_scope.

(* ================= counting ================= *)
Lemma scnt_app : forall w p q, scnt w (p ++ q) = scnt w p + scnt w q.
Proof. intros w p q. unfold scnt. rewrite map_app, list_sum_app. reflexivity. Qed.

Lemma scnt_cons : forall w a p, scnt w (a :: p) = w a + scnt w p.
Proof. reflexivity. Qed.

Lemma scnt_ts_upd : forall w ts n p p',
  nth_error ts n = Some p -> scnt_ts w (upd n p' ts) + scnt w p = scnt_ts w ts + scnt w p'.
Proof. intros w ts n p p' H. unfold scnt_ts. apply sum_upd. exact H. Qed.

Lemma scnt_ts_done : forall w ts, sall_done ts -> scnt_ts w ts = 0.
Proof.
  intros w ts H. induction H as [|p ts Hp _ IH]; [reflexivity|].
  subst p. unfold scnt_ts in *. simpl. exact IH.
Qed.

Lemma scnt_ts_ge : forall w ts n p, nth_error ts n = Some p -> scnt w p <= scnt_ts w ts.
Proof.
  intros w. induction ts as [|q ts IH]; intros n p H; destruct n; simpl in *; try discriminate.
  - injection H as ->. unfold scnt_ts. simpl. lia.
  - specialize (IH _ _ H). unfold scnt_ts in *. simpl. lia.
Qed.

Lemma b2n_refl : forall p, b2n (Nat.eqb p p) = 1.
Proof. intros p. rewrite Nat.eqb_refl. reflexivity. Qed.

Lemma count_occ_cons_b2n : forall (l : list nat) q p,
  count_occ Nat.eq_dec (q :: l) p = b2n (Nat.eqb p q) + count_occ Nat.eq_dec l p.
Proof.
  intros l q p. simpl. destruct (Nat.eq_dec q p); destruct (Nat.eqb_spec p q); subst; simpl; try congruence; lia.
Qed.

Lemma flat_map_cons : forall {A B} (f : A -> list B) a l, flat_map f (a :: l) = f a ++ flat_map f l.
Proof. reflexivity. Qed.

(* what closeSessions puts in front of a thread *)
Lemma take_pop : forall p tbl, scnt (ws_pop p) (flat_map (close_peer ShutLib) tbl) = count_occ Nat.eq_dec tbl p.
Proof.
  intros p. induction tbl as [|q tbl IH]; [reflexivity|].
  rewrite count_occ_cons_b2n. rewrite flat_map_cons, scnt_app, IH. unfold scnt. simpl. lia.
Qed.
Lemma take_done : forall p tbl, scnt (ws_done p) (flat_map (close_peer ShutLib) tbl) = count_occ Nat.eq_dec tbl p.
Proof.
  intros p. induction tbl as [|q tbl IH]; [reflexivity|].
  rewrite count_occ_cons_b2n. rewrite flat_map_cons, scnt_app, IH. unfold scnt. simpl. lia.
Qed.
Definition squiet (w : sact -> nat) : Prop :=
  forall q, w (SP q ACancel) = 0 /\ w (SP q APop) = 0 /\ w (SP q ADone) = 0 /\ w (SGuard q) = 0.
Lemma take_quiet : forall v w tbl, squiet w -> scnt w (flat_map (close_peer v) tbl) = 0.
Proof.
  intros v w tbl Q. induction tbl as [|q tbl IH]; [reflexivity|].
  rewrite flat_map_cons, scnt_app, IH. destruct (Q q) as [A [B [C D]]].
  destruct v; unfold scnt; simpl; rewrite ?A, ?B, ?C, ?D; reflexivity.
Qed.
Lemma closefn_quiet : forall v w q, squiet w -> scnt w (closefn_of v q) = 0.
Proof.
  intros v w q Q. destruct (Q q) as [A [B [C D]]].
  destruct v; unfold scnt; simpl; rewrite ?A, ?B, ?C, ?D; reflexivity.
Qed.

Lemma squiet_run : forall p f, squiet (ws_run p f). Proof. intros p f q. repeat split. Qed.
Lemma squiet_new : forall p, squiet (ws_new p). Proof. intros p q. repeat split. Qed.
Lemma squiet_take : squiet ws_take. Proof. intros q. repeat split. Qed.

(* the callbacks a pop puts in front of a thread *)
Lemma runs_run : forall p f q l,
  scnt (ws_run p f) (map (SP q) (map ARun l)) = if Nat.eqb p q then count_occ Nat.eq_dec l f else 0.
Proof.
  intros p f q. induction l as [|g l IH]; [destruct (Nat.eqb p q); reflexivity|].
  simpl map. rewrite scnt_cons, IH. simpl ws_run.
  destruct (Nat.eqb p q); simpl; [|reflexivity].
  destruct (Nat.eqb_spec f g); destruct (Nat.eq_dec g f); subst; simpl; try congruence; lia.
Qed.
Lemma runs_other : forall w q l, (forall g, w (SP q (ARun g)) = 0) -> scnt w (map (SP q) (map ARun l)) = 0.
Proof.
  intros w q l H. induction l as [|g l IH]; [reflexivity|]. simpl map. rewrite scnt_cons, H, IH. reflexivity.
Qed.

(* ================= H. at most once, for arbitrary programs and both shapes ================= *)
Record InvA (cbs : nat -> list nat) (x : ssys) : Prop := mkInvA {
  ia_noadd : Forall (fun p => forallb no_add p = true) (snd x);
  ia_cons : forall p f, count_occ Nat.eq_dec (c_on_close (s_peer (fst x) p)) f + scnt_ts (ws_run p f) (snd x) +
                       count_occ Nat.eq_dec (c_ran (s_peer (fst x) p)) f = count_occ Nat.eq_dec (cbs p) f }.

Lemma no_add_app : forall p q, forallb no_add p = true -> forallb no_add q = true -> forallb no_add (p ++ q) = true.
Proof. intros p q Hp Hq. rewrite forallb_app, Hp, Hq. reflexivity. Qed.
Lemma no_add_take : forall v tbl, forallb no_add (flat_map (close_peer v) tbl) = true.
Proof. intros v. induction tbl as [|q tbl IH]; [reflexivity|]. rewrite flat_map_cons. apply no_add_app; [destruct v; reflexivity|exact IH]. Qed.
Lemma no_add_runs : forall q l, forallb no_add (map (SP q) (map ARun l)) = true.
Proof. intros q. induction l as [|g l IH]; [reflexivity|]. simpl. exact IH. Qed.

Lemma set_peer_same : forall f p c, set_peer f p c p = c.
Proof. intros. unfold set_peer. rewrite Nat.eqb_refl. reflexivity. Qed.
Lemma set_peer_other : forall f p q c, q <> p -> set_peer f p c q = f q.
Proof. intros f p q c H. unfold set_peer. destruct (Nat.eqb_spec q p); [contradiction|reflexivity]. Qed.

Lemma inva_step : forall v cbs x tid, InvA cbs x -> InvA cbs (sstep v x tid).
Proof.
  intros v cbs [s ts] tid I. unfold sstep. simpl.
  destruct (nth_error ts tid) as [[|a rest]|] eqn:Hn; try exact I.
  destruct I as [Hna Hc]. simpl in *.
  pose proof (Forall_nth_error _ _ _ _ Hna Hn) as Hn0. simpl in Hn0. apply andb_true_iff in Hn0. destruct Hn0 as [Ha0 Hr0].
  assert (U : forall w pre, scnt_ts w (upd tid (pre ++ rest) ts) + w a + scnt w rest = scnt_ts w ts + scnt w pre + scnt w rest).
  { intros w pre. pose proof (scnt_ts_upd w ts tid (a :: rest) (pre ++ rest) Hn) as H.
    rewrite scnt_app, scnt_cons in H. lia. }
  destruct a as [| |q| |q|q|q a']; simpl.
  - (* SCancel *)
    constructor; simpl; [apply Forall_upd; assumption|].
    intros p f. pose proof (U (ws_run p f) []) as U1. specialize (Hc p f). unfold scnt in U1. simpl in *. lia.
  - (* STake *)
    constructor; simpl; [apply Forall_upd; [assumption|apply no_add_app; [apply no_add_take|assumption]]|].
    intros p f. pose proof (U (ws_run p f) (flat_map (close_peer v) (s_table s))) as U1.
    rewrite (take_quiet v _ _ (squiet_run p f)) in U1. specialize (Hc p f). simpl in *. lia.
  - (* SNew *)
    constructor; simpl; [apply Forall_upd; assumption|].
    intros p f. pose proof (U (ws_run p f) []) as U1. specialize (Hc p f). unfold scnt in U1. simpl in *. lia.
  - (* SDoneCancel *)
    constructor; simpl; [apply Forall_upd; assumption|].
    intros p f. pose proof (U (ws_run p f) []) as U1. specialize (Hc p f). unfold scnt in U1. simpl in *. lia.
  - (* SCloseFn *)
    constructor; simpl; [apply Forall_upd; [assumption|apply no_add_app; [destruct v; reflexivity|assumption]]|].
    intros p f. pose proof (U (ws_run p f) (closefn_of v q)) as U1.
    rewrite (closefn_quiet v _ q (squiet_run p f)) in U1. specialize (Hc p f). simpl in *. lia.
  - (* SGuard *)
    destruct (peer_done s q); simpl.
    + constructor; simpl; [apply Forall_upd; assumption|].
      intros p f. pose proof (U (ws_run p f) []) as U1. specialize (Hc p f). unfold scnt in U1. simpl in *. lia.
    + constructor; simpl; [apply Forall_upd; [assumption|simpl; assumption]|].
      intros p f. pose proof (U (ws_run p f) [SP q APop; SP q ADone]) as U1. specialize (Hc p f).
      unfold scnt in U1. simpl in *. lia.
  - (* SP q a' *)
    destruct a' as [| | |g| |g]; simpl.
    + (* ACancel *)
      constructor; simpl; [apply Forall_upd; assumption|].
      intros p f. pose proof (U (ws_run p f) []) as U1. specialize (Hc p f). unfold scnt in U1. simpl in *.
      unfold set_peer. destruct (Nat.eqb p q) eqn:E; [apply Nat.eqb_eq in E; subst p|]; simpl; lia.
    + (* ASockClose *)
      destruct (c_sock_closed (s_peer s q)) eqn:Hsc; simpl.
      * constructor; simpl; [apply Forall_upd; assumption|].
        intros p f. pose proof (U (ws_run p f) []) as U1. specialize (Hc p f). unfold scnt in U1. simpl in *.
        unfold set_peer. destruct (Nat.eqb p q) eqn:E; [apply Nat.eqb_eq in E; subst p|]; simpl; lia.
      * constructor; simpl; [apply Forall_upd; assumption|].
        intros p f. pose proof (U (ws_run p f) []) as U1. specialize (Hc p f). unfold scnt in U1. simpl in *.
        unfold set_peer. destruct (Nat.eqb p q) eqn:E; [apply Nat.eqb_eq in E; subst p|]; simpl; lia.
    + (* APop *)
      constructor; simpl; [apply Forall_upd; [assumption|apply no_add_app; [apply no_add_runs|assumption]]|].
      intros p f. pose proof (U (ws_run p f) (map (SP q) (map ARun (c_on_close (s_peer s q))))) as U1.
      rewrite runs_run in U1. specialize (Hc p f). simpl in *.
      unfold set_peer. destruct (Nat.eqb p q) eqn:E; [apply Nat.eqb_eq in E; subst p|]; simpl; lia.
    + (* ARun g *)
      constructor; simpl; [apply Forall_upd; assumption|].
      intros p f. pose proof (U (ws_run p f) []) as U1. specialize (Hc p f). unfold scnt in U1. simpl in *.
      unfold set_peer. destruct (Nat.eqb p q) eqn:E; [apply Nat.eqb_eq in E; subst p|]; simpl in *.
      * destruct (Nat.eqb_spec f g); destruct (Nat.eq_dec g f); subst; simpl in *; try congruence; lia.
      * lia.
    + (* ADone *)
      destruct (c_done (s_peer s q)) eqn:Hd; simpl.
      * constructor; simpl; [apply Forall_upd; assumption|].
        intros p f. pose proof (U (ws_run p f) []) as U1. specialize (Hc p f). unfold scnt in U1. simpl in *.
        unfold set_peer. destruct (Nat.eqb p q) eqn:E; [apply Nat.eqb_eq in E; subst p|]; simpl; lia.
      * constructor; simpl; [apply Forall_upd; assumption|].
        intros p f. pose proof (U (ws_run p f) []) as U1. specialize (Hc p f). unfold scnt in U1. simpl in *.
        unfold set_peer. destruct (Nat.eqb p q) eqn:E; [apply Nat.eqb_eq in E; subst p|]; simpl; lia.
    + (* AAdd: excluded *)
      simpl in Ha0. discriminate.
Qed.

Lemma inva_exec : forall v cbs sched x, InvA cbs x -> InvA cbs (sexec v x sched).
Proof. intros v cbs. induction sched as [|t sched IH]; intros x I; simpl; [exact I|]. apply IH, inva_step, I. Qed.

Lemma top_no_add : forall p, forallb top_act p = true -> forallb no_add p = true.
Proof.
  induction p as [|a p IH]; [reflexivity|]. simpl. intros H. apply andb_true_iff in H. destruct H as [Ha Hp].
  rewrite (IH Hp), andb_true_r. destruct a as [| | | | | |q a']; try reflexivity. destruct a'; try reflexivity; discriminate.
Qed.
Lemma top_no_run : forall p q f, forallb top_act p = true -> scnt (ws_run q f) p = 0.
Proof.
  induction p as [|a p IH]; [reflexivity|]. simpl. intros q f H. apply andb_true_iff in H. destruct H as [Ha Hp].
  rewrite scnt_cons, (IH q f Hp). destruct a as [| | | | | |r a']; try reflexivity. destruct a'; try reflexivity; discriminate.
Qed.
Lemma top_no_run_ts : forall ts q f, Forall (fun p => forallb top_act p = true) ts -> scnt_ts (ws_run q f) ts = 0.
Proof.
  intros ts q f H. induction H as [|p ts Hp _ IH]; [reflexivity|].
  unfold scnt_ts in *. simpl. rewrite (top_no_run p q f Hp), IH. reflexivity.
Qed.

Lemma inva_init : forall tbl cbs ts, Forall (fun p => forallb top_act p = true) ts -> InvA cbs (s_init tbl cbs, ts).
Proof.
  intros tbl cbs ts H. constructor; simpl.
  - eapply Forall_impl; [|exact H]. intros p Hp. apply top_no_add, Hp.
  - intros p f. rewrite (top_no_run_ts ts p f H). lia.
Qed.

Theorem stop_callbacks_at_most_once : forall v tbl cbs ts sched,
  Forall (fun p => forallb top_act p = true) ts ->
  (forall p, NoDup (cbs p)) ->
  let x := sexec v (s_init tbl cbs, ts) sched in
  forall p f, count_occ Nat.eq_dec (c_ran (s_peer (fst x) p)) f <= 1.
Proof.
  intros v tbl cbs ts sched Ht Hnd x p f.
  pose proof (inva_exec v cbs sched _ (inva_init tbl cbs ts Ht)) as I. fold x in I.
  pose proof (ia_cons _ _ I p f) as C.
  pose proof (proj1 (NoDup_count_occ Nat.eq_dec (cbs p)) (Hnd p) f). lia.
Qed.

(* ================= I. exactly once with the library's shutdown ================= *)
Local Opaque Nat.leb.
Lemma ok_split : forall p, ok_prog p = true <->
  new_ok p = true /\ pop_ok p = true /\ forallb no_add p = true /\ forallb no_guard p = true.
Proof. intros p. unfold ok_prog. rewrite !andb_true_iff. tauto. Qed.

Lemma new_ok_app : forall p q, new_ok p = true -> new_ok q = true -> new_ok (p ++ q) = true.
Proof.
  induction p as [|a p IH]; intros q Hp Hq; [exact Hq|]. simpl in *.
  destruct a; auto. apply andb_true_iff in Hp. destruct Hp as [H1 H2]. apply andb_true_iff. split; [|auto].
  apply Nat.leb_le in H1. apply Nat.leb_le. rewrite scnt_app. lia.
Qed.
Lemma pop_ok_app : forall p q, pop_ok p = true -> pop_ok q = true -> pop_ok (p ++ q) = true.
Proof.
  induction p as [|a p IH]; intros q Hp Hq; [exact Hq|]. simpl in *.
  destruct a as [| | | | | |r a']; auto. destruct a'; auto.
  apply andb_true_iff in Hp. destruct Hp as [H1 H2]. apply andb_true_iff. split; [|auto].
  apply Nat.leb_le in H1. apply Nat.leb_le. rewrite scnt_app. lia.
Qed.
Lemma ok_app : forall p q, ok_prog p = true -> ok_prog q = true -> ok_prog (p ++ q) = true.
Proof.
  intros p q Hp Hq. apply ok_split in Hp. apply ok_split in Hq. apply ok_split.
  destruct Hp as [A [B [C D]]]. destruct Hq as [A' [B' [C' D']]].
  repeat split; [apply new_ok_app|apply pop_ok_app|rewrite forallb_app, C, C'|rewrite forallb_app, D, D']; auto.
Qed.
Lemma ok_tail : forall a r, ok_prog (a :: r) = true -> ok_prog r = true.
Proof.
  intros a r H. apply ok_split in H. apply ok_split. destruct H as [A [B [C D]]]. simpl in *.
  apply andb_true_iff in C. apply andb_true_iff in D. destruct C as [_ C]. destruct D as [_ D].
  repeat split; auto.
  - destruct a; auto. apply andb_true_iff in A. tauto.
  - destruct a as [| | | | | |q a']; auto. destruct a'; auto. apply andb_true_iff in B. tauto.
Qed.
Lemma ok_head : forall a r, ok_prog (a :: r) = true -> no_add a = true /\ no_guard a = true.
Proof.
  intros a r H. apply ok_split in H. destruct H as [_ [_ [C D]]]. simpl in *.
  apply andb_true_iff in C. apply andb_true_iff in D. tauto.
Qed.
Lemma ok_new : forall q r, ok_prog (SNew q :: r) = true -> 1 <= scnt ws_take r.
Proof.
  intros q r H. apply ok_split in H. destruct H as [A _]. simpl in A. apply andb_true_iff in A.
  destruct A as [A _]. apply Nat.leb_le in A. exact A.
Qed.
Lemma ok_pop : forall q r, ok_prog (SP q APop :: r) = true -> 1 <= scnt (ws_done q) r.
Proof.
  intros q r H. apply ok_split in H. destruct H as [_ [B _]]. simpl in B. apply andb_true_iff in B.
  destruct B as [B _]. apply Nat.leb_le in B. exact B.
Qed.

Lemma ok_close_peer : forall q, ok_prog (close_peer ShutLib q) = true.
Proof. intros q. unfold ok_prog. simpl. unfold scnt. simpl. rewrite Nat.eqb_refl. reflexivity. Qed.
Lemma ok_closefn : forall q, ok_prog (closefn_of ShutLib q) = true.
Proof. intros q. unfold ok_prog. simpl. unfold scnt. simpl. rewrite Nat.eqb_refl. reflexivity. Qed.
Lemma ok_take : forall tbl, ok_prog (flat_map (close_peer ShutLib) tbl) = true.
Proof.
  induction tbl as [|q tbl IH]; [reflexivity|]. rewrite flat_map_cons. apply ok_app; [apply ok_close_peer|exact IH].
Qed.
Lemma ok_runs : forall q l, ok_prog (map (SP q) (map ARun l)) = true.
Proof. intros q. induction l as [|g l IH]; [reflexivity|]. unfold ok_prog in *. simpl. exact IH. Qed.

Definition quiet_act (a : action) : bool := match a with ACancel | ASockClose | ARun _ => true | _ => false end.
Lemma quiet_act_spec : forall a c, quiet_act a = true ->
  snd (act DoneCtx a c) = [] /\
  (c_popped (fst (act DoneCtx a c)) = c_popped c /\ c_done (fst (act DoneCtx a c)) = c_done c /\
   c_on_close (fst (act DoneCtx a c)) = c_on_close c).
Proof.
  intros a c H. destruct a; try discriminate; simpl; auto.
  destruct (c_sock_closed c); simpl; auto.
Qed.
Lemma same3_set : forall (f : nat -> cst) q c,
  (c_popped c = c_popped (f q) /\ c_done c = c_done (f q) /\ c_on_close c = c_on_close (f q)) ->
  forall p, c_popped (set_peer f q c p) = c_popped (f p) /\ c_done (set_peer f q c p) = c_done (f p) /\
            c_on_close (set_peer f q c p) = c_on_close (f p).
Proof.
  intros f q c H p. unfold set_peer. destruct (Nat.eqb p q) eqn:E; [apply Nat.eqb_eq in E; subst p; exact H|auto].
Qed.

Record InvB (tr : nat -> Prop) (x : ssys) : Prop := mkInvB {
  ib_ok : Forall (fun p => ok_prog p = true) (snd x);
  ib_live : forall p, tr p ->
           1 <= count_occ Nat.eq_dec (s_table (fst x)) p + scnt_ts (ws_pop p) (snd x) +
                b2n (c_popped (s_peer (fst x) p)) + scnt_ts (ws_new p) (snd x);
  ib_take : s_table (fst x) = [] \/ 1 <= scnt_ts ws_take (snd x);
  ib_done : forall p, c_popped (s_peer (fst x) p) = true ->
           c_done (s_peer (fst x) p) = true \/ 1 <= scnt_ts (ws_done p) (snd x);
  ib_empty : forall p, c_popped (s_peer (fst x) p) = true -> c_on_close (s_peer (fst x) p) = [] }.

Lemma closefn_pop : forall p q, scnt (ws_pop p) (closefn_of ShutLib q) = b2n (Nat.eqb p q).
Proof. intros. unfold scnt. simpl. lia. Qed.
Lemma closefn_done : forall p q, scnt (ws_done p) (closefn_of ShutLib q) = b2n (Nat.eqb p q).
Proof. intros. unfold scnt. simpl. lia. Qed.

Ltac split_pq p q :=
  destruct (Nat.eqb p q) eqn:E; [apply Nat.eqb_eq in E; subst p; rewrite ?Nat.eqb_refl in *|rewrite ?E in *].

Lemma invb_step : forall tr x tid, InvB tr x -> InvB tr (sstep ShutLib x tid).
Proof.
  intros tr [s ts] tid I. unfold sstep. simpl.
  destruct (nth_error ts tid) as [[|a rest]|] eqn:Hn; try exact I.
  destruct I as [Hok Hlive Htake Hdone Hempty]. simpl in *.
  pose proof (Forall_nth_error _ _ _ _ Hok Hn) as Hp0. simpl in Hp0.
  pose proof (ok_tail _ _ Hp0) as Hrest. destruct (ok_head _ _ Hp0) as [Hna Hng].
  assert (U : forall w pre, scnt_ts w (upd tid (pre ++ rest) ts) + w a + scnt w rest = scnt_ts w ts + scnt w pre + scnt w rest).
  { intros w pre. pose proof (scnt_ts_upd w ts tid (a :: rest) (pre ++ rest) Hn) as H.
    rewrite scnt_app, scnt_cons in H. lia. }
  assert (G : forall w, w a + scnt w rest <= scnt_ts w ts).
  { intros w. pose proof (scnt_ts_ge w ts tid _ Hn) as H. rewrite scnt_cons in H. exact H. }
  destruct a as [| |q| |q|q|q a']; simpl.
  - (* SCancel *)
    constructor; simpl.
    + apply Forall_upd; assumption.
    + intros p Hp. pose proof (U (ws_pop p) []) as U1. pose proof (U (ws_new p) []) as U2.
      specialize (Hlive p Hp). unfold scnt in U1, U2. simpl in *. lia.
    + destruct Htake as [?|Ht]; [left; assumption|right]. pose proof (U ws_take []) as U1. unfold scnt in U1. simpl in *. lia.
    + intros p Hp. destruct (Hdone p Hp) as [?|Hd]; [left; assumption|right].
      pose proof (U (ws_done p) []) as U1. unfold scnt in U1. simpl in *. lia.
    + exact Hempty.
  - (* STake *)
    constructor; simpl.
    + apply Forall_upd; [assumption|apply ok_app; [apply ok_take|assumption]].
    + intros p Hp. pose proof (U (ws_pop p) (flat_map (close_peer ShutLib) (s_table s))) as U1.
      pose proof (U (ws_new p) (flat_map (close_peer ShutLib) (s_table s))) as U2.
      rewrite take_pop in U1. rewrite (take_quiet ShutLib _ _ (squiet_new p)) in U2.
      specialize (Hlive p Hp). simpl in *. lia.
    + left. reflexivity.
    + intros p Hp. destruct (Hdone p Hp) as [?|Hd]; [left; assumption|right].
      pose proof (U (ws_done p) (flat_map (close_peer ShutLib) (s_table s))) as U1. rewrite take_done in U1. simpl in *. lia.
    + exact Hempty.
  - (* SNew q *)
    constructor; simpl.
    + apply Forall_upd; assumption.
    + intros p Hp. pose proof (U (ws_pop p) []) as U1. pose proof (U (ws_new p) []) as U2.
      specialize (Hlive p Hp). unfold scnt in U1, U2. simpl in U1, U2.
      pose proof (count_occ_cons_b2n (s_table s) q p) as C. simpl in C. simpl. lia.
    + right. pose proof (U ws_take []) as U1. pose proof (G ws_take) as G1. pose proof (ok_new _ _ Hp0) as N.
      unfold scnt in U1. simpl in *. lia.
    + intros p Hp. destruct (Hdone p Hp) as [?|Hd]; [left; assumption|right].
      pose proof (U (ws_done p) []) as U1. unfold scnt in U1. simpl in *. lia.
    + exact Hempty.
  - (* SDoneCancel *)
    constructor; simpl.
    + apply Forall_upd; assumption.
    + intros p Hp. pose proof (U (ws_pop p) []) as U1. pose proof (U (ws_new p) []) as U2.
      specialize (Hlive p Hp). unfold scnt in U1, U2. simpl in *. lia.
    + destruct Htake as [?|Ht]; [left; assumption|right]. pose proof (U ws_take []) as U1. unfold scnt in U1. simpl in *. lia.
    + intros p Hp. destruct (Hdone p Hp) as [?|Hd]; [left; assumption|right].
      pose proof (U (ws_done p) []) as U1. unfold scnt in U1. simpl in *. lia.
    + exact Hempty.
  - (* SCloseFn q *)
    constructor; simpl.
    + apply Forall_upd; [assumption|]. change (ok_prog (closefn_of ShutLib q ++ rest) = true).
      apply ok_app; [apply ok_closefn|assumption].
    + intros p Hp. pose proof (U (ws_pop p) (closefn_of ShutLib q)) as U1.
      pose proof (U (ws_new p) (closefn_of ShutLib q)) as U2.
      rewrite closefn_pop in U1. rewrite (closefn_quiet ShutLib _ q (squiet_new p)) in U2.
      specialize (Hlive p Hp). simpl in *. lia.
    + destruct Htake as [?|Ht]; [left; assumption|right]. pose proof (U ws_take (closefn_of ShutLib q)) as U1.
      rewrite (closefn_quiet ShutLib _ q squiet_take) in U1. simpl in *. lia.
    + intros p Hp. destruct (Hdone p Hp) as [?|Hd]; [left; assumption|right].
      pose proof (U (ws_done p) (closefn_of ShutLib q)) as U1. rewrite closefn_done in U1. simpl in *. lia.
    + exact Hempty.
  - (* SGuard: excluded *)
    simpl in Hng. discriminate.
  - (* SP q a' *)
    destruct (quiet_act a') eqn:Hq.
    + (* ACancel, ASockClose, ARun: nothing the invariant looks at changes *)
      destruct (quiet_act_spec a' (s_peer s q) Hq) as [Q0 Q]. pose proof (same3_set (s_peer s) q _ Q) as S3.
      destruct (act DoneCtx a' (s_peer s q)) as [c' pre] eqn:Ha. simpl in Q0. subst pre. simpl in S3. simpl.
      constructor; simpl.
      * apply Forall_upd; assumption.
      * intros p Hp. pose proof (U (ws_pop p) []) as U1. pose proof (U (ws_new p) []) as U2.
        specialize (Hlive p Hp). destruct (S3 p) as [-> _]. unfold scnt in U1, U2.
        destruct a'; try discriminate; simpl in *; lia.
      * destruct Htake as [?|Ht]; [left; assumption|right]. pose proof (U ws_take []) as U1. unfold scnt in U1. simpl in *. lia.
      * intros p. destruct (S3 p) as [-> [-> _]]. intros Hp. destruct (Hdone p Hp) as [?|Hd]; [left; assumption|right].
        pose proof (U (ws_done p) []) as U1. unfold scnt in U1. destruct a'; try discriminate; simpl in *; lia.
      * intros p. destruct (S3 p) as [-> [_ ->]]. apply Hempty.
    + destruct a' as [| | |g| |g]; try discriminate.
      * (* APop *)
        simpl. constructor; simpl.
        -- apply Forall_upd; [assumption|apply ok_app; [apply ok_runs|assumption]].
        -- intros p Hp. pose proof (U (ws_pop p) (map (SP q) (map ARun (c_on_close (s_peer s q))))) as U1.
           pose proof (U (ws_new p) (map (SP q) (map ARun (c_on_close (s_peer s q))))) as U2.
           rewrite runs_other in U1 by reflexivity. rewrite runs_other in U2 by reflexivity.
           specialize (Hlive p Hp). simpl in U1, U2.
           unfold set_peer. split_pq p q; simpl in *; lia.
        -- destruct Htake as [?|Ht]; [left; assumption|right].
           pose proof (U ws_take (map (SP q) (map ARun (c_on_close (s_peer s q))))) as U1.
           rewrite runs_other in U1 by reflexivity. simpl in *. lia.
        -- intros p. pose proof (U (ws_done p) (map (SP q) (map ARun (c_on_close (s_peer s q))))) as U1.
           rewrite runs_other in U1 by reflexivity. simpl in U1.
           unfold set_peer. destruct (Nat.eqb p q) eqn:E; [apply Nat.eqb_eq in E; subst p|]; simpl; intros Hp.
           ++ destruct (c_done (s_peer s q)) eqn:Hd; [left; reflexivity|right].
              pose proof (ok_pop _ _ Hp0) as N. pose proof (G (ws_done q)) as G1. simpl in G1. lia.
           ++ destruct (Hdone p Hp) as [?|Hd]; [left; assumption|right]. lia.
        -- intros p. unfold set_peer. destruct (Nat.eqb p q) eqn:E; simpl; [reflexivity|apply Hempty].
      * (* ADone *)
        assert (D : forall c, c_done (fst (act DoneCtx ADone c)) = true /\
                              c_popped (fst (act DoneCtx ADone c)) = c_popped c /\
                              c_on_close (fst (act DoneCtx ADone c)) = c_on_close c /\ snd (act DoneCtx ADone c) = []).
        { intros c. simpl. destruct (c_done c) eqn:Hd; simpl; auto. }
        destruct (D (s_peer s q)) as [D1 [D2 [D3 D4]]].
        destruct (act DoneCtx ADone (s_peer s q)) as [c' pre] eqn:Ha. simpl in D1, D2, D3, D4. subst pre. simpl.
        constructor; simpl.
        -- apply Forall_upd; assumption.
        -- intros p Hp. pose proof (U (ws_pop p) []) as U1. pose proof (U (ws_new p) []) as U2.
           specialize (Hlive p Hp). unfold scnt in U1, U2. simpl in U1, U2.
           unfold set_peer. split_pq p q; [rewrite D2|]; simpl in *; lia.
        -- destruct Htake as [?|Ht]; [left; assumption|right]. pose proof (U ws_take []) as U1. unfold scnt in U1. simpl in *. lia.
        -- intros p. pose proof (U (ws_done p) []) as U1. unfold scnt in U1. simpl in U1.
           unfold set_peer. split_pq p q; [left; exact D1|]. intros Hp.
           destruct (Hdone p Hp) as [?|Hd]; [left; assumption|right]. simpl in *. lia.
        -- intros p. unfold set_peer. destruct (Nat.eqb p q) eqn:E; [apply Nat.eqb_eq in E; subst p; rewrite D2, D3|]; apply Hempty.
Qed.

Lemma invb_exec : forall tr sched x, InvB tr x -> InvB tr (sexec ShutLib x sched).
Proof. intros tr. induction sched as [|t sched IH]; intros x I; simpl; [exact I|]. apply IH, invb_step, I. Qed.

(* the peers the stop is about: in the table when it begins, or admitted by some thread meanwhile *)
Definition tracked (tbl : list nat) (ts : list (list sact)) (p : nat) : Prop :=
  1 <= count_occ Nat.eq_dec tbl p + scnt_ts (ws_new p) ts.

Lemma invb_init : forall tbl cbs ts,
  Forall (fun p => ok_prog p = true) ts -> (tbl = [] \/ 1 <= scnt_ts ws_take ts) ->
  InvB (tracked tbl ts) (s_init tbl cbs, ts).
Proof.
  intros tbl cbs ts Hok Ht. constructor; simpl; auto; try discriminate.
  intros p Hp. unfold tracked in Hp. lia.
Qed.

Theorem stop_runs_every_callback_once : forall tbl cbs ts sched,
  Forall (fun p => forallb top_act p = true) ts ->    (* callbacks are run only after being popped; none is added *)
  Forall (fun p => ok_prog p = true) ts ->            (* admitted peers are followed by a closeSessions, pops by the done signal *)
  (tbl = [] \/ 1 <= scnt_ts ws_take ts) ->            (* somebody calls closeSessions *)
  (forall p, NoDup (cbs p)) ->
  let x := sexec ShutLib (s_init tbl cbs, ts) sched in
  sall_done (snd x) ->
  s_table (fst x) = [] /\
  forall p, tracked tbl ts p ->
    (forall f, In f (cbs p) -> count_occ Nat.eq_dec (c_ran (s_peer (fst x) p)) f = 1) /\
    (forall f, ~ In f (cbs p) -> count_occ Nat.eq_dec (c_ran (s_peer (fst x) p)) f = 0) /\
    peer_done (fst x) p = true.
Proof.
  intros tbl cbs ts sched Htop Hok Ht Hnd x Hall.
  pose proof (inva_exec ShutLib cbs sched _ (inva_init tbl cbs ts Htop)) as IA. fold x in IA.
  pose proof (invb_exec _ sched _ (invb_init tbl cbs ts Hok Ht)) as IB. fold x in IB.
  destruct IB as [_ Hlive Htake Hdone Hempty]. split.
  - destruct Htake as [?|H]; [assumption|]. rewrite (scnt_ts_done ws_take _ Hall) in H. lia.
  - intros p Hp. specialize (Hlive p Hp).
    rewrite (scnt_ts_done (ws_pop p) _ Hall), (scnt_ts_done (ws_new p) _ Hall) in Hlive.
    assert (Ht0 : s_table (fst x) = []).
    { destruct Htake as [?|H]; [assumption|]. rewrite (scnt_ts_done ws_take _ Hall) in H. lia. }
    rewrite Ht0 in Hlive. simpl in Hlive.
    assert (Hpop : c_popped (s_peer (fst x) p) = true) by (destruct (c_popped (s_peer (fst x) p)); [reflexivity|simpl in Hlive; lia]).
    pose proof (Hempty p Hpop) as He.
    assert (C : forall f, count_occ Nat.eq_dec (c_ran (s_peer (fst x) p)) f = count_occ Nat.eq_dec (cbs p) f).
    { intros f. pose proof (ia_cons _ _ IA p f) as C. rewrite He, (scnt_ts_done (ws_run p f) _ Hall) in C. simpl in C. lia. }
    repeat split.
    + intros f Hf. rewrite C. pose proof (proj1 (NoDup_count_occ Nat.eq_dec (cbs p)) (Hnd p) f).
      assert (1 <= count_occ Nat.eq_dec (cbs p) f) by (apply count_occ_In; assumption). lia.
    + intros f Hf. rewrite C. apply count_occ_not_In. exact Hf.
    + unfold peer_done. destruct (Hdone p Hpop) as [->|H]; [reflexivity|].
      rewrite (scnt_ts_done (ws_done p) _ Hall) in H. lia.
Qed.

(* ---------- the library's threads ---------- *)
Lemma scnt_ts_app : forall w a b, scnt_ts w (a ++ b) = scnt_ts w a + scnt_ts w b.
Proof. intros w a b. unfold scnt_ts. rewrite map_app, list_sum_app. reflexivity. Qed.

Lemma serve_exit_take : forall news, scnt ws_take (serve_exit_prog news) = 1.
Proof.
  intros news. unfold serve_exit_prog. rewrite scnt_app.
  assert (Z : scnt ws_take (map SNew news) = 0) by (induction news as [|q l IH]; [reflexivity|rewrite <- IH; reflexivity]).
  rewrite Z. reflexivity.
Qed.
Lemma serve_exit_new : forall p news, scnt (ws_new p) (serve_exit_prog news) = count_occ Nat.eq_dec news p.
Proof.
  intros p news. unfold serve_exit_prog. rewrite scnt_app.
  assert (Z : scnt (ws_new p) (map SNew news) = count_occ Nat.eq_dec news p).
  { induction news as [|q l IH]; [reflexivity|]. rewrite count_occ_cons_b2n, <- IH. reflexivity. }
  rewrite Z. unfold scnt. simpl. lia.
Qed.
Lemma serve_exit_ok : forall news, ok_prog (serve_exit_prog news) = true /\ forallb top_act (serve_exit_prog news) = true.
Proof.
  intros news. split.
  - apply ok_split. unfold serve_exit_prog. repeat split.
    + induction news as [|q l IH]; [reflexivity|]. simpl. rewrite IH, andb_true_r. apply Nat.leb_le.
      pose proof (serve_exit_take l) as T. unfold serve_exit_prog in T. lia.
    + induction news as [|q l IH]; [reflexivity|]. simpl. exact IH.
    + induction news as [|q l IH]; [reflexivity|]. simpl. exact IH.
    + induction news as [|q l IH]; [reflexivity|]. simpl. exact IH.
  - unfold serve_exit_prog. induction news as [|q l IH]; [reflexivity|]. simpl. exact IH.
Qed.
Lemma sweep_ok : forall ps, ok_prog (sweep_prog ps) = true /\ forallb top_act (sweep_prog ps) = true.
Proof.
  intros ps. unfold sweep_prog. split.
  - apply ok_split. repeat split; induction ps as [|q l IH]; try reflexivity; simpl; exact IH.
  - induction ps as [|q l IH]; [reflexivity|]. simpl. exact IH.
Qed.

Lemma server_threads_ok : forall nstop news sweeps,
  Forall (fun p => ok_prog p = true) (server_threads nstop news sweeps) /\
  Forall (fun p => forallb top_act p = true) (server_threads nstop news sweeps) /\
  1 <= scnt_ts ws_take (server_threads nstop news sweeps) /\
  (forall p, count_occ Nat.eq_dec news p <= scnt_ts (ws_new p) (server_threads nstop news sweeps)).
Proof.
  intros nstop news sweeps. unfold server_threads. repeat split.
  - repeat (apply Forall_app; split).
    + apply Forall_forall. intros p Hp. apply repeat_spec in Hp. subst. reflexivity.
    + repeat constructor. apply serve_exit_ok.
    + apply Forall_forall. intros p Hp. apply in_map_iff in Hp. destruct Hp as [ps [<- _]]. apply sweep_ok.
  - repeat (apply Forall_app; split).
    + apply Forall_forall. intros p Hp. apply repeat_spec in Hp. subst. reflexivity.
    + repeat constructor. apply serve_exit_ok.
    + apply Forall_forall. intros p Hp. apply in_map_iff in Hp. destruct Hp as [ps [<- _]]. apply sweep_ok.
  - rewrite !scnt_ts_app. unfold scnt_ts at 2. simpl. rewrite serve_exit_take. lia.
  - intros p. rewrite !scnt_ts_app. unfold scnt_ts at 2. simpl. rewrite serve_exit_new. lia.
Qed.

(* any number of concurrent Stop calls, the exit path of Serve (admitting any peers before it ends), any sweeps
   of the periodic tick / datagram path, any peer table, any callbacks, EVERY schedule *)
Theorem server_stop_clean : forall nstop news sweeps tbl cbs sched,
  (forall p, NoDup (cbs p)) ->
  let x := sexec ShutLib (s_init tbl cbs, server_threads nstop news sweeps) sched in
  (forall p f, count_occ Nat.eq_dec (c_ran (s_peer (fst x) p)) f <= 1) /\
  (sall_done (snd x) ->
     s_table (fst x) = [] /\
     forall p, In p tbl \/ In p news ->
       (forall f, In f (cbs p) -> count_occ Nat.eq_dec (c_ran (s_peer (fst x) p)) f = 1) /\
       peer_done (fst x) p = true).
Proof.
  intros nstop news sweeps tbl cbs sched Hnd x.
  destruct (server_threads_ok nstop news sweeps) as [Hok [Htop [Htake Hnew]]]. split.
  - apply stop_callbacks_at_most_once; assumption.
  - intros Hall.
    destruct (stop_runs_every_callback_once tbl cbs _ sched Htop Hok (or_intror Htake) Hnd Hall) as [Ht Hp].
    split; [exact Ht|]. intros p Hin.
    assert (Tr : tracked tbl (server_threads nstop news sweeps) p).
    { unfold tracked. specialize (Hnew p). destruct Hin as [Hin|Hin].
      - assert (1 <= count_occ Nat.eq_dec tbl p) by (apply count_occ_In; assumption). lia.
      - assert (1 <= count_occ Nat.eq_dec news p) by (apply count_occ_In; assumption). lia. }
    destruct (Hp p Tr) as [A [_ C]]. split; assumption.
Qed.

(* ================= J. the guard in front of shutdown ================= *)
(* two peers, one callback each; one Stop call and the exit path of Serve.  Stop takes the table and shuts the
   first peer down as far as popping its callback; Serve takes the (now empty) table, cancels the server's done
   context and returns; Stop goes on: the first peer's callback runs, the second peer "is already shut down". *)
Theorem shutdown_guard_on_done_refuted :
  exists sched,
    let x := sexec ShutGuarded (s_init [0; 1] (fun _ => [7]), server_threads 1 [] []) sched in
    sall_done (snd x) /\ s_table (fst x) = [] /\
    peer_done (fst x) 0 = true /\ peer_done (fst x) 1 = true /\
    c_ran (s_peer (fst x) 0) = [7] /\
    c_ran (s_peer (fst x) 1) = [].          (* callback 7 of peer 1 never runs *)
Proof.
  exists ([0; 0] ++ [0; 0; 0; 0] ++ [1; 1] ++ [0; 0; 0; 0; 0]).
  vm_compute. repeat split; repeat constructor.
Qed.

(* the same schedule with the library's shutdown *)
Example shutdown_lib_same_schedule :
  let x := sexec ShutLib (s_init [0; 1] (fun _ => [7]), server_threads 1 [] [])
                 ([0; 0] ++ [0; 0; 0; 0] ++ [1; 1] ++ [0; 0; 0; 0; 0; 0; 0]) in
  sall_done (snd x) /\ c_ran (s_peer (fst x) 0) = [7] /\ c_ran (s_peer (fst x) 1) = [7].
Proof. vm_compute. repeat split; repeat constructor. Qed.
