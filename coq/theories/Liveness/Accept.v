(* C09 -- stopping a STREAM server (tcp/server/server.go; dtls/server/server.go has
   the same shape) while accepted connections are still being set up.
   Definitions only; proofs in AcceptProofs.v.

   Transcribed from tcp/server/server.go:

     New():    ctx, cancel := context.WithCancel(cfg.Ctx)        -- s.ctx is a child of the configured context
     Stop():   s.cancel(); l := s.popListener(); if l != nil { l.Close() }
     Serve(l): defer s.Stop(); defer wg.Wait(); defer connections.Close()
               for { rw, err := l.AcceptWithContext(s.ctx)
                     if !s.checkAcceptError(err) { return nil }   -- listener closed: s.Stop(); s.ctx done: return
                     wg.Add(1); go func(){ defer wg.Done(); s.serveConnection(connections, rw) }() }
     serveConnection(connections, rw):
               cc := s.createConn(coapNet.NewConn(rw), ...)       -- cfg.Ctx = <connection context parent>;
                                                                     NewSession writes the CSM with the connection
                                                                     context: over TLS this performs the handshake
               if s.cfg.OnNewConn != nil { s.cfg.OnNewConn(cc) }  -- application hook, takes as long as it takes
               connections.Store(cc); defer connections.Delete(cc)
               cc.Run()                                           -- read loop under the connection context;
                                                                     deferred: Close(); shutdown()
     connections.Close(): for _, cc := range copyConnections() { cc.Close() }

   The context of a connection is a child of [CtxServer] s.ctx (cancelled by Stop) -- the source -- or of
   [CtxParent] s.cfg.Ctx (the context the user configured: nobody cancels it when the server is stopped).

   Threads are lists of atomic actions; a schedule is a list of thread ids; an action that is not enabled parks its
   thread (the step is a no-op).  connections.Close() is ONE action (snapshot of the table + Close of every entry:
   the closes only set monotone flags, so taking them at the moment of the snapshot does not change which final
   states are reachable).  The first [n] threads of a system are the connection goroutines counted by the
   WaitGroup of Serve. *)
From Coq Require Import List Bool Arith.
From GoCoap Require Import Liveness.Close.
Import ListNotations.

Inductive ctxshape := CtxServer | CtxParent.

Inductive xact :=
| XCancel                (* s.cancel() *)
| XListenClose           (* popListener + l.Close() *)
| XWaitStop              (* the accept loop ends: AcceptWithContext(s.ctx) fails because s.ctx is done or the listener is closed *)
| XTableClose            (* deferred connections.Close() *)
| XWaitAll (n : nat)     (* deferred wg.Wait(): the first n threads have returned *)
| XHandshake (c : nat)   (* createConn over TLS: handshake with the peer under the connection context *)
| XHook (c : nat)        (* OnNewConn(cc) *)
| XStore (c : nat)       (* connections.Store(cc) *)
| XRead (c : nat)        (* cc.Run(): the read loop, until the peer ends it, the connection context is done or the socket is closed *)
| XConnClose (c : nat)   (* deferred Session.Close(): cancel + close of the socket *)
| XShutdown (c : nat)    (* deferred shutdown(): callbacks, Done completed *)
| XDelete (c : nat).     (* deferred connections.Delete(cc) *)

Record xst := mkX {
  x_srv : bool;               (* s.ctx cancelled *)
  x_lclosed : bool;           (* listener closed *)
  x_table : list nat;         (* connections stored *)
  x_cancelled : list nat;     (* connections whose own cancel function was called *)
  x_sock : list nat;          (* connections whose socket is closed *)
  x_done : list nat }.        (* connections whose Done() is completed *)

Definition x_init : xst := mkX false false [] [] [] [].

Definition mem (c : nat) (l : list nat) : bool := existsb (Nat.eqb c) l.

(* the peers: does peer c complete the TLS handshake; does it end the read loop (closes, sends something fatal) *)
Record xenv := mkXE { xe_hs : nat -> bool; xe_eof : nat -> bool }.
Definition silent : xenv := mkXE (fun _ => false) (fun _ => false).

Definition ctx_done (v : ctxshape) (s : xst) (c : nat) : bool :=
  mem c (x_cancelled s) || match v with CtxServer => x_srv s | CtxParent => false end.

Definition is_nil {A} (l : list A) : bool := match l with [] => true | _ => false end.

Definition xenabled (v : ctxshape) (e : xenv) (s : xst) (ts : list (list xact)) (a : xact) : bool :=
  match a with
  | XWaitStop => x_srv s || x_lclosed s
  | XWaitAll n => forallb is_nil (firstn n ts)
  | XHandshake c => xe_hs e c || ctx_done v s c || mem c (x_sock s)
  | XRead c => xe_eof e c || ctx_done v s c || mem c (x_sock s)
  | _ => true
  end.

Definition xact_step (s : xst) (a : xact) : xst :=
  match a with
  | XCancel => mkX true (x_lclosed s) (x_table s) (x_cancelled s) (x_sock s) (x_done s)
  | XListenClose => mkX (x_srv s) true (x_table s) (x_cancelled s) (x_sock s) (x_done s)
  | XTableClose => mkX (x_srv s) (x_lclosed s) (x_table s) (x_table s ++ x_cancelled s) (x_table s ++ x_sock s) (x_done s)
  | XStore c => mkX (x_srv s) (x_lclosed s) (c :: x_table s) (x_cancelled s) (x_sock s) (x_done s)
  | XConnClose c => mkX (x_srv s) (x_lclosed s) (x_table s) (c :: x_cancelled s) (c :: x_sock s) (x_done s)
  | XShutdown c => mkX (x_srv s) (x_lclosed s) (x_table s) (x_cancelled s) (x_sock s) (c :: x_done s)
  | XDelete c => mkX (x_srv s) (x_lclosed s) (filter (fun d => negb (Nat.eqb c d)) (x_table s)) (x_cancelled s) (x_sock s) (x_done s)
  | _ => s
  end.

Definition xsys := (xst * list (list xact))%type.

Definition xstep (v : ctxshape) (e : xenv) (x : xsys) (tid : nat) : xsys :=
  match nth_error (snd x) tid with
  | Some (a :: rest) =>
      if xenabled v e (fst x) (snd x) a then (xact_step (fst x) a, upd tid rest (snd x)) else x
  | _ => x
  end.

Definition xexec (v : ctxshape) (e : xenv) (x : xsys) (sched : list nat) : xsys := fold_left (xstep v e) sched x.

Definition xcan_run (v : ctxshape) (e : xenv) (x : xsys) (tid : nat) : bool :=
  match nth_error (snd x) tid with
  | Some (a :: _) => xenabled v e (fst x) (snd x) a
  | _ => false
  end.

Definition xall_done (ts : list (list xact)) : Prop := Forall (fun p => p = []) ts.
Definition xmeasure (ts : list (list xact)) : nat := list_sum (map (@List.length xact) ts).

(* ---------- the programs of the library ---------- *)
Definition stop_prog : list xact := [XCancel; XListenClose].
(* Serve from the moment its accept loop ends: checkAcceptError (s.Stop() when the listener was closed under it; a
   repeated cancel is a no-op), then the deferred calls in reverse order of registration *)
Definition serve_exit_prog (n : nat) : list xact :=
  [XWaitStop; XCancel; XTableClose; XWaitAll n] ++ stop_prog.
(* the goroutine of an accepted connection *)
Definition conn_prog (tls : bool) (c : nat) : list xact :=
  (if tls then [XHandshake c] else []) ++ [XHook c; XStore c; XRead c; XConnClose c; XShutdown c; XDelete c].

(* connection c (tls c = over TLS) has already done the first (at c) actions of its set-up when the story begins *)
Definition conn_threads (n : nat) (tls : nat -> bool) (at_ : nat -> nat) : list (list xact) :=
  map (fun c => skipn (at_ c) (conn_prog (tls c) c)) (seq 0 n).

Definition server_sys (n : nat) (tls : nat -> bool) (at_ : nat -> nat) (nstop : nat) : list (list xact) :=
  conn_threads n tls at_ ++ [serve_exit_prog n] ++ repeat stop_prog nstop.

(* ---------- shapes used by the theorems ---------- *)
(* actions that may park a thread *)
Definition xblocking (a : xact) : bool :=
  match a with XWaitStop | XWaitAll _ | XHandshake _ | XRead _ => true | _ => false end.
(* the thread is on its way to s.cancel() and nothing before it can park *)
Fixpoint cpend (p : list xact) : bool :=
  match p with
  | [] => false
  | XCancel :: _ => true
  | a :: r => negb (xblocking a) && cpend r
  end.
(* a connection goroutine does not wait for the WaitGroup it is counted in, nor for the accept loop *)
Definition conn_act (a : xact) : bool := match a with XWaitAll _ | XWaitStop => false | _ => true end.
(* every wg.Wait() of the system waits for exactly the first n threads *)
Definition wait_n (n : nat) (a : xact) : bool := match a with XWaitAll m => Nat.eqb m n | _ => true end.

Definition rrx (nthreads rounds : nat) : list nat := flat_map (fun _ => seq 0 nthreads) (seq 0 rounds).
