(* C09 -- stopping a datagram server: Server.Stop, the exit path of Serve and
   the other callers of a peer's close function, as threads of atomic actions
   over the peer table and the sessions of the peers.  Definitions only; proofs
   in StopProofs.v.

   Transcribed from udp/server/server.go and udp/server/session.go (as they are):

     Stop():           s.cancel(); close the listener; s.closeSessions()
     Serve():          defer func(){ s.closeSessions(); s.doneCancel(); ... }()
                       for { read a datagram (error -> return);
                             cc := getConn(...)      -- a new peer enters s.conns (getOrCreateConn)
                             cc.Process(...) }
     closeSessions():  lock; conns := s.conns; s.conns = {}; unlock
                       for cc in conns { cc.Close(); closeFn(cc)() }
     closeFn(cc):      session.Close(); session.shutdown()       (context value closeKey)
     handleInactivityMonitors / getConn: for a peer whose context is cancelled: closeFn(cc)()
     getOrCreateConn:  NewSession(s.ctx, s.doneCtx, ...): the session's context is a child of the server's
                       context, its done context a CHILD OF THE SERVER'S DONE CONTEXT
     Session.Close():  s.cancel()                                 (the socket belongs to the server)
     Session.shutdown(): defer s.doneCancel(); for f in popOnClose() { f() }

   Each peer's session is a Close.v state [cst] (kind DoneCtx); its Done() is
   completed when its own doneCancel has run OR the server's done context is
   cancelled; its context is cancelled by its own cancel OR the server's.

   [shut] is the shape of Session.shutdown: ShutLib = as above; ShutGuarded = with
   `if s.doneCtx.Err() != nil { return }` in front ("already shut down") -- the
   variant StopProofs.v refutes.

   The table is a list; the order in which closeSessions works through it (Go:
   map order) is the order of that list -- the theorems hold for every initial
   table, hence for every order. *)
From Coq Require Import List Bool Arith.
From GoCoap Require Import Liveness.Close.
Import ListNotations.

Inductive shut := ShutLib | ShutGuarded.

Inductive sact :=
| SCancel                   (* s.cancel(): the server's context *)
| STake                     (* closeSessions: the table is taken; the peers in it become this thread's work *)
| SNew (p : nat)            (* getOrCreateConn: peer p enters the table *)
| SDoneCancel               (* s.doneCancel(): the server's done context *)
| SCloseFn (p : nat)        (* closeFn of peer p *)
| SGuard (p : nat)          (* ShutGuarded only: the check in front of shutdown *)
| SP (p : nat) (a : action). (* one atomic action (Close.v) on the session of peer p *)

Record sst := mkS {
  s_ctx : bool;              (* server context cancelled *)
  s_done : bool;             (* server done context cancelled *)
  s_table : list nat;        (* s.conns *)
  s_peer : nat -> cst }.     (* the sessions *)

Definition set_peer (f : nat -> cst) (p : nat) (c : cst) : nat -> cst :=
  fun q => if Nat.eqb q p then c else f q.

(* what Done() / Context() of a peer connection show *)
Definition peer_done (s : sst) (p : nat) : bool := c_done (s_peer s p) || s_done s.
Definition peer_cancelled (s : sst) (p : nat) : bool := c_cancelled (s_peer s p) || s_ctx s.

Definition shutdown_of (v : shut) (p : nat) : list sact :=
  match v with
  | ShutLib => [SP p APop; SP p ADone]
  | ShutGuarded => [SGuard p]
  end.
(* session.Close(); session.shutdown() *)
Definition closefn_of (v : shut) (p : nat) : list sact := SP p ACancel :: shutdown_of v p.
(* one round of closeSessions: cc.Close() (= session.Close()), then the close function *)
Definition close_peer (v : shut) (p : nat) : list sact := SP p ACancel :: closefn_of v p.

Definition sact_step (v : shut) (s : sst) (a : sact) : sst * list sact :=
  match a with
  | SCancel => (mkS true (s_done s) (s_table s) (s_peer s), [])
  | STake => (mkS (s_ctx s) (s_done s) [] (s_peer s), flat_map (close_peer v) (s_table s))
  | SNew p => (mkS (s_ctx s) (s_done s) (p :: s_table s) (s_peer s), [])
  | SDoneCancel => (mkS (s_ctx s) true (s_table s) (s_peer s), [])
  | SCloseFn p => (s, closefn_of v p)
  | SGuard p => if peer_done s p then (s, []) else (s, [SP p APop; SP p ADone])
  | SP p a =>
      let '(c', pre) := act DoneCtx a (s_peer s p) in
      (mkS (s_ctx s) (s_done s) (s_table s) (set_peer (s_peer s) p c'), map (SP p) pre)
  end.

Definition ssys := (sst * list (list sact))%type.

Definition sstep (v : shut) (x : ssys) (tid : nat) : ssys :=
  match nth_error (snd x) tid with
  | Some (a :: rest) => let '(s', pre) := sact_step v (fst x) a in (s', upd tid (pre ++ rest) (snd x))
  | _ => x
  end.

Definition sexec (v : shut) (x : ssys) (sched : list nat) : ssys := fold_left (sstep v) sched x.

Definition sall_done (ts : list (list sact)) : Prop := Forall (fun p => p = []) ts.

(* every peer session starts with its registered callbacks cbs p; table = the peers known when the stop begins *)
Definition s_init (table : list nat) (cbs : nat -> list nat) : sst :=
  mkS false false table (fun p => init_st (cbs p)).

(* ---------- the programs of the library ---------- *)
Definition stop_prog : list sact := [SCancel; STake].
(* Serve: the peers it still admits (datagrams read before the read fails), then the deferred exit *)
Definition serve_exit_prog (news : list nat) : list sact := map SNew news ++ [STake; SDoneCancel].
(* the periodic tick / the datagram path: the close function of peers found closed *)
Definition sweep_prog (ps : list nat) : list sact := map SCloseFn ps.

Definition server_threads (nstop : nat) (news : list nat) (sweeps : list (list nat)) : list (list sact) :=
  repeat stop_prog nstop ++ [serve_exit_prog news] ++ map sweep_prog sweeps.

(* ---------- counting ---------- *)
Definition scnt (w : sact -> nat) (p : list sact) : nat := list_sum (map w p).
Definition scnt_ts (w : sact -> nat) (ts : list (list sact)) : nat := list_sum (map (scnt w) ts).

Definition b2n (b : bool) : nat := if b then 1 else 0.
Definition ws_run (p f : nat) (a : sact) : nat :=
  match a with SP q (ARun g) => b2n (Nat.eqb p q && Nat.eqb f g) | _ => 0 end.
(* actions that (will) pop the callbacks of peer p *)
Definition ws_pop (p : nat) (a : sact) : nat :=
  match a with SP q APop => b2n (Nat.eqb p q) | SCloseFn q => b2n (Nat.eqb p q) | _ => 0 end.
(* actions that (will) complete the done signal of peer p *)
Definition ws_done (p : nat) (a : sact) : nat :=
  match a with SP q ADone => b2n (Nat.eqb p q) | SCloseFn q => b2n (Nat.eqb p q) | _ => 0 end.
Definition ws_new (p : nat) (a : sact) : nat := match a with SNew q => b2n (Nat.eqb p q) | _ => 0 end.
Definition ws_take (a : sact) : nat := match a with STake => 1 | _ => 0 end.

(* actions a program may start with: callbacks are run only after being popped, none is registered while the
   server stops *)
Definition top_act (a : sact) : bool :=
  match a with
  | SP _ (ARun _) | SP _ (AAdd _) => false
  | _ => true
  end.
Definition no_add (a : sact) : bool := match a with SP _ (AAdd _) => false | _ => true end.
Definition no_guard (a : sact) : bool := match a with SGuard _ => false | _ => true end.

(* every peer admitted by a thread is followed, in that thread, by a closeSessions *)
Fixpoint new_ok (p : list sact) : bool :=
  match p with
  | [] => true
  | SNew _ :: r => (1 <=? scnt ws_take r) && new_ok r
  | _ :: r => new_ok r
  end.
(* every pop is followed, in its thread, by the completion of that peer's done signal *)
Fixpoint pop_ok (p : list sact) : bool :=
  match p with
  | [] => true
  | SP q APop :: r => (1 <=? scnt (ws_done q) r) && pop_ok r
  | _ :: r => pop_ok r
  end.

Definition ok_prog (p : list sact) : bool := new_ok p && pop_ok p && forallb no_add p && forallb no_guard p.

(* schedule used by the evaluators of Run.v *)
Definition s_sched (nthreads per : nat) : list nat := flat_map (fun t => repeat t per) (seq 0 nthreads).
