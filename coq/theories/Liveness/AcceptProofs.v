(* C09 -- proofs about stopping a stream server while connections are being set up (Accept.v).

   F. With the connection contexts derived from the server's own context (CtxServer, the source), for ARBITRARY
      thread programs over the actions of Accept.v in which the connection goroutines (the first n threads) do not
      wait for the WaitGroup they are counted in, every wg.Wait() waits for exactly those n, and some thread is on
      its way to s.cancel() without anything that can park before it (a Stop call):
        - under every schedule, for every behaviour of the peers (silent for ever included), the system is never
          stuck (xnot_stuck); every step taken shortens the programs by one (xstep_measure); hence from every
          reachable state it completes (xcompletes_from);
        - when all threads have returned the server context is cancelled, and every connection whose goroutine
          still had its shutdown ahead has its Done completed and its context done (xinv_final).
      The same system with the connection contexts derived from the configured context (CtxParent) gets stuck for
      ever: a connection whose OnNewConn hook runs while Serve closes its table, or that sits in the TLS handshake
      with a silent peer, is neither in the table nor cancelled (parent_ctx_hook_stuck, parent_ctx_tls_stuck). *)
From Coq Require Import List Bool Arith Lia.
From GoCoap Require Import Liveness.Close Liveness.Accept.
Import ListNotations.
Local Notation length := List.length (only parsing).
Local Open Scope list_scope.

(* ================= lists ================= *)
Lemma x_nth_upd_same : forall {A} (l : list A) n x y,
  nth_error l n = Some y -> nth_error (upd n x l) n = Some x.
Proof.
  induction l as [|z l IH]; intros n x y H; destruct n; simpl in *; try discriminate; auto.
  eapply IH; eauto.
Qed.

Lemma x_nth_upd_other : forall {A} (l : list A) n m x,
  n <> m -> nth_error (upd n x l) m = nth_error l m.
Proof.
  induction l as [|z l IH]; intros n m x H; destruct n, m; simpl; auto; try congruence.
Qed.

Lemma x_nth_upd : forall {A} (l : list A) n m x p,
  nth_error (upd n x l) m = Some p -> (n = m /\ p = x) \/ (n <> m /\ nth_error l m = Some p).
Proof.
  intros A l n m x p H. destruct (Nat.eq_dec n m) as [->|Hne].
  - left. split; [reflexivity|].
    destruct (nth_error l m) as [y|] eqn:E.
    + rewrite (x_nth_upd_same l m x y E) in H. congruence.
    + exfalso. revert m H E. induction l as [|z l IH]; intros m H E; destruct m; simpl in *; try discriminate.
      eapply IH; eauto.
  - right. split; [exact Hne|]. rewrite x_nth_upd_other in H by exact Hne. exact H.
Qed.

Lemma x_nth_firstn : forall {A} (l : list A) n t p,
  nth_error (firstn n l) t = Some p -> t < n /\ nth_error l t = Some p.
Proof.
  induction l as [|z l IH]; intros n t p H; destruct n; simpl in *; try (destruct t; discriminate).
  destruct t; simpl in *.
  - split; [lia|exact H].
  - destruct (IH _ _ _ H). split; [lia|assumption].
Qed.

Lemma x_firstn_nth : forall {A} (l : list A) n t p,
  t < n -> nth_error l t = Some p -> nth_error (firstn n l) t = Some p.
Proof.
  induction l as [|z l IH]; intros n t p Hl H; destruct n; simpl in *; try (destruct t; discriminate); try lia.
  destruct t; simpl in *; auto. apply IH; [lia|exact H].
Qed.

Lemma not_all_nil : forall {A} (l : list (list A)), forallb is_nil l = false ->
  exists t a r, nth_error l t = Some (a :: r).
Proof.
  induction l as [|p l IH]; simpl; intros H; [discriminate|].
  destruct p as [|a r]; simpl in H.
  - destruct (IH H) as [t [a [r E]]]. exists (S t), a, r. exact E.
  - exists 0, a, r. reflexivity.
Qed.

Lemma xmeasure_upd : forall ts tid p q,
  nth_error ts tid = Some p -> xmeasure (upd tid q ts) + length p = xmeasure ts + length q.
Proof.
  unfold xmeasure. induction ts as [|z ts IH]; intros tid p q H; destruct tid; simpl in *; try discriminate.
  - injection H as ->. lia.
  - specialize (IH _ _ q H). lia.
Qed.

Lemma xdone_or_not : forall ts : list (list xact),
  xall_done ts \/ exists tid a rest, nth_error ts tid = Some (a :: rest).
Proof.
  induction ts as [|p ts IH].
  - left. constructor.
  - destruct p as [|a rest].
    + destruct IH as [IH|[tid [a [rest H]]]].
      * left. constructor; auto.
      * right. exists (S tid), a, rest. exact H.
    + right. exists 0, a, rest. reflexivity.
Qed.

Lemma xdone_nth : forall ts t p, xall_done ts -> nth_error ts t = Some p -> p = [].
Proof.
  intros ts t p Hd Hn. apply nth_error_In in Hn. unfold xall_done in Hd. rewrite Forall_forall in Hd. auto.
Qed.

(* ================= steps ================= *)
Lemma xstep_cases : forall v e x tid,
  xstep v e x tid = x \/
  exists a rest, nth_error (snd x) tid = Some (a :: rest) /\ xenabled v e (fst x) (snd x) a = true /\
                 xstep v e x tid = (xact_step (fst x) a, upd tid rest (snd x)).
Proof.
  intros v e x tid. unfold xstep.
  destruct (nth_error (snd x) tid) as [[|a rest]|] eqn:Hn; auto.
  destruct (xenabled v e (fst x) (snd x) a) eqn:He; auto.
  right. exists a, rest. auto.
Qed.

Lemma xstep_idle : forall v e x tid, xcan_run v e x tid = false -> xstep v e x tid = x.
Proof.
  intros v e x tid H. unfold xstep, xcan_run in *.
  destruct (nth_error (snd x) tid) as [[|a rest]|]; auto. rewrite H. reflexivity.
Qed.

(* a system in which no thread can run stays as it is, for ever *)
Lemma xstuck_forever : forall v e x, (forall tid, xcan_run v e x tid = false) -> forall sched, xexec v e x sched = x.
Proof.
  intros v e x H sched. induction sched as [|t sched IH]; simpl; [reflexivity|].
  rewrite xstep_idle by apply H. exact IH.
Qed.

(* every step taken shortens the programs by exactly one action *)
Theorem xstep_measure : forall v e x tid,
  xcan_run v e x tid = true -> S (xmeasure (snd (xstep v e x tid))) = xmeasure (snd x).
Proof.
  intros v e x tid H. unfold xcan_run in H. unfold xstep.
  destruct (nth_error (snd x) tid) as [[|a rest]|] eqn:Hn; try discriminate.
  rewrite H. simpl.
  pose proof (xmeasure_upd (snd x) tid (a :: rest) rest Hn) as M. simpl in M. lia.
Qed.

(* a thread that does not run keeps what it has; nothing is ever added to a program *)
Lemma xstep_thread : forall v e x tid t p,
  nth_error (snd (xstep v e x tid)) t = Some p ->
  nth_error (snd x) t = Some p \/ exists a, nth_error (snd x) t = Some (a :: p).
Proof.
  intros v e x tid t p H. destruct (xstep_cases v e x tid) as [E|[a [rest [Hn [He E]]]]]; rewrite E in H.
  - left. exact H.
  - simpl in H. destruct (x_nth_upd _ _ _ _ _ H) as [[-> ->]|[_ Hk]].
    + right. exists a. exact Hn.
    + left. exact Hk.
Qed.

(* ================= F. the invariant ================= *)
Record XInv (n : nat) (x : xsys) : Prop := mkXInv {
  xi_conn : forall t p, t < n -> nth_error (snd x) t = Some p -> forallb conn_act p = true;
  xi_wait : forall t p, nth_error (snd x) t = Some p -> forallb (wait_n n) p = true;
  xi_cancel : x_srv (fst x) = true \/ exists t p, nth_error (snd x) t = Some p /\ cpend p = true }.

Lemma forallb_tail : forall {A} (f : A -> bool) a r, forallb f (a :: r) = true -> forallb f r = true.
Proof. intros A f a r H. simpl in H. apply andb_true_iff in H. tauto. Qed.

Lemma xinv_step : forall n v e x tid, XInv n x -> XInv n (xstep v e x tid).
Proof.
  intros n v e x tid I. destruct (xstep_cases v e x tid) as [E|[a [rest [Hn [He E]]]]]; rewrite E; [exact I|].
  constructor; simpl.
  - intros t p Ht Hp. destruct (x_nth_upd _ _ _ _ _ Hp) as [[<- ->]|[_ Hk]].
    + apply (forallb_tail _ a). apply (xi_conn n x I tid); assumption.
    + apply (xi_conn n x I t); assumption.
  - intros t p Hp. destruct (x_nth_upd _ _ _ _ _ Hp) as [[<- ->]|[_ Hk]].
    + apply (forallb_tail _ a). apply (xi_wait n x I tid); assumption.
    + apply (xi_wait n x I t); assumption.
  - destruct (xi_cancel n x I) as [Hs|[t [p [Hp Hc]]]].
    + left. destruct a; simpl; auto.
    + destruct (Nat.eq_dec tid t) as [->|Hne].
      * rewrite Hn in Hp. injection Hp as <-.
        destruct a; simpl in Hc; try discriminate;
          try (right; exists t, rest; split; [eapply x_nth_upd_same; eauto|exact Hc]).
        left. reflexivity.
      * right. exists t, p. split; [|exact Hc]. rewrite x_nth_upd_other by exact Hne. exact Hp.
Qed.

Lemma xinv_exec : forall n v e sched x, XInv n x -> XInv n (xexec v e x sched).
Proof. intros n v e sched. induction sched as [|t sched IH]; intros x I; simpl; auto using xinv_step. Qed.

Lemma cpend_head : forall p, cpend p = true ->
  exists a r, p = a :: r /\ forall v e s ts, xenabled v e s ts a = true.
Proof.
  intros p H. destruct p as [|a r]; simpl in H; try discriminate.
  exists a, r. split; [reflexivity|]. intros v e s ts.
  destruct a; simpl in *; try discriminate; auto.
Qed.

(* never stuck: while some thread has something left to do, some thread can take a step -- whatever the peers do *)
Lemma xnot_stuck : forall n e x, XInv n x -> ~ xall_done (snd x) -> exists tid, xcan_run CtxServer e x tid = true.
Proof.
  intros n e x I Hnd. destruct (xi_cancel n x I) as [Hs|[t [p [Hp Hc]]]].
  - destruct (xdone_or_not (snd x)) as [Hd|[tid [a [rest Hn]]]]; [contradiction|].
    destruct (xenabled CtxServer e (fst x) (snd x) a) eqn:He.
    + exists tid. unfold xcan_run. rewrite Hn. exact He.
    + assert (Hw := xi_wait n x I tid _ Hn).
      destruct a; simpl in He; try discriminate.
      * rewrite Hs in He. discriminate.
      * (* wg.Wait(): some connection goroutine is still there, and with the server context cancelled it can run *)
        simpl in Hw. apply andb_true_iff in Hw. destruct Hw as [Hw _]. apply Nat.eqb_eq in Hw. subst n0.
        destruct (not_all_nil _ He) as [t' [b [r' Hb]]].
        destruct (x_nth_firstn _ _ _ _ Hb) as [Hlt Hb'].
        exists t'. unfold xcan_run. rewrite Hb'.
        assert (Hca := xi_conn n x I t' _ Hlt Hb'). simpl in Hca. apply andb_true_iff in Hca. destruct Hca as [Hca _].
        destruct b; simpl in *; try discriminate; auto; unfold ctx_done; rewrite Hs; rewrite ?orb_true_r; reflexivity.
      * unfold ctx_done in He. rewrite Hs in He. rewrite ?orb_true_r in He. simpl in He. discriminate.
      * unfold ctx_done in He. rewrite Hs in He. rewrite ?orb_true_r in He. simpl in He. discriminate.
  - destruct (cpend_head p Hc) as [a [r [-> Hen]]].
    exists t. unfold xcan_run. rewrite Hp. apply Hen.
Qed.

(* from every state that satisfies the invariant the system completes *)
Lemma xcompletes_from : forall n e k x, XInv n x -> xmeasure (snd x) <= k ->
  exists ext, xall_done (snd (xexec CtxServer e x ext)).
Proof.
  intros n e k. induction k as [|k IH]; intros x I Hm.
  - destruct (xdone_or_not (snd x)) as [Hd|[tid [a [rest Hn]]]].
    + exists []. exact Hd.
    + exfalso. assert (Hnd : ~ xall_done (snd x)).
      { intro Hd. pose proof (xdone_nth _ _ _ Hd Hn). discriminate. }
      destruct (xnot_stuck n e x I Hnd) as [t Ht]. pose proof (xstep_measure CtxServer e x t Ht). lia.
  - destruct (xdone_or_not (snd x)) as [Hd|[tid [a [rest Hn]]]].
    + exists []. exact Hd.
    + assert (Hnd : ~ xall_done (snd x)).
      { intro Hd. pose proof (xdone_nth _ _ _ Hd Hn). discriminate. }
      destruct (xnot_stuck n e x I Hnd) as [t Ht]. pose proof (xstep_measure CtxServer e x t Ht) as M.
      destruct (IH (xstep CtxServer e x t) (xinv_step n CtxServer e x t I)) as [ext Hext]; [lia|].
      exists (t :: ext). exact Hext.
Qed.

(* ---------- Done of a connection: completed, or its shutdown is still ahead (any shape of the contexts) ---------- *)
Definition shut_inv (c : nat) (x : xsys) : Prop :=
  mem c (x_done (fst x)) = true \/ exists t p, nth_error (snd x) t = Some p /\ In (XShutdown c) p.
Definition close_inv (c : nat) (x : xsys) : Prop :=
  mem c (x_cancelled (fst x)) = true \/ exists t p, nth_error (snd x) t = Some p /\ In (XConnClose c) p.

Lemma mem_cons_same : forall c l, mem c (c :: l) = true.
Proof. intros c l. unfold mem. simpl. rewrite Nat.eqb_refl. reflexivity. Qed.
Lemma mem_cons_keep : forall c d l, mem c l = true -> mem c (d :: l) = true.
Proof. intros c d l H. unfold mem in *. simpl. rewrite H. apply orb_true_r. Qed.
Lemma mem_app_keep : forall c l1 l2, mem c l2 = true -> mem c (l1 ++ l2) = true.
Proof. intros c l1 l2 H. unfold mem in *. rewrite existsb_app, H. apply orb_true_r. Qed.

Lemma x_done_mono : forall s a c, mem c (x_done s) = true -> mem c (x_done (xact_step s a)) = true.
Proof. intros s a c H. destruct a; simpl; auto. apply mem_cons_keep. exact H. Qed.
Lemma x_cancelled_mono : forall s a c, mem c (x_cancelled s) = true -> mem c (x_cancelled (xact_step s a)) = true.
Proof.
  intros s a c H. destruct a; simpl; auto.
  - apply mem_app_keep. exact H.
  - apply mem_cons_keep. exact H.
Qed.

Lemma shut_inv_step : forall c v e x tid, shut_inv c x -> shut_inv c (xstep v e x tid).
Proof.
  intros c v e x tid I. destruct (xstep_cases v e x tid) as [E|[a [rest [Hn [He E]]]]]; rewrite E; [exact I|].
  destruct I as [Hd|[t [p [Hp Hin]]]].
  - left. simpl. apply x_done_mono. exact Hd.
  - destruct (Nat.eq_dec tid t) as [->|Hne].
    + rewrite Hn in Hp. injection Hp as <-. destruct Hin as [->|Hin].
      * left. simpl. apply mem_cons_same.
      * right. exists t, rest. split; [|exact Hin]. simpl. eapply x_nth_upd_same; eauto.
    + right. exists t, p. split; [|exact Hin]. simpl. rewrite x_nth_upd_other by exact Hne. exact Hp.
Qed.

Lemma close_inv_step : forall c v e x tid, close_inv c x -> close_inv c (xstep v e x tid).
Proof.
  intros c v e x tid I. destruct (xstep_cases v e x tid) as [E|[a [rest [Hn [He E]]]]]; rewrite E; [exact I|].
  destruct I as [Hd|[t [p [Hp Hin]]]].
  - left. simpl. apply x_cancelled_mono. exact Hd.
  - destruct (Nat.eq_dec tid t) as [->|Hne].
    + rewrite Hn in Hp. injection Hp as <-. destruct Hin as [->|Hin].
      * left. simpl. apply mem_cons_same.
      * right. exists t, rest. split; [|exact Hin]. simpl. eapply x_nth_upd_same; eauto.
    + right. exists t, p. split; [|exact Hin]. simpl. rewrite x_nth_upd_other by exact Hne. exact Hp.
Qed.

Lemma shut_inv_exec : forall c v e sched x, shut_inv c x -> shut_inv c (xexec v e x sched).
Proof. intros c v e sched. induction sched as [|t sched IH]; intros x I; simpl; auto using shut_inv_step. Qed.
Lemma close_inv_exec : forall c v e sched x, close_inv c x -> close_inv c (xexec v e x sched).
Proof. intros c v e sched. induction sched as [|t sched IH]; intros x I; simpl; auto using close_inv_step. Qed.

Lemma shut_inv_final : forall c x, shut_inv c x -> xall_done (snd x) -> mem c (x_done (fst x)) = true.
Proof.
  intros c x [H|[t [p [Hp Hin]]]] Hd; [exact H|].
  rewrite (xdone_nth _ _ _ Hd Hp) in Hin. contradiction.
Qed.
Lemma close_inv_final : forall c x, close_inv c x -> xall_done (snd x) -> mem c (x_cancelled (fst x)) = true.
Proof.
  intros c x [H|[t [p [Hp Hin]]]] Hd; [exact H|].
  rewrite (xdone_nth _ _ _ Hd Hp) in Hin. contradiction.
Qed.

Lemma xinv_final : forall n x, XInv n x -> xall_done (snd x) -> x_srv (fst x) = true.
Proof.
  intros n x I Hd. destruct (xi_cancel n x I) as [H|[t [p [Hp Hc]]]]; [exact H|].
  rewrite (xdone_nth _ _ _ Hd Hp) in Hc. discriminate.
Qed.

(* ================= the start state of arbitrary programs ================= *)
Definition good_xstart (n : nat) (ts : list (list xact)) : Prop :=
  Forall (fun p => forallb conn_act p = true) (firstn n ts) /\
  Forall (fun p => forallb (wait_n n) p = true) ts /\
  (exists t p, nth_error ts t = Some p /\ cpend p = true).

Lemma xinv_init : forall n s ts, good_xstart n ts -> XInv n (s, ts).
Proof.
  intros n s ts [H1 [H2 H3]]. constructor; simpl.
  - intros t p Ht Hp. rewrite Forall_forall in H1. apply H1.
    eapply nth_error_In. apply x_firstn_nth; eassumption.
  - intros t p Hp. rewrite Forall_forall in H2. apply H2. eapply nth_error_In; eassumption.
  - right. exact H3.
Qed.

Theorem stop_ends_connections_in_setup : forall n ts e sched,
  good_xstart n ts ->
  let x := xexec CtxServer e (x_init, ts) sched in
  (* never stuck *)
  (~ xall_done (snd x) -> exists tid, xcan_run CtxServer e x tid = true) /\
  (* completes *)
  (exists ext, xall_done (snd (xexec CtxServer e x ext))) /\
  (* and then the server context is cancelled, and every connection whose goroutine had its shutdown ahead has its
     Done completed and its context done *)
  (xall_done (snd x) ->
   x_srv (fst x) = true /\
   forall c, (exists t p, nth_error ts t = Some p /\ In (XShutdown c) p) ->
             mem c (x_done (fst x)) = true /\ ctx_done CtxServer (fst x) c = true).
Proof.
  intros n ts e sched G x. pose proof (xinv_exec n CtxServer e sched _ (xinv_init n x_init ts G)) as I. fold x in I.
  split; [apply (xnot_stuck n); exact I|]. split.
  - apply (xcompletes_from n e (xmeasure (snd x)) x I). lia.
  - intros Hd. pose proof (xinv_final n x I Hd) as Hs. split; [exact Hs|].
    intros c Hc. split.
    + apply shut_inv_final; [|exact Hd]. unfold x. apply shut_inv_exec. right. exact Hc.
    + unfold ctx_done. rewrite Hs. apply orb_true_r.
Qed.

(* ================= the library's system ================= *)
Lemma forallb_skipn : forall {A} (f : A -> bool) k l, forallb f l = true -> forallb f (skipn k l) = true.
Proof.
  intros A f k. induction k as [|k IH]; intros l H; simpl; auto.
  destruct l as [|a l]; auto. apply IH. apply (forallb_tail f a). exact H.
Qed.

Lemma conn_prog_conn_act : forall tls c, forallb conn_act (conn_prog tls c) = true.
Proof. intros [|] c; reflexivity. Qed.
Lemma conn_prog_wait_n : forall n tls c, forallb (wait_n n) (conn_prog tls c) = true.
Proof. intros n [|] c; reflexivity. Qed.

Lemma firstn_app_exact : forall {A} (l r : list A), firstn (length l) (l ++ r) = l.
Proof. induction l as [|a l IH]; intros r; simpl; [reflexivity|]. rewrite IH. reflexivity. Qed.

Lemma conn_threads_length : forall n tls at_, length (conn_threads n tls at_) = n.
Proof. intros. unfold conn_threads. rewrite map_length, seq_length. reflexivity. Qed.

Lemma server_sys_good : forall n tls at_ nstop, 1 <= nstop -> good_xstart n (server_sys n tls at_ nstop).
Proof.
  intros n tls at_ nstop Hs. unfold good_xstart, server_sys. split; [|split].
  - rewrite <- (conn_threads_length n tls at_) at 1. rewrite firstn_app_exact.
    unfold conn_threads. rewrite Forall_forall. intros p Hp. apply in_map_iff in Hp. destruct Hp as [c [<- _]].
    apply forallb_skipn. apply conn_prog_conn_act.
  - apply Forall_app. split.
    + unfold conn_threads. rewrite Forall_forall. intros p Hp. apply in_map_iff in Hp. destruct Hp as [c [<- _]].
      apply forallb_skipn. apply conn_prog_wait_n.
    + constructor.
      * simpl. rewrite Nat.eqb_refl. reflexivity.
      * rewrite Forall_forall. intros p Hp. apply repeat_spec in Hp. subst p. reflexivity.
  - exists (n + 1), stop_prog. split; [|reflexivity].
    rewrite nth_error_app2 by (rewrite conn_threads_length; lia). rewrite conn_threads_length.
    replace (n + 1 - n) with 1 by lia. simpl.
    destruct nstop as [|k]; [lia|]. reflexivity.
Qed.

Lemma x_nth_seq : forall n s c, c < n -> nth_error (seq s n) c = Some (s + c).
Proof.
  induction n as [|n IH]; intros s c H; [lia|]. destruct c; simpl.
  - f_equal. lia.
  - rewrite IH by lia. f_equal. lia.
Qed.

Lemma conn_thread_nth : forall n tls at_ nstop c, c < n ->
  nth_error (server_sys n tls at_ nstop) c = Some (skipn (at_ c) (conn_prog (tls c) c)).
Proof.
  intros n tls at_ nstop c Hc. unfold server_sys.
  rewrite nth_error_app1 by (rewrite conn_threads_length; exact Hc).
  unfold conn_threads. rewrite nth_error_map. rewrite (x_nth_seq n 0 c Hc). reflexivity.
Qed.

(* the library: n accepted connections, each anywhere in its set-up (TLS handshake, OnNewConn hook, not yet stored,
   reading), peers behaving in any way, Serve, one or more Stop calls *)
Theorem server_stop_with_connections_in_setup : forall n tls at_ nstop e sched,
  1 <= nstop -> (forall c, c < n -> at_ c <= 3) ->
  let x := xexec CtxServer e (x_init, server_sys n tls at_ nstop) sched in
  (~ xall_done (snd x) -> exists tid, xcan_run CtxServer e x tid = true) /\
  (exists ext, xall_done (snd (xexec CtxServer e x ext))) /\
  (xall_done (snd x) ->
   x_srv (fst x) = true /\
   forall c, c < n -> mem c (x_done (fst x)) = true /\ ctx_done CtxServer (fst x) c = true).
Proof.
  intros n tls at_ nstop e sched Hs Hat x.
  destruct (stop_ends_connections_in_setup n _ e sched (server_sys_good n tls at_ nstop Hs)) as [A [B C]].
  fold x in A, B, C. split; [exact A|]. split; [exact B|].
  intros Hd. destruct (C Hd) as [C1 C2]. split; [exact C1|].
  intros c Hc. apply C2. exists c, (skipn (at_ c) (conn_prog (tls c) c)). split; [apply conn_thread_nth; exact Hc|].
  specialize (Hat c Hc). destruct (tls c); destruct (at_ c) as [|[|[|[|k]]]]; simpl; try lia; tauto.
Qed.

(* ================= the same with the connection contexts derived from the configured context ================= *)
(* one connection whose OnNewConn hook is running, a silent peer, one Stop call: Stop runs, Serve leaves its accept
   loop and closes its (empty) table, the hook returns, the connection is stored and read -- for ever *)
Theorem parent_ctx_hook_stuck :
  let ts := server_sys 1 (fun _ => false) (fun _ => 0) 1 in
  let x := xexec CtxParent silent (x_init, ts) [2; 2; 1; 1; 1; 0; 0] in
  ~ xall_done (snd x) /\
  (forall tid, xcan_run CtxParent silent x tid = false) /\
  (forall ext, xexec CtxParent silent x ext = x) /\
  x_srv (fst x) = true /\ mem 0 (x_done (fst x)) = false /\ ctx_done CtxParent (fst x) 0 = false.
Proof.
  assert (S : forall tid, xcan_run CtxParent silent
            (xexec CtxParent silent (x_init, server_sys 1 (fun _ => false) (fun _ => 0) 1) [2; 2; 1; 1; 1; 0; 0]) tid = false).
  { intros [|[|[|t]]]; vm_compute; try reflexivity. destruct t; reflexivity. }
  cbv zeta. split; [|split; [exact S|split; [apply xstuck_forever; exact S|]]].
  - intro Hd. vm_compute in Hd. inversion Hd as [|? ? E _]. discriminate.
  - vm_compute. auto.
Qed.

(* the same over TLS without any hook: the peer opened the TCP connection and never sends a ClientHello *)
Theorem parent_ctx_tls_stuck :
  let ts := server_sys 1 (fun _ => true) (fun _ => 0) 1 in
  let x := xexec CtxParent silent (x_init, ts) [2; 2; 1; 1; 1] in
  ~ xall_done (snd x) /\
  (forall tid, xcan_run CtxParent silent x tid = false) /\
  (forall ext, xexec CtxParent silent x ext = x) /\
  x_srv (fst x) = true /\ mem 0 (x_done (fst x)) = false /\ ctx_done CtxParent (fst x) 0 = false.
Proof.
  assert (S : forall tid, xcan_run CtxParent silent
            (xexec CtxParent silent (x_init, server_sys 1 (fun _ => true) (fun _ => 0) 1) [2; 2; 1; 1; 1]) tid = false).
  { intros [|[|[|t]]]; vm_compute; try reflexivity. destruct t; reflexivity. }
  cbv zeta. split; [|split; [exact S|split; [apply xstuck_forever; exact S|]]].
  - intro Hd. vm_compute in Hd. inversion Hd as [|? ? E _]. discriminate.
  - vm_compute. auto.
Qed.
