(* C09 -- the close protocol of the three session types as threads of atomic
   actions over a shared state (definitions only; proofs in Proofs.v).

   Transcribed from udp/server/session.go, tcp/client/session.go,
   dtls/server/session.go (identical shape):

     Close():      s.cancel(); if s.closeSocket { s.connection.Close() }
     popOnClose(): lock; tmp := s.onClose; s.onClose = nil; unlock; return tmp
     shutdown():   defer <complete done>; for f in popOnClose() { f() }
     Run():        defer func(){ s.Close(); s.shutdown() }() ; read loop
     AddOnClose(f): lock; s.onClose = append(s.onClose, f); unlock

   <complete done> is `s.doneCancel()` (a context.CancelFunc: idempotent) in
   udp/server and `close(s.done)` (a channel: a second close PANICS) in
   tcp/client and dtls/server.  shutdown of a udp/server session is also called
   by the server's per-connection close function (getOrCreateConn: closeKey =
   session.Close(); session.shutdown()), which Stop / closeSessions, the
   periodic tick and getConn may all invoke, concurrently; in tcp/client and
   dtls/server only the single Run exit calls it.

   connection.Close() is net.Conn.Close of net/conn.go: a compare-and-swap on
   `closed` guards the one call of the underlying socket's Close.

   Atomic actions = the critical sections / atomic operations above; a thread is
   the list of actions it still has to execute; a schedule is a list of thread
   ids (a step of a finished or non-existent thread is a no-op). *)
From Coq Require Import List Bool Arith.
Import ListNotations.

Inductive dkind := DoneCtx | DoneChan.

Inductive action :=
| ACancel            (* s.cancel(): context.CancelFunc, idempotent *)
| ASockClose         (* net.Conn.Close: CAS(closed,false,true) then the socket's Close *)
| APop               (* popOnClose under the mutex; the popped callbacks become this thread's next actions *)
| ARun (f : nat)     (* f() for one popped callback *)
| ADone              (* deferred doneCancel() / close(s.done) *)
| AAdd (f : nat).    (* AddOnClose(f) under the mutex *)

Record cst := mkCst {
  c_cancelled : bool;  c_cancel_calls : nat;
  c_sock_closed : bool; c_net_closes : nat;      (* calls of the underlying socket's Close *)
  c_on_close : list nat;                         (* s.onClose *)
  c_ran : list nat;                              (* callbacks executed so far, latest first *)
  c_done : bool; c_completions : nat;            (* Done() completed; number of times it went from open to completed *)
  c_panics : nat;                                (* close of a closed channel *)
  c_popped : bool }.                             (* ghost: some popOnClose has happened *)

Definition init_st (cbs : list nat) : cst := mkCst false 0 false 0 cbs [] false 0 0 false.

(* effect of one action: new state and the actions it puts in front of the thread's remaining ones *)
Definition act (k : dkind) (a : action) (s : cst) : cst * list action :=
  match a with
  | ACancel =>
      (mkCst true (S (c_cancel_calls s)) (c_sock_closed s) (c_net_closes s) (c_on_close s) (c_ran s)
             (c_done s) (c_completions s) (c_panics s) (c_popped s), [])
  | ASockClose =>
      if c_sock_closed s then (s, [])
      else (mkCst (c_cancelled s) (c_cancel_calls s) true (S (c_net_closes s)) (c_on_close s) (c_ran s)
                  (c_done s) (c_completions s) (c_panics s) (c_popped s), [])
  | APop =>
      (mkCst (c_cancelled s) (c_cancel_calls s) (c_sock_closed s) (c_net_closes s) [] (c_ran s)
             (c_done s) (c_completions s) (c_panics s) true, map ARun (c_on_close s))
  | ARun f =>
      (mkCst (c_cancelled s) (c_cancel_calls s) (c_sock_closed s) (c_net_closes s) (c_on_close s) (f :: c_ran s)
             (c_done s) (c_completions s) (c_panics s) (c_popped s), [])
  | ADone =>
      if c_done s then
        match k with
        | DoneCtx => (s, [])
        | DoneChan => (mkCst (c_cancelled s) (c_cancel_calls s) (c_sock_closed s) (c_net_closes s) (c_on_close s) (c_ran s)
                             (c_done s) (c_completions s) (S (c_panics s)) (c_popped s), [])
        end
      else (mkCst (c_cancelled s) (c_cancel_calls s) (c_sock_closed s) (c_net_closes s) (c_on_close s) (c_ran s)
                  true (S (c_completions s)) (c_panics s) (c_popped s), [])
  | AAdd f =>
      (mkCst (c_cancelled s) (c_cancel_calls s) (c_sock_closed s) (c_net_closes s) (c_on_close s ++ [f]) (c_ran s)
             (c_done s) (c_completions s) (c_panics s) (c_popped s), [])
  end.

Fixpoint upd {A} (n : nat) (x : A) (l : list A) : list A :=
  match l, n with
  | [], _ => []
  | _ :: r, 0 => x :: r
  | y :: r, S m => y :: upd m x r
  end.

Definition sys := (cst * list (list action))%type.

Definition step (k : dkind) (x : sys) (tid : nat) : sys :=
  match nth_error (snd x) tid with
  | Some (a :: rest) => let '(s', pre) := act k a (fst x) in (s', upd tid (pre ++ rest) (snd x))
  | _ => x
  end.

Definition exec (k : dkind) (x : sys) (sched : list nat) : sys := fold_left (step k) sched x.

(* ---------- the programs of the library ---------- *)
Definition close_prog (close_socket : bool) : list action := ACancel :: (if close_socket then [ASockClose] else []).
Definition shutdown_prog : list action := [APop; ADone].
Definition run_exit_prog (close_socket : bool) : list action := close_prog close_socket ++ shutdown_prog.
Definition closefn_prog : list action := close_prog false ++ shutdown_prog.   (* udp/server closeKey function *)
Definition add_prog (f : nat) : list action := [AAdd f].

(* a session under n concurrent Close calls, m shutdown callers (Run exit / close function) and concurrent
   AddOnClose calls *)
Definition session_threads (close_socket : bool) (nclose nshut : nat) (adds : list nat) : list (list action) :=
  repeat (close_prog close_socket) nclose ++ repeat (run_exit_prog close_socket) nshut ++ map add_prog adds.

(* sequential execution of whole programs, used for idempotence and as reference run *)
Fixpoint run_prog (k : dkind) (fuel : nat) (p : list action) (s : cst) : cst :=
  match fuel with
  | 0 => s
  | S n => match p with
           | [] => s
           | a :: rest => let '(s', pre) := act k a s in run_prog k n (pre ++ rest) s'
           end
  end.

(* observable part of the state: everything except how often cancel() was called *)
Definition obs (s : cst) := (c_cancelled s, c_sock_closed s, c_net_closes s, c_on_close s, c_ran s, c_done s, c_completions s, c_panics s).

Definition all_done (ts : list (list action)) : Prop := Forall (fun p => p = []) ts.

(* weights used to count actions *)
Definition w_run (f : nat) (a : action) : nat := match a with ARun g => if Nat.eqb f g then 1 else 0 | _ => 0 end.
Definition w_add (f : nat) (a : action) : nat := match a with AAdd g => if Nat.eqb f g then 1 else 0 | _ => 0 end.
Definition w_pop (a : action) : nat := match a with APop => 1 | _ => 0 end.
Definition w_done (a : action) : nat := match a with ADone => 1 | _ => 0 end.
Definition w_anyrun (a : action) : nat := match a with ARun _ => 1 | _ => 0 end.

Definition cnt (w : action -> nat) (p : list action) : nat := list_sum (map w p).
Definition cnt_ts (w : action -> nat) (ts : list (list action)) : nat := list_sum (map (cnt w) ts).
