(* C09 -- the table of pending message IDs of a datagram connection
   (udp/client.Conn.midHandlerContainer, a pkg/sync.Map: a Go map under a
   sync.RWMutex) and the goroutines that work on it.  Definitions only; proofs in
   TableProofs.v.

   Transcribed from the code (as it is):

     pkg/sync.Map
       Load / Length / CopyData:                  RLock; ...; RUnlock
       Store / LoadOrStore / Delete / LoadAndDelete / Replace: Lock; ...; Unlock
       Range(f):   RLock; defer RUnlock
                   for key, value := range data { RUnlock; f(key, value); RLock }
       Range2(f):  RLock; defer RUnlock
                   for key, value := range data { f(key, value) }
     udp/client.Conn
       CheckExpirations(now):  midHandlerContainer.Range(checkMidHandlerContainer)
       checkMidHandlerContainer: expired (retransmissions used up / deadline of the
                   request's context passed) -> midHandlerContainer.Delete(key);
                   otherwise retransmit or nothing (no table operation)
       prepareWriteMessage:    LoadOrStore(mid); the returned close function, deferred
                   by writeMessage / writeMessageAsync: LoadAndDelete(mid)
       AsyncPing:              LoadOrStore(mid); the returned cancel function, deferred
                   by Client.Ping: LoadAndDelete(mid)
       handleSpecialMessages (receive path, for an ACK / RST): LoadAndDelete(mid)

   sync.RWMutex (Go): RLock blocks while a writer holds the lock OR A WRITER IS
   WAITING for it; Lock announces itself (from then on new readers wait), then
   waits until the writer and all readers that hold the lock have released it.
   Lock is therefore two actions here: TWReq (announce; never blocks) and TWAcq
   (acquire; blocks).  A step of a thread whose head action is not enabled leaves
   the system unchanged (the goroutine stays parked).

   A blocked client operation returns through its deferred LoadAndDelete: "the
   operation has returned" = its thread has executed its write section.  No
   context is looked at while a goroutine waits for the lock. *)
From Coq Require Import List Bool Arith.
From GoCoap Require Import Liveness.Close.
Import ListNotations.

Inductive tact :=
| TRLock | TRUnlock          (* mutex.RLock / RUnlock *)
| TWReq                      (* mutex.Lock, first half: the writer is announced *)
| TWAcq                      (* mutex.Lock, second half: no writer, no reader left *)
| TWUnlock.                  (* mutex.Unlock *)

Record tst := mkT {
  t_readers : nat;           (* read locks held *)
  t_writer : bool;           (* the write lock is held *)
  t_wpend : nat }.           (* announced writers that wait *)

Definition t_init : tst := mkT 0 false 0.

Definition tenabled (s : tst) (a : tact) : bool :=
  match a with
  | TRLock => negb (t_writer s) && (t_wpend s =? 0)
  | TWAcq => negb (t_writer s) && (t_readers s =? 0)
  | _ => true
  end.

Definition tact_step (s : tst) (a : tact) : tst :=
  match a with
  | TRLock => mkT (S (t_readers s)) (t_writer s) (t_wpend s)
  | TRUnlock => mkT (pred (t_readers s)) (t_writer s) (t_wpend s)
  | TWReq => mkT (t_readers s) (t_writer s) (S (t_wpend s))
  | TWAcq => mkT (t_readers s) true (pred (t_wpend s))
  | TWUnlock => mkT (t_readers s) false (t_wpend s)
  end.

Definition tsys := (tst * list (list tact))%type.

Definition tstep (x : tsys) (tid : nat) : tsys :=
  match nth_error (snd x) tid with
  | Some (a :: rest) => if tenabled (fst x) a then (tact_step (fst x) a, upd tid rest (snd x)) else x
  | _ => x
  end.

Definition texec (x : tsys) (sched : list nat) : tsys := fold_left tstep sched x.

Definition tcan_run (x : tsys) (tid : nat) : bool :=
  match nth_error (snd x) tid with
  | Some (a :: _) => tenabled (fst x) a
  | _ => false
  end.

Definition tall_done (ts : list (list tact)) : Prop := Forall (fun p => p = []) ts.

Definition tmeasure (ts : list (list tact)) : nat := list_sum (map (@List.length tact) ts).

(* ---------- programs ---------- *)
Definition rsec : list tact := [TRLock; TRUnlock].            (* Load, Length, ... *)
Definition wsec : list tact := [TWReq; TWAcq; TWUnlock].      (* LoadOrStore, Delete, LoadAndDelete, ... *)

(* one walk over the table by the housekeeping; per entry visited: does the callback remove it (true: the
   message is given up -- Delete) or not (false: retransmission or nothing).
   unlocks = true: Map.Range (the read lock is released around each callback);
   unlocks = false: Map.Range2 (the callback runs under the read lock). *)
Definition visit (unlocks : bool) (del : bool) : list tact :=
  if unlocks then TRUnlock :: (if del then wsec else []) ++ [TRLock]
  else (if del then wsec else []).
Definition walk (unlocks : bool) (dels : list bool) : list tact :=
  TRLock :: flat_map (visit unlocks) dels ++ [TRUnlock].

(* a confirmable request / ping: the entry is stored, (the caller waits -- not a table operation --), the
   deferred clean-up removes it *)
Definition op_prog : list tact := wsec ++ wsec.
(* the same operation when it is already waiting: only the clean-up is left *)
Definition cleanup_prog : list tact := wsec.
(* the receive path for an acknowledgement *)
Definition ack_prog : list tact := wsec.

(* a program made of complete, non-nested critical sections *)
Fixpoint sec_ok (p : list tact) : bool :=
  match p with
  | [] => true
  | TRLock :: TRUnlock :: r => sec_ok r
  | TWReq :: TWAcq :: TWUnlock :: r => sec_ok r
  | _ => false
  end.

(* ... or the rest of such a program, entered in the middle of a section *)
Definition suf_ok (p : list tact) : bool :=
  match p with
  | TRUnlock :: r => sec_ok r
  | TWAcq :: TWUnlock :: r => sec_ok r
  | TWUnlock :: r => sec_ok r
  | _ => sec_ok p
  end.

(* the head of a thread's program tells where the thread is *)
Definition at_head (a : tact) (p : list tact) : nat :=
  match p, a with
  | TRUnlock :: _, TRUnlock => 1      (* holds a read lock *)
  | TWAcq :: _, TWAcq => 1            (* announced, waiting for the write lock *)
  | TWUnlock :: _, TWUnlock => 1      (* holds the write lock *)
  | _, _ => 0
  end.
Definition heads (a : tact) (ts : list (list tact)) : nat := list_sum (map (at_head a) ts).

(* the system the evaluators of Run.v run: nticks concurrent housekeeping walks over one entry (given up or
   not), the clean-up of the waiting operation, and an operation started afterwards *)
Definition tick_sys (unlocks del : bool) (nticks : nat) : list (list tact) :=
  repeat (walk unlocks [del]) nticks ++ [cleanup_prog; op_prog].
