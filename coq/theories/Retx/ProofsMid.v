(* Theorems about the message-ID keyed sender model (Retx/ModelMid.v).

   1. structure: in every reachable state the pending table has at most one entry per message ID, and every
      entry belongs to a request that is waiting for its acknowledgement (mid_table_keyed);
   2. a call - admitted or refused - never removes or alters an entry that is already in the table
      (send_keeps_table), and whatever other requests are issued meanwhile, with colliding message IDs or
      not, a pending request that gets its piggybacked response returns it (pending_request_answered);
   3. on histories without application-chosen message IDs the model IS Retx/Model.v (mid_refines_base), so
      every theorem of Retx/Proofs.v and Retx/ProofsCount.v holds of it;
   4. over ALL histories, application-chosen IDs included: the per-entry retransmission bound, "success only
      with a response", nothing sent after ACK / RST / cancellation, and at most 1 + MAX_RETRANSMIT copies
      per request. *)
From Coq Require Import ZArith List Bool Lia.
From GoCoap Require Import Retx.Model Retx.ModelMid Retx.Proofs Retx.ProofsCount.
Import ListNotations.
Open Scope Z_scope.

Definition mfinal (c : cfg) (s : mst) (evs : list mev) : mst := fst (mrun c s evs).
Definition mouts (c : cfg) (s : mst) (evs : list mev) : list obs := snd (mrun c s evs).

Lemma mfinal_cons c s e evs : mfinal c s (e :: evs) = mfinal c (fst (mstep c s e)) evs.
Proof. unfold mfinal. cbn [mrun]. destruct (mstep c s e) as [s1 o]. cbn [fst]. destruct (mrun c s1 evs). reflexivity. Qed.
Lemma mouts_cons c s e evs : mouts c s (e :: evs) = snd (mstep c s e) :: mouts c (fst (mstep c s e)) evs.
Proof. unfold mouts. cbn [mrun]. destruct (mstep c s e) as [s1 o]. cbn [fst snd]. destruct (mrun c s1 evs). reflexivity. Qed.
Lemma mfinal_app c evs1 : forall s evs2, mfinal c s (evs1 ++ evs2) = mfinal c (mfinal c s evs1) evs2.
Proof. induction evs1 as [|e r IH]; intros s evs2; [reflexivity|]. rewrite <- app_comm_cons, !mfinal_cons. apply IH. Qed.

(* request ids submitted by a history *)
Definition msend_id (e : mev) : list Z :=
  match e with Base (Send i _ _) => [i] | SendM i _ _ _ => [i] | _ => [] end.
Fixpoint msend_ids (evs : list mev) : list Z :=
  match evs with [] => [] | e :: r => msend_id e ++ msend_ids r end.
Definition is_msend (e : mev) : Prop := match e with Base (Send _ _ _) | SendM _ _ _ _ => True | _ => False end.

Definition ids (s : st) : list Z := map q_id (reqs s).

(* ---------- small facts ---------- *)

Lemma nodup_map_inj {A B} (f : A -> B) l x y : NoDup (map f l) -> In x l -> In y l -> f x = f y -> x = y.
Proof.
  induction l as [|a l IH]; intros Hn Hx Hy E; [destruct Hx|]. cbn [map] in Hn. inversion Hn as [|? ? Ha Hl]; subst.
  destruct Hx as [->|Hx], Hy as [->|Hy]; auto.
  - exfalso. apply Ha. rewrite E. apply in_map. exact Hy.
  - exfalso. apply Ha. rewrite <- E. apply in_map. exact Hx.
Qed.

Lemma nodup_map_filter {A B} (f : A -> B) g l : NoDup (map f l) -> NoDup (map f (filter g l)).
Proof.
  induction l as [|a l IH]; intros Hn; [constructor|]. cbn [map] in Hn. inversion Hn as [|? ? Ha Hl]; subst.
  cbn [filter]. destruct (g a); [|auto]. cbn [map]. constructor; [|auto].
  intros Hin. apply Ha. apply in_map_iff in Hin. destruct Hin as (x & Ex & Hx). apply filter_In in Hx.
  apply in_map_iff. exists x. tauto.
Qed.

Lemma NoDup_app_one {A} (l : list A) x : NoDup l -> ~ In x l -> NoDup (l ++ [x]).
Proof.
  induction l as [|a l IH]; intros Hn Hx; cbn [app]; [constructor; [intros []|constructor]|].
  inversion Hn as [|? ? Ha Hl]; subst. constructor.
  - intros Hin. apply in_app_or in Hin. destruct Hin as [H|[H|[]]]; [contradiction|]. subst. apply Hx. left. reflexivity.
  - apply IH; [exact Hl|]. intros H. apply Hx. right. exact H.
Qed.

Lemma NoDup_app_l {A} (l1 l2 : list A) : NoDup (l1 ++ l2) -> NoDup l1.
Proof.
  induction l1 as [|a l1 IH]; intros H; [constructor|]. cbn [app] in H. inversion H as [|? ? Ha Hl]; subst.
  constructor; [|exact (IH Hl)]. intros Hin. apply Ha. apply in_or_app. left. exact Hin.
Qed.

Lemma mid_of_cons_ne mu i m id : i <> id -> mid_of ((i, m) :: mu) id = mid_of mu id.
Proof. intros H. cbn [mid_of]. apply Z.eqb_neq in H. rewrite H. reflexivity. Qed.

Lemma find_mid_some mu l m p : find_mid mu l m = Some p -> In p l /\ key mu p = m.
Proof.
  induction l as [|x r IH]; cbn [find_mid]; [discriminate|].
  destruct (Z.eqb_spec (key mu x) m) as [E|E].
  - intros H; injection H as <-. split; [left; reflexivity|exact E].
  - intros H. destruct (IH H). split; [right; assumption|assumption].
Qed.

Lemma find_mid_none mu l m : find_mid mu l m = None -> has_mid mu l m = false.
Proof.
  unfold has_mid. induction l as [|x r IH]; cbn [find_mid existsb]; [reflexivity|].
  destruct (key mu x =? m); [discriminate|]. exact IH.
Qed.

Lemma has_mid_false_in mu l m p : has_mid mu l m = false -> In p l -> key mu p <> m.
Proof.
  unfold has_mid. intros H Hin E. assert (T : existsb (fun p0 => key mu p0 =? m) l = true).
  { apply existsb_exists. exists p. split; [exact Hin|apply Z.eqb_eq; exact E]. }
  congruence.
Qed.

Lemma has_mid_nil_pend l m : has_mid [] l m = has_pend l m.
Proof. reflexivity. Qed.

Lemma has_pend_in l id : has_pend l id = true -> exists p, In p l /\ p_id p = id.
Proof. unfold has_pend. intros H. apply existsb_exists in H. destruct H as (p & Hp & E). exists p. split; [exact Hp|apply Z.eqb_eq; exact E]. Qed.

Lemma in_has_pend l p : In p l -> has_pend l (p_id p) = true.
Proof. intros H. unfold has_pend. apply existsb_exists. exists p. split; [exact H|apply Z.eqb_refl]. Qed.

(* the message carrying an ID wakes at most one writer: it is [wake] for the owner of the entry, or nothing *)
Lemma wake_mid_cases mu s id : wake_mid mu s id = s \/ exists j, wake_mid mu s id = wake s j.
Proof. unfold wake_mid. destruct (find_mid mu (pending s) (mid_of mu id)) as [p|]; [right; eexists; reflexivity|left; reflexivity]. Qed.

Lemma wake_not_pend s j : has_pend (pending s) j = false -> wake s j = s.
Proof. intros H. unfold wake. rewrite H. reflexivity. Qed.

(* without application-chosen IDs, matching by message ID is matching by request *)
Lemma wake_mid_nil s id : wake_mid [] s id = wake s id.
Proof.
  unfold wake_mid. cbn [mid_of]. destruct (find_mid [] (pending s) id) as [p|] eqn:E.
  - apply find_mid_some in E. destruct E as [_ E]. unfold key in E. cbn [mid_of] in E. rewrite E. reflexivity.
  - apply find_mid_none in E. rewrite has_mid_nil_pend in E. symmetry. apply wake_not_pend. exact E.
Qed.

(* ---------- request ids are never changed ---------- *)

Lemma set_status_ids l id f : (forall q, q_id (f q) = q_id q) -> map q_id (set_status l id f) = map q_id l.
Proof.
  intros Hf. unfold set_status. rewrite map_map. apply map_ext. intros q. destruct (q_id q =? id); [apply Hf|reflexivity].
Qed.

Lemma settle_ids l : map q_id (fst (settle_list l)) = map q_id l.
Proof.
  rewrite settle_list_map, map_map. apply map_ext. intros q. unfold settle_rq.
  destruct (q_st q); try reflexivity. destruct (q_buf q); reflexivity.
Qed.

Lemma wake_ids s j : ids (wake s j) = ids s.
Proof.
  unfold wake, ids. destruct (has_pend (pending s) j); [|reflexivity]. cbn [reqs].
  apply set_status_ids. intros q. destruct (is_wait_ack (q_st q)); reflexivity.
Qed.

Lemma wake_mid_ids mu s id : ids (wake_mid mu s id) = ids s.
Proof. destruct (wake_mid_cases mu s id) as [->|[j ->]]; [reflexivity|apply wake_ids]. Qed.

Lemma deliver_ids s i cd : ids (deliver s i cd) = ids s.
Proof.
  unfold deliver, ids. cbn [reqs]. apply set_status_ids. intros q.
  destruct (is_done (q_st q)); [reflexivity|]. destruct (q_buf q); reflexivity.
Qed.

Lemma settle_st_ids s : ids (fst (settle s)) = ids s.
Proof. unfold settle, ids. pose proof (settle_ids (reqs s)) as H. destruct (settle_list (reqs s)) as [l r]. exact H. Qed.

Lemma settle_pending s : pending (fst (settle s)) = pending s.
Proof. unfold settle. destruct (settle_list (reqs s)) as [l r]. reflexivity. Qed.

Lemma admit_m_ids c mu : forall fuel s acc racc, ids (fst (fst (admit_m fuel c mu s acc racc))) = ids s.
Proof.
  induction fuel as [|f IH]; intros s acc racc; cbn [admit_m]; [reflexivity|].
  destruct (held s <? nstart c); [|reflexivity].
  destruct (first_waiting (reqs s)) as [q|]; [|reflexivity].
  destruct (has_mid mu (pending s) (mid_of mu (q_id q))); rewrite IH; unfold ids; cbn [reqs]; apply set_status_ids; reflexivity.
Qed.

(* ---------- admission only appends to the pending table ---------- *)

Lemma admit_m_pending c mu : forall fuel s acc racc,
  exists l, pending (fst (fst (admit_m fuel c mu s acc racc))) = pending s ++ l.
Proof.
  induction fuel as [|f IH]; intros s acc racc; cbn [admit_m]; [exists []; symmetry; apply app_nil_r|].
  destruct (held s <? nstart c); [|exists []; symmetry; apply app_nil_r].
  destruct (first_waiting (reqs s)) as [q|]; [|exists []; symmetry; apply app_nil_r].
  destruct (has_mid mu (pending s) (mid_of mu (q_id q))).
  - match goal with |- context [admit_m f c mu ?s1 ?a ?r] => destruct (IH s1 a r) as [l Hl] end.
    exists l. rewrite Hl. reflexivity.
  - match goal with |- context [admit_m f c mu ?s1 ?a ?r] => destruct (IH s1 a r) as [l Hl] end.
    eexists. rewrite Hl. cbn [pending]. rewrite <- app_assoc. reflexivity.
Qed.

(* a request that is not waiting for its slot is left alone by the admission of others (ids distinct) *)
Lemma in_set_status_other l id f q : In q l -> q_id q <> id -> In q (set_status l id f).
Proof.
  intros Hin Hne. unfold set_status. apply in_map_iff. exists q. split; [|exact Hin].
  apply Z.eqb_neq in Hne. rewrite Hne. reflexivity.
Qed.

Lemma waiting_other_id l q w : NoDup (map q_id l) -> In q l -> is_wait_slot (q_st q) = false ->
  first_waiting l = Some w -> q_id q <> q_id w.
Proof.
  intros Hn Hq Hs Fw E. destruct (first_waiting_in _ _ Fw) as [Hw Hws].
  assert (q = w) by (eapply nodup_map_inj; eauto). subst. congruence.
Qed.

Lemma admit_m_keeps c mu qa : forall fuel s acc racc,
  NoDup (ids s) -> In qa (reqs s) -> is_wait_slot (q_st qa) = false ->
  In qa (reqs (fst (fst (admit_m fuel c mu s acc racc)))).
Proof.
  induction fuel as [|f IH]; intros s acc racc Hn Hin Hs; cbn [admit_m]; [exact Hin|].
  destruct (held s <? nstart c); [|exact Hin].
  destruct (first_waiting (reqs s)) as [q|] eqn:Fw; [|exact Hin].
  pose proof (waiting_other_id _ _ _ Hn Hin Hs Fw) as Hne.
  destruct (has_mid mu (pending s) (mid_of mu (q_id q))); apply IH; try exact Hs;
    try (unfold ids; cbn [reqs]; rewrite set_status_ids; [exact Hn|reflexivity]);
    cbn [reqs]; apply in_set_status_other; assumption.
Qed.

(* ---------- well-formed states ---------- *)

(* every pending entry belongs to a request that is waiting for its acknowledgement *)
Definition owned (s : st) : Prop :=
  forall p, In p (pending s) -> exists q, In q (reqs s) /\ q_id q = p_id p /\ q_st q = WaitAck.

(* distinct request ids; entries owned; at most one entry per message ID *)
Record wf (mu : list (Z * Z)) (s : st) : Prop := {
  wf_ids : NoDup (ids s);
  wf_own : owned s;
  wf_key : NoDup (map (key mu) (pending s))
}.

Lemma in_set_status_fwd l id f q : In q l -> In (if q_id q =? id then f q else q) (set_status l id f).
Proof. intros H. unfold set_status. apply in_map_iff. eauto. Qed.

Lemma owned_no_entry_for_waiter s q : NoDup (ids s) -> owned s -> In q (reqs s) -> is_wait_slot (q_st q) = true ->
  has_pend (pending s) (q_id q) = false.
Proof.
  intros Hn Ho Hq Hw. destruct (has_pend (pending s) (q_id q)) eqn:E; [|reflexivity].
  apply has_pend_in in E. destruct E as (p & Hp & Ep). destruct (Ho p Hp) as (q' & Hq' & Eq' & Sq').
  assert (q' = q) by (eapply nodup_map_inj; eauto; congruence). subst. rewrite Sq' in Hw. discriminate.
Qed.

Lemma wf_admit_yes mu s q : wf mu s -> first_waiting (reqs s) = Some q ->
  has_mid mu (pending s) (mid_of mu (q_id q)) = false ->
  wf mu {| reqs := set_status (reqs s) (q_id q) (fun x => with_st x WaitAck);
           pending := pending s ++ [{| p_id := q_id q; p_elapsed := 0; p_dl := q_dl q; p_count := 0 |}] |}.
Proof.
  intros [Hn Ho Hk] Fw Hm. destruct (first_waiting_in _ _ Fw) as [Hin Hw]. constructor.
  - unfold ids. cbn [reqs]. rewrite set_status_ids; [exact Hn|reflexivity].
  - intros p Hp. cbn [pending reqs] in *. apply in_app_or in Hp. destruct Hp as [Hp|[<-|[]]].
    + destruct (Ho p Hp) as (q1 & Hq1 & Hid & Hst).
      exists (if q_id q1 =? q_id q then with_st q1 WaitAck else q1).
      split; [exact (in_set_status_fwd _ (q_id q) (fun x => with_st x WaitAck) q1 Hq1)|].
      destruct (q_id q1 =? q_id q); cbn; auto.
    + exists (with_st q WaitAck). split; [|cbn; auto].
      pose proof (in_set_status_fwd _ (q_id q) (fun x => with_st x WaitAck) q Hin) as HI. rewrite Z.eqb_refl in HI. exact HI.
  - cbn [pending]. rewrite map_app. cbn [map]. apply NoDup_app_one; [exact Hk|].
    intros Hin'. apply in_map_iff in Hin'. destruct Hin' as (p & Ep & Hp).
    apply (has_mid_false_in mu _ _ p Hm Hp). exact Ep.
Qed.

Lemma wf_admit_no mu s q : wf mu s -> first_waiting (reqs s) = Some q ->
  wf mu {| reqs := set_status (reqs s) (q_id q) (fun x => with_st x (Done 3)); pending := pending s |}.
Proof.
  intros [Hn Ho Hk] Fw. destruct (first_waiting_in _ _ Fw) as [Hin Hw]. constructor.
  - unfold ids. cbn [reqs]. rewrite set_status_ids; [exact Hn|reflexivity].
  - intros p Hp. cbn [pending reqs] in *. destruct (Ho p Hp) as (q1 & Hq1 & Hid & Hst).
    exists q1. split; [|auto]. apply in_set_status_other; [exact Hq1|].
    apply (waiting_other_id (reqs s)); auto. rewrite Hst. reflexivity.
  - exact Hk.
Qed.

Lemma wf_admit_m c mu : forall fuel s acc racc, wf mu s -> wf mu (fst (fst (admit_m fuel c mu s acc racc))).
Proof.
  induction fuel as [|f IH]; intros s acc racc H; cbn [admit_m]; [exact H|].
  destruct (held s <? nstart c); [|exact H].
  destruct (first_waiting (reqs s)) as [q|] eqn:Fw; [|exact H].
  destruct (has_mid mu (pending s) (mid_of mu (q_id q))) eqn:Hm; apply IH.
  - apply wf_admit_no; assumption.
  - apply wf_admit_yes; assumption.
Qed.

Lemma in_del_pend l id p : In p (del_pend l id) -> In p l /\ p_id p <> id.
Proof.
  unfold del_pend. intros H. apply filter_In in H. destruct H as [H1 H2]. split; [exact H1|].
  apply negb_true_iff in H2. apply Z.eqb_neq in H2. exact H2.
Qed.

Lemma wf_wake mu s j : wf mu s -> wf mu (wake s j).
Proof.
  intros [Hn Ho Hk]. constructor.
  - rewrite wake_ids. exact Hn.
  - unfold wake. destruct (has_pend (pending s) j); [|exact Ho].
    intros p Hp. cbn [pending reqs] in *. apply in_del_pend in Hp. destruct Hp as [Hp Hne].
    destruct (Ho p Hp) as (q & Hq & Hid & Hst). exists q. split; [|auto].
    apply in_set_status_other; [exact Hq|congruence].
  - unfold wake. destruct (has_pend (pending s) j); [|exact Hk]. cbn [pending]. apply nodup_map_filter. exact Hk.
Qed.

Lemma wf_wake_mid mu s id : wf mu s -> wf mu (wake_mid mu s id).
Proof. intros H. destruct (wake_mid_cases mu s id) as [->|[j ->]]; [exact H|apply wf_wake; exact H]. Qed.

Lemma wf_deliver mu s i cd : wf mu s -> wf mu (deliver s i cd).
Proof.
  intros [Hn Ho Hk]. constructor; [rewrite deliver_ids; exact Hn| |exact Hk].
  intros p Hp. cbn [deliver pending reqs] in *. destruct (Ho p Hp) as (q & Hq & Hid & Hst).
  set (f := fun q0 => if is_done (q_st q0) then q0 else match q_buf q0 with Some _ => q0 | None => with_buf q0 cd end).
  exists (if q_id q =? i then f q else q). split; [exact (in_set_status_fwd _ i f q Hq)|].
  destruct (q_id q =? i); [|auto]. unfold f. rewrite Hst. cbn [is_done]. destruct (q_buf q); cbn; auto.
Qed.

Lemma settle_list_keeps_ack l : forall q, In q l -> q_st q = WaitAck -> In q (fst (settle_list l)).
Proof.
  intros q Hin Hst. rewrite settle_list_map. apply in_map_iff. exists q. split; [|exact Hin].
  unfold settle_rq. rewrite Hst. reflexivity.
Qed.

Lemma wf_settle mu s : wf mu s -> wf mu (fst (settle s)).
Proof.
  intros [Hn Ho Hk]. constructor; [rewrite settle_st_ids; exact Hn| |rewrite settle_pending; exact Hk].
  intros p Hp. rewrite settle_pending in Hp. destruct (Ho p Hp) as (q & Hq & Hid & Hst).
  exists q. split; [|auto]. unfold settle. pose proof (settle_list_keeps_ack _ q Hq Hst) as K.
  destruct (settle_list (reqs s)) as [l r]. exact K.
Qed.

Lemma tick_all_in c : forall l p', In p' (fst (tick_all c l)) -> exists p b, In p l /\ tick_entry c p = (Some p', b).
Proof.
  induction l as [|p r IH]; intros p' H; cbn [tick_all] in H; [contradiction|].
  destruct (tick_all c r) as [r' e'] eqn:Er. destruct (tick_entry c p) as [[p1|] b] eqn:Et.
  - destruct b; cbn [fst] in H; (destruct H as [<-|H]; [exists p; eexists; split; [left; reflexivity|exact Et]|]);
      destruct (IH p' H) as (p0 & b0 & Hin & He); exists p0, b0; split; auto; right; exact Hin.
  - destruct b; cbn [fst] in H; destruct (IH p' H) as (p0 & b0 & Hin & He); exists p0, b0; (split; auto); right; exact Hin.
Qed.

Lemma tick_all_keys c mu : forall l, NoDup (map (key mu) l) -> NoDup (map (key mu) (fst (tick_all c l))).
Proof.
  induction l as [|p r IH]; intros Hn; cbn [tick_all]; [constructor|]. cbn [map] in Hn. inversion Hn as [|? ? Ha Hl]; subst.
  specialize (IH Hl). pose proof (tick_all_in c r) as Tin.
  destruct (tick_all c r) as [r' e']. cbn [fst] in *.
  assert (Hsub : forall x, In x (map (key mu) r') -> In x (map (key mu) r)).
  { intros x Hx. apply in_map_iff in Hx. destruct Hx as (p' & <- & Hp'). destruct (Tin p' Hp') as (p0 & b0 & Hin & He).
    destruct (tick_entry_keep _ _ _ _ He) as [Hid _]. unfold key. rewrite Hid. apply in_map_iff. exists p0. split; [reflexivity|exact Hin]. }
  destruct (tick_entry c p) as [[p'|] b] eqn:E.
  - destruct (tick_entry_keep _ _ _ _ E) as [Hid _].
    assert (K : key mu p' = key mu p) by (unfold key; rewrite Hid; reflexivity).
    destruct b; cbn [fst map]; rewrite K; (constructor; [intros H; apply Ha; apply Hsub; exact H|exact IH]).
  - destruct b; cbn [fst]; exact IH.
Qed.

Lemma wf_tick c mu s : wf mu s -> wf mu {| reqs := reqs s; pending := fst (tick_all c (pending s)) |}.
Proof.
  intros [Hn Ho Hk]. constructor; [exact Hn| |cbn [pending]; apply tick_all_keys; exact Hk].
  intros p Hp. cbn [pending reqs] in *. destruct (tick_all_in c _ _ Hp) as (p0 & b & Hin & He).
  destruct (tick_entry_keep _ _ _ _ He) as [Hid _]. rewrite Hid. exact (Ho p0 Hin).
Qed.

Lemma wf_age mu s ms : wf mu s -> wf mu {| reqs := reqs s; pending := map (aged ms) (pending s) |}.
Proof.
  intros [Hn Ho Hk]. constructor; [exact Hn| |].
  - intros p Hp. cbn [pending reqs] in *. apply in_map_iff in Hp. destruct Hp as (p0 & <- & Hp0). cbn [aged p_id]. exact (Ho p0 Hp0).
  - cbn [pending]. rewrite map_map. erewrite map_ext; [exact Hk|]. intros p. reflexivity.
Qed.

Lemma wf_cancel mu s id : wf mu s ->
  wf mu {| reqs := set_status (reqs s) id (fun x => with_st x (Done 1)); pending := del_pend (pending s) id |}.
Proof.
  intros [Hn Ho Hk]. constructor.
  - unfold ids. cbn [reqs]. rewrite set_status_ids; [exact Hn|reflexivity].
  - intros p Hp. cbn [pending reqs] in *. apply in_del_pend in Hp. destruct Hp as [Hp Hne].
    destruct (Ho p Hp) as (q & Hq & Hid & Hst). exists q. split; [|auto]. apply in_set_status_other; [exact Hq|congruence].
  - cbn [pending]. unfold del_pend. apply nodup_map_filter. exact Hk.
Qed.

(* a new request with a fresh id; binding its message ID does not change the key of any entry *)
Lemma wf_new mu mu' s id tok dl : wf mu s -> ~ In id (ids s) ->
  (forall j, j <> id -> mid_of mu' j = mid_of mu j) ->
  wf mu' {| reqs := reqs s ++ [{| q_id := id; q_tok := tok; q_dl := dl; q_st := WaitSlot; q_buf := None |}]; pending := pending s |}.
Proof.
  intros [Hn Ho Hk] Hf Hmu. constructor.
  - unfold ids. cbn [reqs]. rewrite map_app. cbn [map q_id]. apply NoDup_app_one; assumption.
  - intros p Hp. cbn [pending reqs] in *. destruct (Ho p Hp) as (q & Hq & Hr). exists q. split; [apply in_or_app; left; exact Hq|exact Hr].
  - cbn [pending]. erewrite map_ext_in; [exact Hk|]. intros p Hp. unfold key. apply Hmu.
    destruct (Ho p Hp) as (q & Hq & Hid & _). intros E. apply Hf. unfold ids. rewrite <- E, <- Hid. apply in_map. exact Hq.
Qed.

Definition fresh (s : st) (e : mev) : Prop := forall i, In i (msend_id e) -> ~ In i (ids s).

Lemma wf_mstep c ms e : wf (mids ms) (base ms) -> fresh (base ms) e ->
  wf (mids (fst (mstep c ms e))) (base (fst (mstep c ms e))).
Proof.
  intros H Hf. destruct ms as [s mu]. cbn [mids base] in *.
  assert (Hadm : forall mu0 s0, wf mu0 s0 -> wf mu0 (fst (fst (admit_all_m c mu0 s0)))) by (intros; apply wf_admit_m; assumption).
  destruct e as [[i tok dl|ms| |i|i|i code|i code pmid|i]|i tok dl m]; cbn [mstep mids base].
  - unfold send_m. match goal with |- context [admit_all_m c mu ?s1] => assert (Q : wf mu s1) end.
    { apply (wf_new mu mu); [exact H|apply Hf; left; reflexivity|reflexivity]. }
    pose proof (Hadm _ _ Q) as G. destruct (admit_all_m c mu _) as [[s2 em] rr]. exact G.
  - cbn [step]. cbn [fst mk mids base]. apply wf_age. exact H.
  - cbn [step]. pose proof (wf_tick c mu s H) as G. destruct (tick_all c (pending s)) as [l em]. exact G.
  - pose proof (wf_settle _ _ (wf_wake_mid mu s i H)) as Q. destruct (settle (wake_mid mu s i)) as [s2 ret]. cbn [fst] in Q.
    pose proof (Hadm _ _ Q) as G. destruct (admit_all_m c mu s2) as [[s3 em] rr]. exact G.
  - pose proof (wf_settle _ _ (wf_wake_mid mu s i H)) as Q. destruct (settle (wake_mid mu s i)) as [s2 ret]. cbn [fst] in Q.
    pose proof (Hadm _ _ Q) as G. destruct (admit_all_m c mu s2) as [[s3 em] rr]. exact G.
  - pose proof (wf_settle _ _ (wf_deliver _ _ i code (wf_wake_mid mu s i H))) as Q.
    destruct (settle (deliver (wake_mid mu s i) i code)) as [s2 ret]. cbn [fst] in Q.
    pose proof (Hadm _ _ Q) as G. destruct (admit_all_m c mu s2) as [[s3 em] rr]. exact G.
  - cbn [step]. pose proof (wf_settle _ _ (wf_deliver _ _ i code H)) as Q. destruct (settle (deliver s i code)) as [s2 ret]. exact Q.
  - destruct (find_rq (reqs s) i) as [q|]; [|exact H]. destruct (is_done (q_st q)); [exact H|].
    pose proof (Hadm _ _ (wf_cancel mu s i H)) as G. destruct (admit_all_m c mu _) as [[s2 em] rr]. exact G.
  - unfold send_m. match goal with |- context [admit_all_m c ?mu1 ?s1] => assert (Q : wf mu1 s1) end.
    { apply (wf_new mu); [exact H|apply Hf; left; reflexivity|]. intros j Hj. apply mid_of_cons_ne. congruence. }
    pose proof (Hadm _ _ Q) as G. destruct (admit_all_m c _ _) as [[s2 em] rr]. exact G.
Qed.

(* ---------- the ids of a state are the ids submitted so far ---------- *)

Lemma admit_all_m_ids c mu s : ids (fst (fst (admit_all_m c mu s))) = ids s.
Proof. apply admit_m_ids. Qed.

Lemma mstep_ids c ms e : ids (base (fst (mstep c ms e))) = ids (base ms) ++ msend_id e.
Proof.
  destruct ms as [s mu].
  assert (Hsend : forall mu0 i tok dl, ids (base (fst (send_m c mu0 s i tok dl))) = ids s ++ [i]).
  { intros mu0 i tok dl. unfold send_m.
    match goal with |- context [admit_all_m c mu0 ?s1] => pose proof (admit_all_m_ids c mu0 s1) as G; destruct (admit_all_m c mu0 s1) as [[s2 em] rr] end.
    cbn [fst mk base] in *. rewrite G. unfold ids. cbn [reqs]. rewrite map_app. reflexivity. }
  destruct e as [[i tok dl|ms| |i|i|i code|i code pmid|i]|i tok dl m]; cbn [mstep mids base msend_id]; rewrite ?app_nil_r.
  - apply Hsend.
  - reflexivity.
  - cbn [step]. destruct (tick_all c (pending s)) as [l em]. reflexivity.
  - pose proof (settle_st_ids (wake_mid mu s i)) as Q. destruct (settle (wake_mid mu s i)) as [s2 ret]. cbn [fst] in Q.
    pose proof (admit_all_m_ids c mu s2) as G. destruct (admit_all_m c mu s2) as [[s3 em] rr]. cbn [fst mk base] in *.
    rewrite G, Q. apply wake_mid_ids.
  - pose proof (settle_st_ids (wake_mid mu s i)) as Q. destruct (settle (wake_mid mu s i)) as [s2 ret]. cbn [fst] in Q.
    pose proof (admit_all_m_ids c mu s2) as G. destruct (admit_all_m c mu s2) as [[s3 em] rr]. cbn [fst mk base] in *.
    rewrite G, Q. apply wake_mid_ids.
  - pose proof (settle_st_ids (deliver (wake_mid mu s i) i code)) as Q. destruct (settle (deliver (wake_mid mu s i) i code)) as [s2 ret]. cbn [fst] in Q.
    pose proof (admit_all_m_ids c mu s2) as G. destruct (admit_all_m c mu s2) as [[s3 em] rr]. cbn [fst mk base] in *.
    rewrite G, Q, deliver_ids. apply wake_mid_ids.
  - cbn [step]. pose proof (settle_st_ids (deliver s i code)) as Q. destruct (settle (deliver s i code)) as [s2 ret]. cbn [fst mk base] in *.
    rewrite Q. apply deliver_ids.
  - destruct (find_rq (reqs s) i) as [q|]; [|reflexivity]. destruct (is_done (q_st q)); [reflexivity|].
    match goal with |- context [admit_all_m c mu ?s1] => pose proof (admit_all_m_ids c mu s1) as G; destruct (admit_all_m c mu s1) as [[s2 em] rr] end.
    cbn [fst mk base] in *. rewrite G. unfold ids. cbn [reqs]. apply set_status_ids. reflexivity.
  - apply Hsend.
Qed.

Lemma mfinal_ids c : forall evs ms, ids (base (mfinal c ms evs)) = ids (base ms) ++ msend_ids evs.
Proof.
  induction evs as [|e evs IH]; intros ms; [cbn; symmetry; apply app_nil_r|].
  rewrite mfinal_cons, IH, mstep_ids. cbn [msend_ids]. rewrite app_assoc. reflexivity.
Qed.

Lemma NoDup_app_fresh {A} (l1 l2 l3 : list A) x : NoDup (l1 ++ l2 ++ l3) -> In x l2 -> ~ In x l1.
Proof.
  induction l1 as [|a l1 IH]; intros Hn Hx Hin; [destruct Hin|]. cbn [app] in Hn. inversion Hn as [|? ? Ha Hl]; subst.
  destruct Hin as [->|Hin]; [|exact (IH Hl Hx Hin)].
  apply Ha. apply in_or_app. right. apply in_or_app. left. exact Hx.
Qed.

(* every state reached by a history with distinct request ids is well formed *)
Lemma run_wf c : forall evs ms, wf (mids ms) (base ms) -> NoDup (ids (base ms) ++ msend_ids evs) ->
  wf (mids (mfinal c ms evs)) (base (mfinal c ms evs)).
Proof.
  induction evs as [|e evs IH]; intros ms H Hn; [exact H|]. rewrite mfinal_cons. cbn [msend_ids] in Hn. apply IH.
  - apply wf_mstep; [exact H|]. intros i Hi. eapply NoDup_app_fresh; eauto.
  - rewrite mstep_ids, <- app_assoc. exact Hn.
Qed.

Lemma wf_init : wf [] init.
Proof. constructor; cbn; try constructor. intros p []. Qed.

(* THEOREM (structure of the pending table): after ANY history with distinct request ids - application-chosen
   message IDs, collisions, every interleaving of ticks, ACKs, resets, responses and cancellations - the
   pending table holds at most one entry per message ID, and every entry belongs to a request whose call
   is waiting for the acknowledgement *)
Theorem mid_table_keyed : forall c evs, NoDup (msend_ids evs) ->
  let ms := mfinal c minit evs in
  NoDup (map (key (mids ms)) (pending (base ms))) /\ owned (base ms) /\ ids (base ms) = msend_ids evs.
Proof.
  intros c evs Hn ms. assert (W : wf (mids ms) (base ms)) by (apply run_wf; [exact wf_init|exact Hn]).
  destruct W as [W1 W2 W3]. repeat split; [exact W3|exact W2|]. unfold ms. rewrite mfinal_ids. reflexivity.
Qed.

(* ---------- a call never disturbs the entries that are already in the table ---------- *)

(* THEOREM: whatever the state, a new call (message ID from the counter or chosen by the application,
   colliding or not, admitted at once, queued or refused) leaves every entry of the pending table in place
   and unchanged - elapsed time, deadline, retransmission count: the table only grows at its end *)
Theorem send_keeps_table : forall c ms e, is_msend e ->
  exists l, pending (base (fst (mstep c ms e))) = pending (base ms) ++ l.
Proof.
  intros c [s mu] e He.
  assert (Hs : forall mu0 i tok dl, exists l, pending (base (fst (send_m c mu0 s i tok dl))) = pending s ++ l).
  { intros mu0 i tok dl. unfold send_m, admit_all_m.
    match goal with |- context [admit_m ?f c mu0 ?s1 [] []] => destruct (admit_m_pending c mu0 f s1 [] []) as [l Hl]; destruct (admit_m f c mu0 s1 [] []) as [[s2 em] rr] end.
    exists l. exact Hl. }
  destruct e as [[i tok dl|ms| |i|i|i code|i code pmid|i]|i tok dl m]; cbn [is_msend] in He; try contradiction; cbn [mstep mids base]; apply Hs.
Qed.

Lemma first_waiting_none_app l q : first_waiting l = None -> first_waiting (l ++ [q]) = if is_wait_slot (q_st q) then Some q else None.
Proof.
  induction l as [|x r IH]; cbn [app first_waiting]; [intros _; destruct (is_wait_slot (q_st q)); reflexivity|].
  destruct (is_wait_slot (q_st x)); [discriminate|exact IH].
Qed.

Lemma set_status_fresh l id f : ~ In id (map q_id l) -> set_status l id f = l.
Proof.
  unfold set_status. induction l as [|x r IH]; intros H; [reflexivity|]. cbn [map] in *.
  destruct (Z.eqb_spec (q_id x) id) as [E|E]; [exfalso; apply H; left; exact E|].
  rewrite IH; [reflexivity|]. intros Hin. apply H. right. exact Hin.
Qed.

(* THEOREM (the refused call): a call whose message ID is the key of an entry of the table - the ID of a
   request that is still unacknowledged - and which finds a free NSTART slot is refused on the spot: it
   returns result 3, nothing is written, and the pending table is EXACTLY what it was *)
Theorem colliding_send_refused : forall c s mu b tok dl m,
  ~ In b (ids s) -> first_waiting (reqs s) = None -> held s < nstart c ->
  has_mid ((b, m) :: mu) (pending s) m = true ->
  let r := mstep c (mk mu s) (SendM b tok dl m) in
  pending (base (fst r)) = pending s /\ o_emit (snd r) = [] /\ o_ret (snd r) = [(b, 3, 0)] /\
  reqs (base (fst r)) = reqs s ++ [{| q_id := b; q_tok := tok; q_dl := dl; q_st := Done 3; q_buf := None |}].
Proof.
  intros c s mu b tok dl m Hf Hw Hh Hm. cbn [mstep mk mids base]. unfold send_m, admit_all_m.
  set (qb := {| q_id := b; q_tok := tok; q_dl := dl; q_st := WaitSlot; q_buf := None |}).
  cbn [reqs]. cbn [admit_m].
  assert (Hheld : held {| reqs := reqs s ++ [qb]; pending := pending s |} = held s).
  { unfold held. cbn [reqs]. rewrite filter_app. cbn [filter qb q_st is_wait_ack]. rewrite app_nil_r. reflexivity. }
  rewrite Hheld. destruct (Z.ltb_spec (held s) (nstart c)) as [_|]; [|lia].
  cbn [reqs pending]. rewrite (first_waiting_none_app _ qb Hw). cbn [qb q_st is_wait_slot q_id].
  assert (Em : mid_of ((b, m) :: mu) b = m) by (cbn [mid_of]; rewrite Z.eqb_refl; reflexivity).
  rewrite Em, Hm.
  assert (Er : set_status (reqs s ++ [qb]) b (fun x => with_st x (Done 3)) = reqs s ++ [with_st qb (Done 3)]).
  { unfold set_status. rewrite map_app. fold (set_status (reqs s) b (fun x => with_st x (Done 3))).
    rewrite (set_status_fresh _ _ _ Hf). cbn [map qb q_id]. rewrite Z.eqb_refl. reflexivity. }
  rewrite Er.
  assert (Fn : first_waiting (reqs s ++ [with_st qb (Done 3)]) = None) by (rewrite (first_waiting_none_app _ _ Hw); reflexivity).
  destruct (length (reqs s ++ [qb])) as [|n]; cbn [admit_m]; [cbn; auto|].
  cbn [reqs]. rewrite Fn.
  destruct (held _ <? nstart c); cbn; auto.
Qed.

(* ---------- a pending request is answered whatever else is issued meanwhile ---------- *)

(* request a is waiting for its acknowledgement, nothing buffered, its entry in the table *)
Definition pending_wait (s : st) (a : Z) : Prop :=
  (exists q, In q (reqs s) /\ q_id q = a /\ q_st q = WaitAck /\ q_buf q = None) /\ has_pend (pending s) a = true.

Lemma send_keeps_pending_wait c ms e a : wf (mids ms) (base ms) -> fresh (base ms) e -> is_msend e ->
  pending_wait (base ms) a -> pending_wait (base (fst (mstep c ms e))) a.
Proof.
  intros H Hf He [(q & Hq & Hid & Hst & Hb) Hp]. destruct ms as [s mu]. cbn [mids base] in *.
  assert (Hs : forall mu0 i tok dl, ~ In i (ids s) -> pending_wait (base (fst (send_m c mu0 s i tok dl))) a).
  { intros mu0 i tok dl Hi. unfold send_m, admit_all_m.
    set (s1 := {| reqs := reqs s ++ [{| q_id := i; q_tok := tok; q_dl := dl; q_st := WaitSlot; q_buf := None |}]; pending := pending s |}).
    assert (N1 : NoDup (ids s1)).
    { unfold ids, s1. cbn [reqs]. rewrite map_app. cbn [map q_id]. apply NoDup_app_one; [apply (wf_ids _ _ H)|exact Hi]. }
    assert (I1 : In q (reqs s1)) by (unfold s1; cbn [reqs]; apply in_or_app; left; exact Hq).
    assert (S1 : is_wait_slot (q_st q) = false) by (rewrite Hst; reflexivity).
    pose proof (admit_m_keeps c mu0 q (S (length (reqs s1))) s1 [] [] N1 I1 S1) as K.
    destruct (admit_m_pending c mu0 (S (length (reqs s1))) s1 [] []) as [l Hl].
    destruct (admit_m (S (length (reqs s1))) c mu0 s1 [] []) as [[s2 em] rr]. cbn [fst mk base] in *.
    split; [exists q; auto|]. rewrite Hl. unfold s1. cbn [pending]. rewrite has_pend_app, Hp. reflexivity. }
  destruct e as [[i tok dl|ms| |i|i|i code|i code pmid|i]|i tok dl m]; cbn [is_msend] in He; try contradiction; cbn [mstep mids base];
    apply Hs; apply Hf; left; reflexivity.
Qed.

Lemma step_piggy_ret c s i cd : o_ret (snd (step c s (Piggy i cd))) = snd (settle (deliver (wake s i) i cd)).
Proof. cbn [step]. destruct (settle (deliver (wake s i) i cd)) as [s2 ret]. destruct (admit_all c s2) as [s3 em]. reflexivity. Qed.

(* under unique keys, the message carrying a's ID reaches a's own entry *)
Lemma wake_mid_own mu s a : NoDup (map (key mu) (pending s)) -> has_pend (pending s) a = true -> wake_mid mu s a = wake s a.
Proof.
  intros Hk Hp. apply has_pend_in in Hp. destruct Hp as (p0 & Hp0 & E0). unfold wake_mid.
  destruct (find_mid mu (pending s) (mid_of mu a)) as [p|] eqn:F.
  - apply find_mid_some in F. destruct F as [Hp Kp].
    assert (p = p0). { apply (nodup_map_inj (key mu) (pending s)); auto. rewrite Kp. unfold key. rewrite E0. reflexivity. }
    subst p. rewrite E0. reflexivity.
  - apply find_mid_none in F. exfalso. apply (has_mid_false_in mu _ _ p0 F Hp0). unfold key. rewrite E0. reflexivity.
Qed.

Lemma piggy_answers c mu s a code : wf mu s -> pending_wait s a ->
  In (a, 0, code) (o_ret (snd (mstep c (mk mu s) (Base (Piggy a code))))).
Proof.
  intros H [(q & Hq & Hid & Hst & Hb) Hp]. cbn [mstep mk mids base].
  rewrite (wake_mid_own mu s a (wf_key _ _ H) Hp).
  pose proof (piggy_succeeds c s a code q Hq Hid Hst Hb Hp) as R. rewrite step_piggy_ret in R.
  destruct (settle (deliver (wake s a) a code)) as [s2 ret]. cbn [snd] in R.
  destruct (admit_all_m c mu s2) as [[s3 em] rr]. cbn [snd o_ret]. apply in_or_app. left. exact R.
Qed.

Definition all_msend (evs : list mev) : Prop := Forall is_msend evs.

(* THEOREM (the success clause survives message-ID collisions): take ANY history pre with distinct request
   ids after which request a is pending (call waiting for the acknowledgement, entry in the table).  Let
   any number of further calls be issued - message IDs from the counter or chosen by the application, the
   ID of a itself included: those are refused.  A piggybacked response for a that arrives then is returned
   by a's call: the copy that reached the peer and the matching response that got back in time make the
   request succeed with that response. *)
Theorem pending_request_answered : forall c pre sends a code,
  NoDup (msend_ids (pre ++ sends)) -> all_msend sends ->
  pending_wait (base (mfinal c minit pre)) a ->
  In (a, 0, code) (o_ret (snd (mstep c (mfinal c minit (pre ++ sends)) (Base (Piggy a code))))).
Proof.
  intros c pre sends a code Hn Hs Hp.
  assert (G : forall evs ms, wf (mids ms) (base ms) -> NoDup (ids (base ms) ++ msend_ids evs) -> all_msend evs ->
            pending_wait (base ms) a ->
            wf (mids (mfinal c ms evs)) (base (mfinal c ms evs)) /\ pending_wait (base (mfinal c ms evs)) a).
  { induction evs as [|e evs IH]; intros ms W N A P; [split; assumption|].
    rewrite mfinal_cons. inversion A as [|? ? He Hr]; subst. cbn [msend_ids] in N.
    assert (F : fresh (base ms) e) by (intros i Hi; eapply NoDup_app_fresh; eauto).
    apply IH; [apply wf_mstep; assumption|rewrite mstep_ids, <- app_assoc; exact N|exact Hr|apply send_keeps_pending_wait; assumption]. }
  assert (Nm : forall evs1 evs2, msend_ids (evs1 ++ evs2) = msend_ids evs1 ++ msend_ids evs2).
  { induction evs1 as [|e r IH]; intros evs2; [reflexivity|]. cbn [app msend_ids]. rewrite IH, app_assoc. reflexivity. }
  rewrite Nm in Hn.
  assert (W0 : wf (mids (mfinal c minit pre)) (base (mfinal c minit pre))).
  { apply run_wf; [exact wf_init|]. cbn. apply NoDup_app_l in Hn. exact Hn. }
  rewrite mfinal_app.
  destruct (G sends (mfinal c minit pre) W0) as [W P]; [rewrite mfinal_ids; exact Hn|exact Hs|exact Hp|].
  destruct (mfinal c (mfinal c minit pre) sends) as [s mu]. apply piggy_answers; assumption.
Qed.

(* ---------- without application-chosen message IDs the model is Retx/Model.v ---------- *)

Lemma admit_m_nil c : forall fuel s acc racc, wf [] s ->
  admit_m fuel c [] s acc racc = (admit_waiters fuel c s acc, racc).
Proof.
  induction fuel as [|f IH]; intros s acc racc H; cbn [admit_m admit_waiters]; [reflexivity|].
  destruct (held s <? nstart c); [|reflexivity].
  destruct (first_waiting (reqs s)) as [q|] eqn:Fw; [|reflexivity].
  destruct (first_waiting_in _ _ Fw) as [Hin Hw].
  assert (Hm : has_mid [] (pending s) (mid_of [] (q_id q)) = false).
  { cbn [mid_of]. rewrite has_mid_nil_pend. apply owned_no_entry_for_waiter; [apply (wf_ids _ _ H)|apply (wf_own _ _ H)|exact Hin|exact Hw]. }
  rewrite Hm. apply IH. apply wf_admit_yes; assumption.
Qed.

Lemma admit_all_m_nil c s : wf [] s -> admit_all_m c [] s = (admit_all c s, []).
Proof. intros H. unfold admit_all_m, admit_all. apply admit_m_nil. exact H. Qed.

Lemma mstep_base_nil c s e : wf [] s -> fresh s (Base e) ->
  mstep c (mk [] s) (Base e) = (mk [] (fst (step c s e)), snd (step c s e)).
Proof.
  intros H Hf.
  destruct e as [i tok dl|ms| |i|i|i code|i code pmid|i]; cbn [mstep mk mids base].
  - unfold send_m. cbn [step].
    match goal with |- context [admit_all_m c [] ?s1] => assert (Q : wf [] s1) end.
    { apply (wf_new [] []); [exact H|apply Hf; left; reflexivity|reflexivity]. }
    rewrite (admit_all_m_nil c _ Q). destruct (admit_all c _) as [s2 em]. reflexivity.
  - destruct (step c s (Age ms)) as [s1 o]. reflexivity.
  - destruct (step c s Tick) as [s1 o]. reflexivity.
  - rewrite wake_mid_nil. cbn [step]. pose proof (wf_settle _ _ (wf_wake [] s i H)) as Q.
    destruct (settle (wake s i)) as [s2 ret]. cbn [fst] in Q. rewrite (admit_all_m_nil c _ Q).
    destruct (admit_all c s2) as [s3 em]. rewrite app_nil_r. reflexivity.
  - rewrite wake_mid_nil. cbn [step]. pose proof (wf_settle _ _ (wf_wake [] s i H)) as Q.
    destruct (settle (wake s i)) as [s2 ret]. cbn [fst] in Q. rewrite (admit_all_m_nil c _ Q).
    destruct (admit_all c s2) as [s3 em]. rewrite app_nil_r. reflexivity.
  - rewrite wake_mid_nil. cbn [step]. pose proof (wf_settle _ _ (wf_deliver _ _ i code (wf_wake [] s i H))) as Q.
    destruct (settle (deliver (wake s i) i code)) as [s2 ret]. cbn [fst] in Q. rewrite (admit_all_m_nil c _ Q).
    destruct (admit_all c s2) as [s3 em]. rewrite app_nil_r. reflexivity.
  - destruct (step c s (Sep i code pmid)) as [s1 o]. reflexivity.
  - cbn [step]. destruct (find_rq (reqs s) i) as [q|]; [|reflexivity]. destruct (is_done (q_st q)); [reflexivity|].
    rewrite (admit_all_m_nil c _ (wf_cancel [] s i H)). destruct (admit_all c _) as [s2 em]. reflexivity.
Qed.

Lemma msend_ids_base evs : msend_ids (map Base evs) = send_ids evs.
Proof.
  induction evs as [|e evs IH]; [reflexivity|]. cbn [map msend_ids send_ids].
  destruct e; cbn [msend_id app]; rewrite IH; reflexivity.
Qed.

(* THEOREM: on every history with distinct request ids and no application-chosen message ID, the
   message-ID keyed model emits and returns exactly what Retx/Model.v does, state by state.  Every theorem
   of Retx/Proofs.v and Retx/ProofsCount.v is therefore a theorem about it. *)
Theorem mid_refines_base : forall c evs, NoDup (send_ids evs) ->
  mouts c minit (map Base evs) = outs c init evs /\ mfinal c minit (map Base evs) = mk [] (final c init evs).
Proof.
  intros c evs Hn.
  assert (G : forall evs s, wf [] s -> NoDup (ids s ++ send_ids evs) ->
            mrun c (mk [] s) (map Base evs) = (mk [] (fst (run c s evs)), snd (run c s evs))).
  { clear. induction evs as [|e evs IH]; intros s W N; [reflexivity|]. cbn [map mrun run send_ids].
    assert (F : fresh s (Base e)).
    { intros i Hi. assert (E : msend_id (Base e) ++ msend_ids (map Base evs) = send_ids (e :: evs)) by (rewrite msend_ids_base; destruct e; reflexivity).
      rewrite <- E in N. eapply NoDup_app_fresh; eauto. }
    rewrite (mstep_base_nil c s e W F).
    pose proof (wf_mstep c (mk [] s) (Base e) W F) as W1. pose proof (mstep_ids c (mk [] s) (Base e)) as I1.
    rewrite (mstep_base_nil c s e W F) in W1, I1. cbn [fst mk mids base] in W1, I1.
    destruct (step c s e) as [s1 o]. cbn [fst snd] in *.
    rewrite IH; [destruct (run c s1 evs); reflexivity|exact W1|].
    rewrite I1, <- app_assoc.
    assert (E : msend_id (Base e) ++ send_ids evs = send_ids (e :: evs)) by (destruct e; reflexivity).
    rewrite E. exact N. }
  specialize (G evs init wf_init Hn). unfold mouts, mfinal, outs, final, minit. fold (mk [] init). rewrite G. split; reflexivity.
Qed.

(* ================================================================================================== *)
(* The theorems of Retx/Proofs.v and Retx/ProofsCount.v over ALL histories of the message-ID keyed model *)

(* ---------- (B) the retransmission counter never exceeds MAX_RETRANSMIT ---------- *)

Lemma admit_m_inv_count c mu : 0 <= max_rt c -> forall fuel s acc racc, inv_count c s -> inv_count c (fst (fst (admit_m fuel c mu s acc racc))).
Proof.
  intros Hm. induction fuel as [|f IH]; intros s acc racc H; cbn [admit_m]; [exact H|].
  destruct (held s <? nstart c); [|exact H].
  destruct (first_waiting (reqs s)) as [q|]; [|exact H].
  destruct (has_mid mu (pending s) (mid_of mu (q_id q))); apply IH; [exact H|].
  unfold inv_count in *. cbn [pending]. apply Forall_app; split; [exact H|].
  constructor; [|constructor]. unfold pend_ok; cbn; lia.
Qed.

Lemma wake_inv_count c s j : inv_count c s -> inv_count c (wake s j).
Proof.
  intros H. unfold wake. destruct (has_pend (pending s) j); [|exact H].
  unfold inv_count, del_pend; cbn [pending]. apply filter_Forall; exact H.
Qed.

Lemma wake_mid_inv_count c mu s i : inv_count c s -> inv_count c (wake_mid mu s i).
Proof. intros H. destruct (wake_mid_cases mu s i) as [->|[j ->]]; [exact H|apply wake_inv_count; exact H]. Qed.

Lemma mstep_inv_count c ms e : 0 <= max_rt c -> inv_count c (base ms) -> inv_count c (base (fst (mstep c ms e))).
Proof.
  intros Hm H. destruct ms as [s mu]. cbn [base] in H.
  assert (Hadm : forall mu0 s0, inv_count c s0 -> inv_count c (fst (fst (admit_all_m c mu0 s0)))) by (intros; apply admit_m_inv_count; assumption).
  assert (Hset : forall s0, inv_count c s0 -> inv_count c (fst (settle s0))).
  { intros s0 H0. unfold inv_count. rewrite settle_pending. exact H0. }
  destruct e as [[i tok dl|ms| |i|i|i code|i code pmid|i]|i tok dl m]; cbn [mstep mids base].
  - unfold send_m. match goal with |- context [admit_all_m c mu ?s1] => pose proof (Hadm mu s1 H) as G; destruct (admit_all_m c mu s1) as [[s2 em] rr] end. exact G.
  - pose proof (step_inv_count c s (Age ms) Hm H) as G. destruct (step c s (Age ms)) as [s1 o]. exact G.
  - pose proof (step_inv_count c s Tick Hm H) as G. destruct (step c s Tick) as [s1 o]. exact G.
  - pose proof (Hset _ (wake_mid_inv_count c mu s i H)) as Q. destruct (settle (wake_mid mu s i)) as [s2 ret]. cbn [fst] in Q.
    pose proof (Hadm mu s2 Q) as G. destruct (admit_all_m c mu s2) as [[s3 em] rr]. exact G.
  - pose proof (Hset _ (wake_mid_inv_count c mu s i H)) as Q. destruct (settle (wake_mid mu s i)) as [s2 ret]. cbn [fst] in Q.
    pose proof (Hadm mu s2 Q) as G. destruct (admit_all_m c mu s2) as [[s3 em] rr]. exact G.
  - assert (D : inv_count c (deliver (wake_mid mu s i) i code)) by (unfold inv_count, deliver; cbn [pending]; apply (wake_mid_inv_count c mu s i H)).
    pose proof (Hset _ D) as Q. destruct (settle (deliver (wake_mid mu s i) i code)) as [s2 ret]. cbn [fst] in Q.
    pose proof (Hadm mu s2 Q) as G. destruct (admit_all_m c mu s2) as [[s3 em] rr]. exact G.
  - pose proof (step_inv_count c s (Sep i code pmid) Hm H) as G. destruct (step c s (Sep i code pmid)) as [s1 o]. exact G.
  - destruct (find_rq (reqs s) i) as [q|]; [|exact H]. destruct (is_done (q_st q)); [exact H|].
    match goal with |- context [admit_all_m c mu ?s1] =>
      assert (W : inv_count c s1) by (unfold inv_count, del_pend; cbn [pending]; apply filter_Forall; exact H);
      pose proof (Hadm mu s1 W) as G; destruct (admit_all_m c mu s1) as [[s2 em] rr] end. exact G.
  - unfold send_m. match goal with |- context [admit_all_m c ?mu1 ?s1] => pose proof (Hadm mu1 s1 H) as G; destruct (admit_all_m c mu1 s1) as [[s2 em] rr] end. exact G.
Qed.

Theorem count_bounded_m : forall c evs, 0 <= max_rt c -> inv_count c (base (mfinal c minit evs)).
Proof.
  intros c evs Hm. assert (G : forall ms, inv_count c (base ms) -> inv_count c (base (mfinal c ms evs))).
  { induction evs as [|e evs IH]; intros ms H; [exact H|]. rewrite mfinal_cons. apply IH. apply mstep_inv_count; assumption. }
  apply G. constructor.
Qed.

(* ---------- trace level: the potentials of Retx/ProofsCount.v ---------- *)

Definition mnsend1 (id : Z) (e : mev) : Z :=
  match e with Base (Send i _ _) | SendM i _ _ _ => if i =? id then 1 else 0 | _ => 0 end.
Fixpoint mnsend (id : Z) (evs : list mev) : Z :=
  match evs with [] => 0 | e :: r => mnsend1 id e + mnsend id r end.

Lemma mnsend_notin id evs : ~ In id (msend_ids evs) -> mnsend id evs = 0.
Proof.
  induction evs as [|e evs IH]; intros H; [reflexivity|]. cbn [mnsend msend_ids] in *.
  rewrite IH; [|intros F; apply H; apply in_or_app; right; exact F].
  destruct e as [[i tok dl|ms| |i|i|i code|i code pmid|i]|i tok dl m]; cbn [mnsend1 msend_id] in *; try reflexivity;
    (destruct (Z.eqb_spec i id) as [E|E]; [exfalso; apply H; left; exact E|reflexivity]).
Qed.

Lemma mnsend_nodup id evs : NoDup (msend_ids evs) -> mnsend id evs <= 1.
Proof.
  induction evs as [|e evs IH]; intros H; [cbn; lia|]. cbn [mnsend msend_ids] in *.
  assert (Hr : NoDup (msend_ids evs)).
  { destruct e as [[i tok dl|ms| |i|i|i code|i code pmid|i]|i tok dl m]; cbn [msend_id app] in H; try exact H; inversion H; assumption. }
  specialize (IH Hr).
  destruct e as [[i tok dl|ms| |i|i|i code|i code pmid|i]|i tok dl m]; cbn [mnsend1 msend_id app] in *; try lia;
    (inversion H as [|x l Hx Hl]; subst; destruct (Z.eqb_spec i id) as [E|E]; [subst i; rewrite (mnsend_notin _ _ Hx); lia|lia]).
Qed.

Definition is_mtick (e : mev) : bool := match e with Base Tick => true | _ => false end.
Fixpoint mcnt_sel (sel : mev -> bool) (id : Z) (evs : list mev) (os : list obs) : Z :=
  match evs, os with
  | e :: evs', o :: os' => (if sel e then cnt id (o_emit o) else 0) + mcnt_sel sel id evs' os'
  | _, _ => 0
  end.
Definition mfirsts (id : Z) (evs : list mev) (os : list obs) : Z := mcnt_sel (fun e => negb (is_mtick e)) id evs os.
Definition mresends (id : Z) (evs : list mev) (os : list obs) : Z := mcnt_sel is_mtick id evs os.

Lemma mfirsts_cons c id s e evs :
  mfirsts id (e :: evs) (mouts c s (e :: evs)) =
  (if is_mtick e then 0 else cnt id (o_emit (snd (mstep c s e)))) + mfirsts id evs (mouts c (fst (mstep c s e)) evs).
Proof. rewrite mouts_cons. unfold mfirsts. cbn [mcnt_sel]. destruct (is_mtick e); reflexivity. Qed.
Lemma mresends_cons c id s e evs :
  mresends id (e :: evs) (mouts c s (e :: evs)) =
  (if is_mtick e then cnt id (o_emit (snd (mstep c s e))) else 0) + mresends id evs (mouts c (fst (mstep c s e)) evs).
Proof. rewrite mouts_cons. unfold mresends. cbn [mcnt_sel]. reflexivity. Qed.

Lemma mcopies_split c id : forall evs s,
  cnt_obs id (mouts c s evs) = mfirsts id evs (mouts c s evs) + mresends id evs (mouts c s evs).
Proof.
  induction evs as [|e evs IH]; intros s; [reflexivity|].
  rewrite mfirsts_cons, mresends_cons, mouts_cons. cbn [cnt_obs]. rewrite IH. destruct (is_mtick e); lia.
Qed.

Lemma admit_m_inv c mu id : 0 <= max_rt c -> forall fuel s acc racc a t S,
  inv c id s (a + cnt id acc) t S ->
  inv c id (fst (fst (admit_m fuel c mu s acc racc))) (a + cnt id (snd (fst (admit_m fuel c mu s acc racc)))) t S.
Proof.
  intros Hm. induction fuel as [|f IH]; intros s acc racc a t S H; cbn [admit_m]; [exact H|].
  destruct (held s <? nstart c); [|exact H].
  destruct (first_waiting (reqs s)) as [q|] eqn:Fw; [|exact H].
  destruct (has_mid mu (pending s) (mid_of mu (q_id q))).
  - apply IH. rewrite (st_eta s) in H. apply (inv_reqs c id _ _ _ _ _ H). cbn [reqs].
    apply nwait_set_status_le; [reflexivity|intros x; cbn; discriminate].
  - apply IH. rewrite cnt_app, cnt_one, Z.add_assoc. apply inv_admit_one; assumption.
Qed.

Lemma admit_all_m_inv c mu id s a t S : 0 <= max_rt c -> inv c id s a t S ->
  inv c id (fst (fst (admit_all_m c mu s))) (a + cnt id (snd (fst (admit_all_m c mu s)))) t S.
Proof.
  intros Hm H. unfold admit_all_m. apply admit_m_inv; [exact Hm|]. rewrite cnt_nil, Z.add_0_r. exact H.
Qed.

Lemma wake_mid_inv c mu id s i a t S : inv_count c s -> inv c id s a t S -> inv c id (wake_mid mu s i) a t S.
Proof. intros Hc H. destruct (wake_mid_cases mu s i) as [->|[j ->]]; [exact H|apply wake_inv; assumption]. Qed.

Lemma mstep_inv c id ms e a t S :
  0 <= max_rt c -> inv_count c (base ms) -> inv c id (base ms) a t S ->
  inv c id (base (fst (mstep c ms e)))
      (a + (if is_mtick e then 0 else cnt id (o_emit (snd (mstep c ms e)))))
      (t + (if is_mtick e then cnt id (o_emit (snd (mstep c ms e))) else 0))
      (S + mnsend1 id e).
Proof.
  intros Hm Hc H. destruct ms as [s mu]. cbn [base] in *.
  assert (Hsend : forall mu0 i tok dl,
            inv c id (base (fst (send_m c mu0 s i tok dl))) (a + cnt id (o_emit (snd (send_m c mu0 s i tok dl)))) t (S + (if i =? id then 1 else 0))).
  { intros mu0 i tok dl. unfold send_m.
    match goal with |- context [admit_all_m c mu0 ?s1] => assert (Q : inv c id s1 a t (S + (if i =? id then 1 else 0))) end.
    { destruct H as [I1 I2 I3 I4 I5]. constructor; cbn [reqs pending]; try assumption.
      rewrite nwait_app. cbn [nwait q_id q_st is_wait_slot]. rewrite andb_true_r. destruct (i =? id); lia. }
    pose proof (admit_all_m_inv c mu0 id _ _ _ _ Hm Q) as G. destruct (admit_all_m c mu0 _) as [[s2 em] rr]. exact G. }
  destruct e as [[i tok dl|ms| |i|i|i code|i code pmid|i]|i tok dl m]; cbn [mstep mids base is_mtick mnsend1];
    try rewrite (Z.add_0_r t); try rewrite (Z.add_0_r S).
  - apply Hsend.
  - pose proof (step_inv c id s (Age ms) a t S Hm Hc H) as G. cbn [is_tick nsend1] in G. rewrite (Z.add_0_r t), (Z.add_0_r S) in G.
    destruct (step c s (Age ms)) as [s1 o]. exact G.
  - pose proof (step_inv c id s Tick a t S Hm Hc H) as G. cbn [is_tick nsend1] in G. rewrite (Z.add_0_r S) in G.
    destruct (step c s Tick) as [s1 o]. exact G.
  - pose proof (settle_inv c id _ _ _ _ (wake_mid_inv c mu id s i a t S Hc H)) as Q.
    destruct (settle (wake_mid mu s i)) as [s2 ret]. cbn [fst] in Q.
    pose proof (admit_all_m_inv c mu id _ _ _ _ Hm Q) as G. destruct (admit_all_m c mu s2) as [[s3 em] rr]. exact G.
  - pose proof (settle_inv c id _ _ _ _ (wake_mid_inv c mu id s i a t S Hc H)) as Q.
    destruct (settle (wake_mid mu s i)) as [s2 ret]. cbn [fst] in Q.
    pose proof (admit_all_m_inv c mu id _ _ _ _ Hm Q) as G. destruct (admit_all_m c mu s2) as [[s3 em] rr]. exact G.
  - pose proof (settle_inv c id _ _ _ _ (deliver_inv c id _ i code _ _ _ (wake_mid_inv c mu id s i a t S Hc H))) as Q.
    destruct (settle (deliver (wake_mid mu s i) i code)) as [s2 ret]. cbn [fst] in Q.
    pose proof (admit_all_m_inv c mu id _ _ _ _ Hm Q) as G. destruct (admit_all_m c mu s2) as [[s3 em] rr]. exact G.
  - pose proof (step_inv c id s (Sep i code pmid) a t S Hm Hc H) as G. cbn [is_tick nsend1] in G. rewrite (Z.add_0_r t), (Z.add_0_r S) in G.
    destruct (step c s (Sep i code pmid)) as [s1 o]. exact G.
  - destruct (find_rq (reqs s) i) as [q|]; [|cbn [fst snd o_emit mk base]; rewrite ?cnt_nil, ?Z.add_0_r; exact H].
    destruct (is_done (q_st q)); [cbn [fst snd o_emit mk base]; rewrite ?cnt_nil, ?Z.add_0_r; exact H|].
    match goal with |- context [admit_all_m c mu ?s1] => assert (Q : inv c id s1 a t S) end.
    { unfold del_pend. apply inv_shrink; [exact Hc|exact H|]. apply nwait_set_status_le; [reflexivity|intros x; cbn; discriminate]. }
    pose proof (admit_all_m_inv c mu id _ _ _ _ Hm Q) as G. destruct (admit_all_m c mu _) as [[s2 em] rr]. exact G.
  - apply Hsend.
Qed.

Lemma mrun_inv c id : 0 <= max_rt c -> forall evs ms a t S,
  inv_count c (base ms) -> inv c id (base ms) a t S ->
  inv c id (base (mfinal c ms evs)) (a + mfirsts id evs (mouts c ms evs)) (t + mresends id evs (mouts c ms evs)) (S + mnsend id evs).
Proof.
  intros Hm. induction evs as [|e evs IH]; intros ms a t S Hc H.
  - cbn. rewrite !Z.add_0_r. exact H.
  - rewrite mfinal_cons, mfirsts_cons, mresends_cons. cbn [mnsend]. rewrite !Z.add_assoc.
    apply IH; [apply mstep_inv_count; assumption|apply mstep_inv; assumption].
Qed.

Lemma mreach_inv c id evs : 0 <= max_rt c ->
  inv c id (base (mfinal c minit evs)) (mfirsts id evs (mouts c minit evs)) (mresends id evs (mouts c minit evs)) (mnsend id evs).
Proof. intros Hm. apply (mrun_inv c id Hm evs minit 0 0 0); [constructor|apply inv_init]. Qed.

(* the first transmission happens at most once and not by a Tick; at most MAX_RETRANSMIT re-sends, all by Ticks *)
Theorem first_copy_once_m : forall c evs id,
  0 <= max_rt c -> NoDup (msend_ids evs) ->
  mfirsts id evs (mouts c minit evs) <= 1 /\
  mresends id evs (mouts c minit evs) <= max_rt c * mfirsts id evs (mouts c minit evs) /\
  (0 < cnt_obs id (mouts c minit evs) -> mfirsts id evs (mouts c minit evs) = 1).
Proof.
  intros c evs id Hm Hnd. destruct (mreach_inv c id evs Hm) as [I1 I2 I3 I4 I5].
  pose proof (mnsend_nodup id evs Hnd) as Ns.
  pose proof (nwait_nonneg id (reqs (base (mfinal c minit evs)))) as Nw.
  pose proof (credit_nonneg c id _ (count_bounded_m c evs Hm)) as Nc.
  pose proof (nent_nonneg id (pending (base (mfinal c minit evs)))) as Ne.
  rewrite mcopies_split. repeat split; try lia; intros Hpos; nia.
Qed.

(* at most 1 + MAX_RETRANSMIT copies of a request are ever put on the wire - also when message IDs are
   chosen by the application, collide, or are used again *)
Theorem copies_bounded_m : forall c evs id,
  0 <= max_rt c -> NoDup (msend_ids evs) ->
  cnt_obs id (mouts c minit evs) <= 1 + max_rt c.
Proof.
  intros c evs id Hm Hnd. destruct (first_copy_once_m c evs id Hm Hnd) as [F1 [F2 _]].
  rewrite mcopies_split. nia.
Qed.

(* ---------- (F) success needs a response ---------- *)

Definition is_resp_for_m (id code : Z) (e : mev) : Prop :=
  match e with Base e0 => is_resp_for id code e0 | SendM _ _ _ _ => False end.

Lemma bufs_incl pre pre' s : incl pre pre' -> bufs_justified pre s -> bufs_justified pre' s.
Proof.
  unfold bufs_justified. intros Hi H. eapply Forall_impl; [|exact H]. intros q Hq cd Hb.
  destruct (Hq cd Hb) as [e0 [Hin He]]. exists e0. split; [apply Hi; exact Hin|exact He].
Qed.

Lemma wake_bufs pre s j : bufs_justified pre s -> bufs_justified pre (wake s j).
Proof.
  intros H. unfold wake. destruct (has_pend (pending s) j); [|exact H]. unfold bufs_justified. cbn [reqs].
  apply set_status_bufs; [intros q; destruct (is_wait_ack (q_st q)); reflexivity| |exact H].
  intros q cd _ Hb. left. destruct (is_wait_ack (q_st q)); exact Hb.
Qed.

Lemma wake_mid_bufs pre mu s i : bufs_justified pre s -> bufs_justified pre (wake_mid mu s i).
Proof. intros H. destruct (wake_mid_cases mu s i) as [->|[j ->]]; [exact H|apply wake_bufs; exact H]. Qed.

Lemma settle_bufs pre s0 : bufs_justified pre s0 ->
  bufs_justified pre (fst (settle s0)) /\
  (forall id cd, In (id, 0, cd) (snd (settle s0)) -> exists e0, In e0 pre /\ is_resp_for id cd e0).
Proof.
  intros H0. unfold settle. pose proof (settle_list_bufs pre _ H0) as K.
  pose proof (settle_list_spec (reqs s0)) as Sp.
  destruct (settle_list (reqs s0)) as [l ret]. cbn [fst snd] in *. split; [exact K|].
  intros id cd Hin. destruct (Sp _ _ _ Hin) as [_ [q [Hq [Hi Hb]]]].
  unfold bufs_justified in H0. rewrite Forall_forall in H0. specialize (H0 q Hq cd Hb). rewrite Hi in H0. exact H0.
Qed.

Lemma deliver_bufs pre s0 i cd : bufs_justified pre s0 -> (exists e0, In e0 pre /\ is_resp_for i cd e0) -> bufs_justified pre (deliver s0 i cd).
Proof.
  intros H0 Hex. unfold bufs_justified, deliver. cbn [reqs]. apply set_status_bufs; [| |exact H0].
  - intros q. destruct (is_done (q_st q)); [reflexivity|]. destruct (q_buf q); reflexivity.
  - intros q cd' _ Hb. destruct (is_done (q_st q)); [left; exact Hb|].
    destruct (q_buf q) eqn:B; [left; rewrite <- B; exact Hb|]. cbn [with_buf q_buf] in Hb. injection Hb as <-. right. exact Hex.
Qed.

Lemma admit_m_bufs c mu pre : forall fuel s acc racc, bufs_justified pre s ->
  bufs_justified pre (fst (fst (admit_m fuel c mu s acc racc))) /\
  (forall id cd, In (id, 0, cd) (snd (admit_m fuel c mu s acc racc)) -> In (id, 0, cd) racc).
Proof.
  induction fuel as [|f IH]; intros s acc racc H; cbn [admit_m]; [split; [exact H|auto]|].
  destruct (held s <? nstart c); [|split; [exact H|auto]]. destruct (first_waiting (reqs s)) as [q|]; [|split; [exact H|auto]].
  assert (K : forall x, bufs_justified pre {| reqs := set_status (reqs s) (q_id q) (fun y => with_st y x); pending := pending s |}).
  { intros x. unfold bufs_justified in *. cbn [reqs]. apply set_status_bufs; [reflexivity| |exact H]. intros y cd _ Hb. left. exact Hb. }
  destruct (has_mid mu (pending s) (mid_of mu (q_id q))).
  - destruct (IH _ acc (racc ++ [(q_id q, 3, 0)]) (K (Done 3))) as [G1 G2]. split; [exact G1|].
    intros id cd Hin. specialize (G2 id cd Hin). apply in_app_or in G2. destruct G2 as [G2|[G2|[]]]; [exact G2|discriminate].
  - match goal with |- context [admit_m f c mu ?s1 ?a ?r] => destruct (IH s1 a r) as [G1 G2] end; [|split; assumption].
    unfold bufs_justified in *. cbn [reqs]. apply set_status_bufs; [reflexivity| |exact H]. intros y cd _ Hb. left. exact Hb.
Qed.

Lemma mstep_bufs c pre pre' ms e :
  incl pre pre' -> (forall e0, e = Base e0 -> In e0 pre') ->
  bufs_justified pre (base ms) ->
  bufs_justified pre' (base (fst (mstep c ms e))) /\
  (forall id cd, In (id, 0, cd) (o_ret (snd (mstep c ms e))) -> exists e0, In e0 pre' /\ is_resp_for id cd e0).
Proof.
  intros Hi He H. destruct ms as [s mu]. cbn [base] in *. pose proof (bufs_incl _ _ _ Hi H) as Hw.
  assert (Hadm : forall mu0 s0, bufs_justified pre' s0 ->
            bufs_justified pre' (fst (fst (admit_all_m c mu0 s0))) /\ (forall id cd, ~ In (id, 0, cd) (snd (admit_all_m c mu0 s0)))).
  { intros mu0 s0 H0. unfold admit_all_m. destruct (admit_m_bufs c mu0 pre' (S (length (reqs s0))) s0 [] [] H0) as [G1 G2].
    split; [exact G1|]. intros id cd Hin. exact (G2 id cd Hin). }
  assert (Hsend : forall mu0 i tok dl,
            bufs_justified pre' (base (fst (send_m c mu0 s i tok dl))) /\
            (forall id cd, In (id, 0, cd) (o_ret (snd (send_m c mu0 s i tok dl))) -> exists e0, In e0 pre' /\ is_resp_for id cd e0)).
  { intros mu0 i tok dl. unfold send_m.
    match goal with |- context [admit_all_m c mu0 ?s1] => assert (Q : bufs_justified pre' s1) end.
    { unfold bufs_justified in *. cbn [reqs]. apply Forall_app; split; [exact Hw|]. constructor; [|constructor]. cbn. discriminate. }
    destruct (Hadm mu0 _ Q) as [G1 G2]. destruct (admit_all_m c mu0 _) as [[s2 em] rr]. cbn [fst snd mk base o_ret] in *.
    split; [exact G1|]. intros id cd Hin. destruct (G2 id cd Hin). }
  assert (Hdel : forall e0, e = Base e0 ->
            bufs_justified pre' (fst (step c s e0)) /\
            (forall id cd, In (id, 0, cd) (o_ret (snd (step c s e0))) -> exists e1, In e1 pre' /\ is_resp_for id cd e1)).
  { intros e0 E. destruct (step_bufs c pre s e0 H) as [B1 B2].
    assert (I : incl (pre ++ [e0]) pre') by (intros x Hx; apply in_app_or in Hx; destruct Hx as [Hx|[<-|[]]]; [apply Hi; exact Hx|apply He; exact E]).
    split; [exact (bufs_incl _ _ _ I B1)|]. intros id cd Hin. destruct (B2 id cd Hin) as [e1 [H1 H2]]. exists e1. split; [apply I; exact H1|exact H2]. }
  assert (Hfin : forall s1 ret, bufs_justified pre' s1 ->
            (forall id cd, In (id, 0, cd) ret -> exists e0, In e0 pre' /\ is_resp_for id cd e0) ->
            let '(s3, em, rr) := admit_all_m c mu s1 in
            bufs_justified pre' s3 /\ (forall id cd, In (id, 0, cd) (ret ++ rr) -> exists e0, In e0 pre' /\ is_resp_for id cd e0)).
  { intros s1 ret B R. destruct (Hadm mu s1 B) as [G1 G2]. destruct (admit_all_m c mu s1) as [[s3 em] rr]. cbn [fst snd] in *.
    split; [exact G1|]. intros id cd Hin. apply in_app_or in Hin. destruct Hin as [Hin|Hin]; [exact (R id cd Hin)|destruct (G2 id cd Hin)]. }
  destruct e as [[i tok dl|ms| |i|i|i code|i code pmid|i]|i tok dl m]; cbn [mstep mids base].
  - apply Hsend.
  - destruct (Hdel _ eq_refl) as [D1 D2]. destruct (step c s (Age ms)) as [s1 o]. split; assumption.
  - destruct (Hdel _ eq_refl) as [D1 D2]. destruct (step c s Tick) as [s1 o]. split; assumption.
  - destruct (settle_bufs pre' _ (wake_mid_bufs pre' mu s i Hw)) as [S1 S2]. destruct (settle (wake_mid mu s i)) as [s2 ret]. cbn [fst snd] in *.
    pose proof (Hfin s2 ret S1 S2) as G. destruct (admit_all_m c mu s2) as [[s3 em] rr]. exact G.
  - destruct (settle_bufs pre' _ (wake_mid_bufs pre' mu s i Hw)) as [S1 S2]. destruct (settle (wake_mid mu s i)) as [s2 ret]. cbn [fst snd] in *.
    pose proof (Hfin s2 ret S1 S2) as G. destruct (admit_all_m c mu s2) as [[s3 em] rr]. exact G.
  - assert (Hex : exists e0, In e0 pre' /\ is_resp_for i code e0).
    { exists (Piggy i code). split; [apply He; reflexivity|cbn; split; reflexivity]. }
    destruct (settle_bufs pre' _ (deliver_bufs pre' _ i code (wake_mid_bufs pre' mu s i Hw) Hex)) as [S1 S2].
    destruct (settle (deliver (wake_mid mu s i) i code)) as [s2 ret]. cbn [fst snd] in *.
    pose proof (Hfin s2 ret S1 S2) as G. destruct (admit_all_m c mu s2) as [[s3 em] rr]. exact G.
  - destruct (Hdel _ eq_refl) as [D1 D2]. destruct (step c s (Sep i code pmid)) as [s1 o]. split; assumption.
  - destruct (find_rq (reqs s) i) as [q|]; [|split; [exact Hw|intros id cd []]].
    destruct (is_done (q_st q)); [split; [exact Hw|intros id cd []]|].
    match goal with |- context [admit_all_m c mu ?s1] => assert (Q : bufs_justified pre' s1) end.
    { unfold bufs_justified in *. cbn [reqs]. apply set_status_bufs; [reflexivity| |exact Hw]. intros x cd _ Hb. left. exact Hb. }
    destruct (Hadm mu _ Q) as [G1 G2]. destruct (admit_all_m c mu _) as [[s2 em] rr]. cbn [fst snd mk base o_ret] in *. split; [exact G1|].
    intros id cd [F|F]; [discriminate|destruct (G2 id cd F)].
  - apply Hsend.
Qed.

Fixpoint bases (evs : list mev) : list ev :=
  match evs with [] => [] | Base e :: r => e :: bases r | SendM _ _ _ _ :: r => bases r end.

Lemma bases_app a b : bases (a ++ b) = bases a ++ bases b.
Proof. induction a as [|e a IH]; [reflexivity|]. destruct e; cbn [app bases]; rewrite IH; reflexivity. Qed.

Lemma in_bases e0 evs : In e0 (bases evs) -> In (Base e0) evs.
Proof.
  induction evs as [|e evs IH]; [intros []|]. destruct e as [e1|]; cbn [bases].
  - intros [->|H]; [left; reflexivity|right; auto].
  - intros H. right. auto.
Qed.

(* exhaustion, a reset or a refusal never produces a successful response: in ANY history a call returns
   successfully with code cd only if a response carrying its token and that code was received *)
Theorem success_needs_response_m : forall c evs id cd,
  (exists o, In o (mouts c minit evs) /\ In (id, 0, cd) (o_ret o)) ->
  exists e, In e evs /\ is_resp_for_m id cd e.
Proof.
  intros c evs id cd.
  assert (G : forall evs pre ms, bufs_justified (bases pre) (base ms) ->
            (exists o, In o (mouts c ms evs) /\ In (id, 0, cd) (o_ret o)) ->
            exists e, In e (pre ++ evs) /\ is_resp_for_m id cd e).
  { clear evs. induction evs as [|e evs IH]; intros pre ms Hb [o [Ho Hin]]; [destruct Ho|].
    rewrite mouts_cons in Ho.
    destruct (mstep_bufs c (bases pre) (bases (pre ++ [e])) ms e) as [B1 B2].
    { rewrite bases_app. intros x Hx. apply in_or_app. left. exact Hx. }
    { intros e0 ->. rewrite bases_app. apply in_or_app. right. left. reflexivity. }
    { exact Hb. }
    destruct Ho as [<-|Ho].
    - destruct (B2 _ _ Hin) as [e0 [He0 Hr]]. exists (Base e0). split; [|exact Hr].
      apply in_bases in He0. apply in_app_or in He0 as [H|[<-|[]]]; apply in_or_app; [left; exact H|right; left; reflexivity].
    - destruct (IH (pre ++ [e]) _ B1 (ex_intro _ o (conj Ho Hin))) as [e0 [He0 Hr]]. exists e0. split; [|exact Hr].
      rewrite <- app_assoc in He0. exact He0. }
  intros H. apply (G evs [] minit); [constructor|exact H].
Qed.

(* ---------- (D) nothing is sent for a request once it has been acknowledged, reset or cancelled ---------- *)

Definition not_msend (id : Z) (e : mev) : Prop := ~ In id (msend_id e).

Lemma admit_m_quiet c mu id : forall fuel s acc racc,
  quiet id s -> ~ In (Copy id) acc ->
  quiet id (fst (fst (admit_m fuel c mu s acc racc))) /\ ~ In (Copy id) (snd (fst (admit_m fuel c mu s acc racc))).
Proof.
  induction fuel as [|f IH]; intros s acc racc Hq Hacc; cbn [admit_m]; [split; assumption|].
  destruct (held s <? nstart c); [|split; assumption].
  destruct (first_waiting (reqs s)) as [q|] eqn:Fw; [|split; assumption].
  destruct (first_waiting_in _ _ Fw) as [Hin Hw].
  destruct Hq as [Hp Hr].
  assert (Hne : q_id q <> id).
  { intros E. rewrite Forall_forall in Hr. specialize (Hr q Hin E). congruence. }
  destruct (has_mid mu (pending s) (mid_of mu (q_id q))); apply IH; try exact Hacc.
  - split; [exact Hp|]. cbn [reqs]. apply set_status_keeps; [intros x; cbn; discriminate|reflexivity|exact Hr].
  - split.
    + cbn [pending]. rewrite has_pend_app, Hp. cbn [has_pend existsb p_id]. apply Z.eqb_neq in Hne. rewrite Hne. reflexivity.
    + cbn [reqs]. apply set_status_keeps; [intros x; cbn; discriminate|reflexivity|exact Hr].
  - intros Hin'. apply in_app_or in Hin' as [H|[H|[]]]; [contradiction|]. injection H as E. contradiction.
Qed.

Lemma wake_quiet_any id s j : quiet id s -> quiet id (wake s j).
Proof.
  intros [Hp Hr]. unfold wake. destruct (has_pend (pending s) j); [|split; assumption]. split.
  - cbn [pending]. apply has_pend_filter; exact Hp.
  - cbn [reqs]. apply set_status_keeps; [|intros q; destruct (is_wait_ack (q_st q)); reflexivity|exact Hr].
    intros q. destruct (is_wait_ack (q_st q)) eqn:W; [cbn; discriminate|auto].
Qed.

Lemma wake_mid_quiet_any id mu s i : quiet id s -> quiet id (wake_mid mu s i).
Proof. intros H. destruct (wake_mid_cases mu s i) as [->|[j ->]]; [exact H|apply wake_quiet_any; exact H]. Qed.

Lemma deliver_quiet id s0 i cd : quiet id s0 -> quiet id (deliver s0 i cd).
Proof.
  intros [P R]. split; [exact P|]. cbn [deliver reqs]. apply set_status_keeps; [| |exact R].
  - intros q. destruct (is_done (q_st q)); [auto|]. destruct (q_buf q); auto.
  - intros q. destruct (is_done (q_st q)); [reflexivity|]. destruct (q_buf q); reflexivity.
Qed.

Lemma settle_quiet id s0 : quiet id s0 -> quiet id (fst (settle s0)).
Proof.
  intros [P R]. unfold settle. pose proof (settle_list_keeps id _ R) as G.
  destruct (settle_list (reqs s0)) as [l ret]. cbn [fst] in *. split; assumption.
Qed.

Lemma admit_all_m_quiet c mu id s : quiet id s ->
  quiet id (fst (fst (admit_all_m c mu s))) /\ ~ In (Copy id) (snd (fst (admit_all_m c mu s))).
Proof. intros H. unfold admit_all_m. apply admit_m_quiet; [exact H|intros []]. Qed.

Lemma mstep_quiet c ms e id : quiet id (base ms) -> not_msend id e ->
  quiet id (base (fst (mstep c ms e))) /\ ~ In (Copy id) (o_emit (snd (mstep c ms e))).
Proof.
  intros Hq Hns. destruct ms as [s mu]. cbn [base] in *.
  assert (Hsend : forall mu0 i tok dl, i <> id ->
            quiet id (base (fst (send_m c mu0 s i tok dl))) /\ ~ In (Copy id) (o_emit (snd (send_m c mu0 s i tok dl)))).
  { intros mu0 i tok dl Hi. unfold send_m.
    match goal with |- context [admit_all_m c mu0 ?s1] => assert (Q : quiet id s1) end.
    { destruct Hq as [Hp Hr]. split; [exact Hp|]. cbn [reqs]. apply Forall_app; split; [exact Hr|]. constructor; [|constructor].
      cbn [q_id]. intros E; contradiction. }
    destruct (admit_all_m_quiet c mu0 id _ Q) as [G1 G2]. destruct (admit_all_m c mu0 _) as [[s2 em] rr]. split; assumption. }
  assert (Hdel : forall e0, not_send id e0 ->
            quiet id (fst (step c s e0)) /\ ~ In (Copy id) (o_emit (snd (step c s e0)))) by (intros e0 N; apply step_quiet; assumption).
  assert (Hfin : forall s1, quiet id s1 ->
            quiet id (fst (fst (admit_all_m c mu s1))) /\ ~ In (Copy id) (snd (fst (admit_all_m c mu s1)))) by (intros; apply admit_all_m_quiet; assumption).
  destruct e as [[i tok dl|ms| |i|i|i code|i code pmid|i]|i tok dl m]; cbn [mstep mids base].
  - apply Hsend. intros E. apply Hns. left. exact E.
  - destruct (Hdel (Age ms) I) as [D1 D2]. destruct (step c s (Age ms)) as [s1 o]. split; assumption.
  - destruct (Hdel Tick I) as [D1 D2]. destruct (step c s Tick) as [s1 o]. split; assumption.
  - pose proof (settle_quiet id _ (wake_mid_quiet_any id mu s i Hq)) as Q. destruct (settle (wake_mid mu s i)) as [s2 ret]. cbn [fst] in Q.
    destruct (Hfin s2 Q) as [G1 G2]. destruct (admit_all_m c mu s2) as [[s3 em] rr]. split; assumption.
  - pose proof (settle_quiet id _ (wake_mid_quiet_any id mu s i Hq)) as Q. destruct (settle (wake_mid mu s i)) as [s2 ret]. cbn [fst] in Q.
    destruct (Hfin s2 Q) as [G1 G2]. destruct (admit_all_m c mu s2) as [[s3 em] rr]. split; assumption.
  - pose proof (settle_quiet id _ (deliver_quiet id _ i code (wake_mid_quiet_any id mu s i Hq))) as Q.
    destruct (settle (deliver (wake_mid mu s i) i code)) as [s2 ret]. cbn [fst] in Q.
    destruct (Hfin s2 Q) as [G1 G2]. destruct (admit_all_m c mu s2) as [[s3 em] rr]. split; assumption.
  - destruct (Hdel (Sep i code pmid) I) as [D1 D2]. destruct (step c s (Sep i code pmid)) as [s1 o]. split; assumption.
  - destruct (find_rq (reqs s) i) as [q|]; [|split; [exact Hq|intros []]].
    destruct (is_done (q_st q)); [split; [exact Hq|intros []]|].
    match goal with |- context [admit_all_m c mu ?s1] => assert (Q : quiet id s1) end.
    { destruct Hq as [Hp Hr]. split; [cbn [pending]; apply has_pend_filter; exact Hp|]. cbn [reqs].
      apply set_status_keeps; [intros x; cbn; discriminate|reflexivity|exact Hr]. }
    destruct (Hfin _ Q) as [G1 G2]. destruct (admit_all_m c mu _) as [[s2 em] rr]. split; assumption.
  - apply Hsend. intros E. apply Hns. left. exact E.
Qed.

Lemma mrun_quiet c id : forall evs ms, quiet id (base ms) -> Forall (not_msend id) evs ->
  Forall (fun o => ~ In (Copy id) (o_emit o)) (mouts c ms evs).
Proof.
  induction evs as [|e evs IH]; intros ms Hq Hn; [constructor|].
  inversion Hn as [|? ? He Hr]; subst. rewrite mouts_cons.
  destruct (mstep_quiet c ms e id Hq He) as [Q1 Q2]. constructor; [exact Q2|apply IH; assumption].
Qed.

(* a message carrying the ID of request id leaves id without an entry (unique keys) *)
Lemma wake_mid_quiet mu s id : NoDup (map (key mu) (pending s)) -> transmitted id s -> quiet id (wake_mid mu s id).
Proof.
  intros Hk Ht. destruct (has_pend (pending s) id) eqn:E.
  - rewrite (wake_mid_own mu s id Hk E). destruct (wake_quiet s id Ht) as [W1 W2]. split; assumption.
  - apply wake_mid_quiet_any. split; assumption.
Qed.

(* no copy after an acknowledgement, a reset or a piggybacked response carrying the request's message ID -
   in any continuation, whatever message IDs later requests use *)
Theorem stops_after_ack_or_reset_m : forall c ms id e evs,
  wf (mids ms) (base ms) -> transmitted id (base ms) -> stop_event id e -> Forall (not_msend id) evs ->
  ~ In (Copy id) (o_emit (snd (mstep c ms (Base e)))) /\
  Forall (fun o => ~ In (Copy id) (o_emit o)) (mouts c (fst (mstep c ms (Base e))) evs).
Proof.
  intros c [s mu] id e evs W Ht Hs Hn. cbn [mids base] in *.
  assert (G : quiet id (base (fst (mstep c (mk mu s) (Base e)))) /\ ~ In (Copy id) (o_emit (snd (mstep c (mk mu s) (Base e))))).
  { pose proof (wake_mid_quiet mu s id (wf_key _ _ W) Ht) as Q0.
    destruct e as [i tok dl|ms| |i|i|i code|i code pmid|i]; cbn [stop_event] in Hs; try contradiction; subst i; cbn [mstep mk mids base].
    - pose proof (settle_quiet id _ Q0) as Q. destruct (settle (wake_mid mu s id)) as [s2 ret]. cbn [fst] in Q.
      destruct (admit_all_m_quiet c mu id s2 Q) as [G1 G2]. destruct (admit_all_m c mu s2) as [[s3 em] rr]. split; assumption.
    - pose proof (settle_quiet id _ Q0) as Q. destruct (settle (wake_mid mu s id)) as [s2 ret]. cbn [fst] in Q.
      destruct (admit_all_m_quiet c mu id s2 Q) as [G1 G2]. destruct (admit_all_m c mu s2) as [[s3 em] rr]. split; assumption.
    - pose proof (settle_quiet id _ (deliver_quiet id _ id code Q0)) as Q. destruct (settle (deliver (wake_mid mu s id) id code)) as [s2 ret]. cbn [fst] in Q.
      destruct (admit_all_m_quiet c mu id s2 Q) as [G1 G2]. destruct (admit_all_m c mu s2) as [[s3 em] rr]. split; assumption. }
  destruct G as [G1 G2]. split; [exact G2|]. apply mrun_quiet; assumption.
Qed.

(* the same after the caller's cancellation *)
Theorem stops_after_cancel_m : forall c ms id q evs,
  find_rq (reqs (base ms)) id = Some q -> is_done (q_st q) = false -> Forall (not_msend id) evs ->
  ~ In (Copy id) (o_emit (snd (mstep c ms (Base (Cancel id))))) /\
  Forall (fun o => ~ In (Copy id) (o_emit o)) (mouts c (fst (mstep c ms (Base (Cancel id)))) evs).
Proof.
  intros c [s mu] id q evs Hf Hd Hn. cbn [base] in *.
  assert (G : quiet id (base (fst (mstep c (mk mu s) (Base (Cancel id))))) /\ ~ In (Copy id) (o_emit (snd (mstep c (mk mu s) (Base (Cancel id)))))).
  { cbn [mstep mk mids base]. rewrite Hf, Hd.
    match goal with |- context [admit_all_m c mu ?s1] => assert (Q : quiet id s1) end.
    { split; [cbn [pending]; apply has_pend_del_same|]. cbn [reqs]. unfold set_status. clear.
      induction (reqs s) as [|x r IH]; cbn [map]; constructor; [|exact IH].
      destruct (q_id x =? id) eqn:E; [intros _; reflexivity|]. intros E'. apply Z.eqb_neq in E. contradiction. }
    destruct (admit_all_m_quiet c mu id _ Q) as [G1 G2]. destruct (admit_all_m c mu _) as [[s2 em] rr]. split; assumption. }
  destruct G as [G1 G2]. split; [exact G2|]. apply mrun_quiet; assumption.
Qed.

(* ---------- "is transmitted": no request waits while an NSTART slot is free ---------- *)

Definition no_idle (c : cfg) (s : st) : Prop := held s < nstart c -> first_waiting (reqs s) = None.

Definition nw (l : list rq) : nat := length (filter (fun q => is_wait_slot (q_st q)) l).

Lemma nw_set_status_le l id x : is_wait_slot x = false -> (nw (set_status l id (fun y => with_st y x)) <= nw l)%nat.
Proof.
  intros Hx. unfold nw, set_status. induction l as [|a l IH]; cbn [map filter]; [lia|].
  destruct (q_id a =? id); cbn [with_st q_st]; [rewrite Hx|]; destruct (is_wait_slot (q_st a)); cbn [length]; lia.
Qed.

Lemma nw_set_status_lt l q x : In q l -> is_wait_slot (q_st q) = true -> is_wait_slot x = false ->
  (nw (set_status l (q_id q) (fun y => with_st y x)) < nw l)%nat.
Proof.
  intros Hin Hw Hx. induction l as [|a l IH]; [destruct Hin|].
  pose proof (nw_set_status_le l (q_id q) x Hx) as Hle. unfold nw, set_status in *. cbn [map filter].
  destruct Hin as [->|Hin].
  - rewrite Z.eqb_refl. cbn [with_st q_st]. rewrite Hx, Hw. cbn [length]. lia.
  - specialize (IH Hin). destruct (q_id a =? q_id q); cbn [with_st q_st]; [rewrite Hx|]; destruct (is_wait_slot (q_st a)); cbn [length]; lia.
Qed.

Lemma admit_m_no_idle c mu : forall fuel s acc racc, (nw (reqs s) < fuel)%nat ->
  no_idle c (fst (fst (admit_m fuel c mu s acc racc))).
Proof.
  induction fuel as [|f IH]; intros s acc racc Hf; [lia|]. cbn [admit_m].
  destruct (Z.ltb_spec (held s) (nstart c)) as [Hh|Hh]; [|intros H; cbn [fst] in H; lia].
  destruct (first_waiting (reqs s)) as [q|] eqn:Fw; [|intros _; exact Fw].
  destruct (first_waiting_in _ _ Fw) as [Hin Hw].
  destruct (has_mid mu (pending s) (mid_of mu (q_id q))); apply IH; cbn [reqs].
  - pose proof (nw_set_status_lt (reqs s) q (Done 3) Hin Hw eq_refl). lia.
  - pose proof (nw_set_status_lt (reqs s) q WaitAck Hin Hw eq_refl). lia.
Qed.

Lemma filter_len_le {A} (f : A -> bool) l : (length (filter f l) <= length l)%nat.
Proof. induction l as [|a l IH]; cbn [filter length]; [lia|]. destruct (f a); cbn [length]; lia. Qed.

Lemma admit_all_m_no_idle c mu s : no_idle c (fst (fst (admit_all_m c mu s))).
Proof.
  unfold admit_all_m. apply admit_m_no_idle. unfold nw. pose proof (filter_len_le (fun q => is_wait_slot (q_st q)) (reqs s)). lia.
Qed.

(* a map over the requests that keeps "waiting for a slot" and "waiting for the acknowledgement" *)
Lemma filter_map_len {A} (g : A -> A) (P : A -> bool) l : (forall q, P (g q) = P q) -> length (filter P (map g l)) = length (filter P l).
Proof. intros H. induction l as [|a l IH]; [reflexivity|]. cbn [map filter]. rewrite H. destruct (P a); cbn [length]; rewrite IH; reflexivity. Qed.

Lemma first_waiting_map_none g l : (forall q, is_wait_slot (q_st (g q)) = is_wait_slot (q_st q)) ->
  first_waiting l = None -> first_waiting (map g l) = None.
Proof.
  intros Hs. induction l as [|a l IH]; [reflexivity|]. cbn [map first_waiting]. rewrite Hs.
  destruct (is_wait_slot (q_st a)); [discriminate|exact IH].
Qed.

Lemma map_keeps_no_idle c s l' g :
  l' = map g (reqs s) ->
  (forall q, is_wait_slot (q_st (g q)) = is_wait_slot (q_st q)) ->
  (forall q, is_wait_ack (q_st (g q)) = is_wait_ack (q_st q)) ->
  forall pnd, no_idle c s -> no_idle c {| reqs := l'; pending := pnd |}.
Proof.
  intros -> Hs Ha pnd H. unfold no_idle, held in *. cbn [reqs].
  rewrite (filter_map_len g (fun q => is_wait_ack (q_st q)) (reqs s) Ha).
  intros Hh. apply first_waiting_map_none; [exact Hs|exact (H Hh)].
Qed.

Lemma settle_rq_slot q : is_wait_slot (q_st (fst (settle_rq q))) = is_wait_slot (q_st q).
Proof. unfold settle_rq. destruct (q_st q) eqn:E; cbn [fst]; rewrite ?E; try reflexivity. destruct (q_buf q); cbn [fst with_st q_st]; rewrite ?E; reflexivity. Qed.
Lemma settle_rq_ack q : is_wait_ack (q_st (fst (settle_rq q))) = is_wait_ack (q_st q).
Proof. unfold settle_rq. destruct (q_st q) eqn:E; cbn [fst]; rewrite ?E; try reflexivity. destruct (q_buf q); cbn [fst with_st q_st]; rewrite ?E; reflexivity. Qed.
Lemma deliver_f_st q code :
  q_st (if is_done (q_st q) then q else match q_buf q with Some _ => q | None => with_buf q code end) = q_st q.
Proof. destruct (is_done (q_st q)); [reflexivity|]. destruct (q_buf q); reflexivity. Qed.

Lemma mstep_no_idle c ms e : no_idle c (base ms) -> no_idle c (base (fst (mstep c ms e))).
Proof.
  intros H. destruct ms as [s mu]. cbn [base] in H.
  destruct e as [[i tok dl|ms| |i|i|i code|i code pmid|i]|i tok dl m]; cbn [mstep mids base].
  - unfold send_m. match goal with |- context [admit_all_m c mu ?s1] => pose proof (admit_all_m_no_idle c mu s1) as G; destruct (admit_all_m c mu s1) as [[s2 em] rr] end. exact G.
  - cbn [step fst mk base]. exact H.
  - cbn [step]. destruct (tick_all c (pending s)) as [l em]. cbn [fst mk base]. exact H.
  - destruct (settle (wake_mid mu s i)) as [s2 ret].
    pose proof (admit_all_m_no_idle c mu s2) as G. destruct (admit_all_m c mu s2) as [[s3 em] rr]. exact G.
  - destruct (settle (wake_mid mu s i)) as [s2 ret].
    pose proof (admit_all_m_no_idle c mu s2) as G. destruct (admit_all_m c mu s2) as [[s3 em] rr]. exact G.
  - destruct (settle (deliver (wake_mid mu s i) i code)) as [s2 ret].
    pose proof (admit_all_m_no_idle c mu s2) as G. destruct (admit_all_m c mu s2) as [[s3 em] rr]. exact G.
  - cbn [step]. unfold settle. rewrite (surjective_pairing (settle_list (reqs (deliver s i code)))). cbn [fst mk base].
    rewrite settle_list_map. cbn [deliver reqs pending]. unfold set_status. rewrite map_map.
    eapply (map_keeps_no_idle c s); [reflexivity| | |exact H]; intros q; cbn beta.
    + rewrite settle_rq_slot. destruct (q_id q =? i); [apply f_equal; apply deliver_f_st|reflexivity].
    + rewrite settle_rq_ack. destruct (q_id q =? i); [apply f_equal; apply deliver_f_st|reflexivity].
  - destruct (find_rq (reqs s) i) as [q|]; [|exact H]. destruct (is_done (q_st q)); [exact H|].
    match goal with |- context [admit_all_m c mu ?s1] => pose proof (admit_all_m_no_idle c mu s1) as G; destruct (admit_all_m c mu s1) as [[s2 em] rr] end. exact G.
  - unfold send_m. match goal with |- context [admit_all_m c ?mu1 ?s1] => pose proof (admit_all_m_no_idle c mu1 s1) as G; destruct (admit_all_m c mu1 s1) as [[s2 em] rr] end. exact G.
Qed.

(* THEOREM ("is transmitted"): after ANY history, if fewer than NSTART calls are waiting for their
   acknowledgement then no call is waiting for its first transmission - a request is held back only by
   NSTART, never by a slot that a finished, cancelled or refused call failed to hand back *)
Theorem no_idle_slot_m : forall c evs, no_idle c (base (mfinal c minit evs)).
Proof.
  intros c evs. assert (G : forall ms, no_idle c (base ms) -> no_idle c (base (mfinal c ms evs))).
  { induction evs as [|e evs IH]; intros ms H; [exact H|]. rewrite mfinal_cons. apply IH. apply mstep_no_idle. exact H. }
  apply G. intros _. reflexivity.
Qed.
