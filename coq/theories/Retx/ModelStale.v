(* A housekeeping tick with a STALE timestamp.  Conn.CheckExpirations(now) is handed the time at which the
   tick started (udp/server, dtls/server: one tick serves all connections in turn; the ticker delivers late
   under load; an application may drive CheckExpirations itself), so [now] may lie [ms] before the present -
   also before the first transmission of a request issued meanwhile.  checkMidHandlerContainer compares the
   stamps of every entry with that [now]: for the entries this is a tick taken [ms] earlier, after which the
   present is restored.  Nothing else of the connection depends on [now]. *)
From Coq Require Import ZArith List Bool.
From GoCoap Require Import Retx.Model Retx.ModelMid.
Import ListNotations.
Open Scope Z_scope.

Definition stale_tick (ms : Z) : list ev := [Age (- ms); Tick; Age ms].

(* one observation for a group of model events *)
Fixpoint mrun_obs (c : cfg) (s : mst) (evs : list mev) : mst * obs :=
  match evs with
  | [] => (s, {| o_emit := []; o_ret := [] |})
  | e :: r => let '(s1, o) := mstep c s e in let '(s2, o2) := mrun_obs c s1 r in
              (s2, {| o_emit := o_emit o ++ o_emit o2; o_ret := o_ret o ++ o_ret o2 |})
  end.
