(* C06, trace level: over every history with distinct request ids, the number of copies of a request put
   on the wire is at most 1 + MAX_RETRANSMIT; exactly one of them is the first transmission (emitted at
   the admission of the request), every other one is a re-send emitted by a Tick, and the k-th re-send is
   emitted only when more than k x ACK_TIMEOUT elapsed since the first transmission.

   Method: potential functions.  For a fixed request id let
     a = copies emitted so far by events other than Tick (admissions),
     t = copies emitted so far by Tick events (re-sends),
     S = number of [Send id] events so far.
   Then in every reachable state
     a + (number of requests with this id still waiting for admission)       <= S
     t + (sum over the pending entries of id of max_rt - p_count)            <= max_rt * a
     (number of pending entries of id)                                       <= a
     every pending entry of id has p_count <= t.
   Each line is kept by every step of the model; no uniqueness hypothesis is needed for that.  With
   distinct request ids S <= 1, which gives the bound and makes the last line an equality. *)
From Coq Require Import ZArith List Bool Lia.
From GoCoap Require Import Retx.Model Retx.Proofs.
Import ListNotations.
Open Scope Z_scope.

Definition is_copy (id : Z) (e : emit) : bool := match e with Copy i => i =? id | _ => false end.
Definition cnt (id : Z) (l : list emit) : Z := Z.of_nat (length (filter (is_copy id) l)).
Fixpoint cnt_obs (id : Z) (os : list obs) : Z :=
  match os with [] => 0 | o :: r => cnt id (o_emit o) + cnt_obs id r end.

Lemma cnt_app id a b : cnt id (a ++ b) = cnt id a + cnt id b.
Proof. unfold cnt. rewrite filter_app, app_length. lia. Qed.
Lemma cnt_nonneg id l : 0 <= cnt id l.
Proof. unfold cnt. lia. Qed.
Lemma cnt_zero_iff id l : ~ In (Copy id) l -> cnt id l = 0.
Proof.
  unfold cnt. induction l as [|e l IH]; intros H; [reflexivity|]. cbn [filter].
  destruct e as [i|p]; cbn [is_copy].
  - destruct (Z.eqb_spec i id) as [->|_]; [exfalso; apply H; left; reflexivity|]. apply IH. intros F; apply H; right; exact F.
  - apply IH. intros F; apply H; right; exact F.
Qed.
Lemma cnt_cons_copy id i l : cnt id (Copy i :: l) = (if i =? id then 1 else 0) + cnt id l.
Proof. unfold cnt. cbn [filter is_copy]. destruct (i =? id); cbn [length]; lia. Qed.
Lemma cnt_one id i : cnt id [Copy i] = if i =? id then 1 else 0.
Proof. rewrite cnt_cons_copy. unfold cnt. cbn. lia. Qed.
Lemma cnt_nil id : cnt id [] = 0.
Proof. reflexivity. Qed.
Lemma cnt_pos_in id l : In (Copy id) l -> 1 <= cnt id l.
Proof.
  induction l as [|e l IH]; intros H; [destruct H|]. destruct H as [->|H].
  - rewrite cnt_cons_copy, Z.eqb_refl. pose proof (cnt_nonneg id l). lia.
  - specialize (IH H). destruct e as [i|p]; [rewrite cnt_cons_copy; destruct (i =? id); lia|exact IH].
Qed.

(* request ids submitted by a history; how often [id] is among them *)
Fixpoint send_ids (evs : list ev) : list Z :=
  match evs with [] => [] | Send i _ _ :: r => i :: send_ids r | _ :: r => send_ids r end.

Definition nsend1 (id : Z) (e : ev) : Z := match e with Send i _ _ => if i =? id then 1 else 0 | _ => 0 end.
Fixpoint nsend (id : Z) (evs : list ev) : Z :=
  match evs with [] => 0 | e :: r => nsend1 id e + nsend id r end.

Lemma nsend_notin id evs : ~ In id (send_ids evs) -> nsend id evs = 0.
Proof.
  induction evs as [|e evs IH]; intros H; [reflexivity|]. cbn [nsend].
  destruct e as [i tok dl|ms| |i|i|i code|i code pmid|i]; cbn [send_ids nsend1] in *; try (rewrite IH; [reflexivity|exact H]).
  destruct (Z.eqb_spec i id) as [E|E]; [exfalso; apply H; left; exact E|].
  rewrite IH; [reflexivity|]. intros F; apply H; right; exact F.
Qed.

Lemma nsend_nodup id evs : NoDup (send_ids evs) -> nsend id evs <= 1.
Proof.
  induction evs as [|e evs IH]; intros H; [cbn; lia|]. cbn [nsend].
  destruct e as [i tok dl|ms| |i|i|i code|i code pmid|i]; cbn [send_ids nsend1] in *; try (specialize (IH H); lia).
  inversion H as [|x l Hx Hl]; subst. destruct (Z.eqb_spec i id) as [E|E].
  - subst i. rewrite (nsend_notin _ _ Hx). lia.
  - specialize (IH Hl). lia.
Qed.

(* copies emitted by Tick events (re-sends) and by all other events (first transmissions) *)
Definition is_tick (e : ev) : bool := match e with Tick => true | _ => false end.
Fixpoint cnt_sel (sel : ev -> bool) (id : Z) (evs : list ev) (os : list obs) : Z :=
  match evs, os with
  | e :: evs', o :: os' => (if sel e then cnt id (o_emit o) else 0) + cnt_sel sel id evs' os'
  | _, _ => 0
  end.
Definition firsts (id : Z) (evs : list ev) (os : list obs) : Z := cnt_sel (fun e => negb (is_tick e)) id evs os.
Definition resends (id : Z) (evs : list ev) (os : list obs) : Z := cnt_sel is_tick id evs os.

Lemma firsts_cons c id s e evs :
  firsts id (e :: evs) (outs c s (e :: evs)) =
  (if is_tick e then 0 else cnt id (o_emit (snd (step c s e)))) + firsts id evs (outs c (fst (step c s e)) evs).
Proof. rewrite outs_cons. unfold firsts. cbn [cnt_sel]. destruct (is_tick e); reflexivity. Qed.
Lemma resends_cons c id s e evs :
  resends id (e :: evs) (outs c s (e :: evs)) =
  (if is_tick e then cnt id (o_emit (snd (step c s e))) else 0) + resends id evs (outs c (fst (step c s e)) evs).
Proof. rewrite outs_cons. unfold resends. cbn [cnt_sel]. reflexivity. Qed.

Lemma copies_split c id : forall evs s,
  cnt_obs id (outs c s evs) = firsts id evs (outs c s evs) + resends id evs (outs c s evs).
Proof.
  induction evs as [|e evs IH]; intros s; [reflexivity|].
  rewrite firsts_cons, resends_cons, outs_cons. cbn [cnt_obs]. rewrite IH. destruct (is_tick e); lia.
Qed.

(* ---------- the potentials ---------- *)

Fixpoint nwait (id : Z) (l : list rq) : Z :=
  match l with [] => 0 | q :: r => (if (q_id q =? id) && is_wait_slot (q_st q) then 1 else 0) + nwait id r end.
Fixpoint credit (c : cfg) (id : Z) (l : list pend) : Z :=
  match l with [] => 0 | p :: r => (if p_id p =? id then max_rt c - p_count p else 0) + credit c id r end.
Fixpoint nent (id : Z) (l : list pend) : Z :=
  match l with [] => 0 | p :: r => (if p_id p =? id then 1 else 0) + nent id r end.
Definition cnt_le (id t : Z) (l : list pend) : Prop := Forall (fun p => p_id p = id -> p_count p <= t) l.

Lemma nwait_app id a b : nwait id (a ++ b) = nwait id a + nwait id b.
Proof. induction a as [|q a IH]; cbn [app nwait]; [reflexivity|]. rewrite IH. lia. Qed.
Lemma nwait_nonneg id l : 0 <= nwait id l.
Proof. induction l as [|q l IH]; cbn [nwait]; [lia|]. destruct ((q_id q =? id) && is_wait_slot (q_st q)); lia. Qed.

(* a map over the requests that keeps ids and never produces WaitSlot does not add waiters *)
Lemma nwait_map_le id g l :
  (forall q, q_id (g q) = q_id q) ->
  (forall q, is_wait_slot (q_st (g q)) = true -> is_wait_slot (q_st q) = true) ->
  nwait id (map g l) <= nwait id l.
Proof.
  intros Hid Hw. induction l as [|q l IH]; cbn [map nwait]; [lia|]. rewrite Hid.
  destruct (q_id q =? id); cbn [andb]; [|lia].
  destruct (is_wait_slot (q_st (g q))) eqn:E; [rewrite (Hw _ E); lia|]. destruct (is_wait_slot (q_st q)); lia.
Qed.

Lemma nwait_set_status_le id l id' f :
  (forall q, q_id (f q) = q_id q) ->
  (forall q, is_wait_slot (q_st (f q)) = true -> is_wait_slot (q_st q) = true) ->
  nwait id (set_status l id' f) <= nwait id l.
Proof.
  intros Hid Hw. unfold set_status. apply nwait_map_le.
  - intros q. destruct (q_id q =? id'); [apply Hid|reflexivity].
  - intros q. destruct (q_id q =? id'); [apply Hw|auto].
Qed.

Lemma nwait_admitted id l : nwait id (set_status l id (fun x => with_st x WaitAck)) = 0.
Proof.
  unfold set_status. induction l as [|q l IH]; cbn [map nwait]; [reflexivity|]. rewrite IH.
  destruct (Z.eqb_spec (q_id q) id) as [E|E].
  - cbn [with_st q_id q_st is_wait_slot]. rewrite andb_false_r. reflexivity.
  - apply Z.eqb_neq in E. rewrite E. reflexivity.
Qed.

Lemma nwait_in id l q : In q l -> q_id q = id -> is_wait_slot (q_st q) = true -> 1 <= nwait id l.
Proof.
  intros Hin Hid Hw. induction l as [|x l IH]; [destruct Hin|]. cbn [nwait].
  pose proof (nwait_nonneg id l) as N. destruct Hin as [->|Hin].
  - apply Z.eqb_eq in Hid. rewrite Hid, Hw. cbn [andb]. lia.
  - specialize (IH Hin). destruct ((q_id x =? id) && is_wait_slot (q_st x)); lia.
Qed.

Lemma settle_list_map l : fst (settle_list l) = map (fun q => fst (settle_rq q)) l.
Proof.
  induction l as [|q l IH]; cbn [settle_list map]; [reflexivity|].
  destruct (settle_rq q) as [q' a]. destruct (settle_list l) as [l' b]. cbn [fst] in *. rewrite IH. reflexivity.
Qed.

Lemma nwait_settle id l : nwait id (fst (settle_list l)) <= nwait id l.
Proof.
  rewrite settle_list_map. apply nwait_map_le; intros q; unfold settle_rq;
    destruct (q_st q) eqn:E; try (cbn [fst]; rewrite ?E; auto; fail);
    destruct (q_buf q); cbn [fst with_st q_id q_st is_wait_slot]; rewrite ?E; auto; discriminate.
Qed.

Lemma credit_app c id a b : credit c id (a ++ b) = credit c id a + credit c id b.
Proof. induction a as [|p a IH]; cbn [app credit]; [reflexivity|]. rewrite IH. lia. Qed.
Lemma nent_app id a b : nent id (a ++ b) = nent id a + nent id b.
Proof. induction a as [|p a IH]; cbn [app nent]; [reflexivity|]. rewrite IH. lia. Qed.
Lemma nent_nonneg id l : 0 <= nent id l.
Proof. induction l as [|p l IH]; cbn [nent]; [lia|]. destruct (p_id p =? id); lia. Qed.
Lemma credit_nonneg c id l : Forall (pend_ok c) l -> 0 <= credit c id l.
Proof. induction 1 as [|p l Hp _ IH]; cbn [credit]; [lia|]. unfold pend_ok in Hp. destruct (p_id p =? id); lia. Qed.

Lemma credit_filter_le c id f l : Forall (pend_ok c) l -> credit c id (filter f l) <= credit c id l.
Proof.
  induction 1 as [|p l Hp _ IH]; cbn [filter credit]; [lia|]. unfold pend_ok in Hp.
  destruct (f p); cbn [credit]; destruct (p_id p =? id); lia.
Qed.
Lemma nent_filter_le id f l : nent id (filter f l) <= nent id l.
Proof.
  induction l as [|p l IH]; cbn [filter nent]; [lia|].
  destruct (f p); cbn [nent]; destruct (p_id p =? id); lia.
Qed.

Lemma credit_in c id l p : Forall (pend_ok c) l -> In p l -> p_id p = id -> max_rt c - p_count p <= credit c id l.
Proof.
  intros H Hin Hid. induction H as [|x l Hx Hl IH]; [destruct Hin|]. cbn [credit].
  pose proof (credit_nonneg c id l Hl) as N. unfold pend_ok in Hx. destruct Hin as [->|Hin].
  - apply Z.eqb_eq in Hid. rewrite Hid. lia.
  - specialize (IH Hin). destruct (p_id x =? id); lia.
Qed.
Lemma nent_in id l p : In p l -> p_id p = id -> 1 <= nent id l.
Proof.
  intros Hin Hid. induction l as [|x l IH]; [destruct Hin|]. cbn [nent].
  pose proof (nent_nonneg id l) as N. destruct Hin as [->|Hin].
  - apply Z.eqb_eq in Hid. rewrite Hid. lia.
  - specialize (IH Hin). destruct (p_id x =? id); lia.
Qed.

Definition aged (ms : Z) (p : pend) : pend :=
  {| p_id := p_id p; p_elapsed := p_elapsed p + ms;
     p_dl := match p_dl p with Some d => Some (d - ms) | None => None end; p_count := p_count p |}.
Lemma credit_aged c id ms l : credit c id (map (aged ms) l) = credit c id l.
Proof. induction l as [|p l IH]; cbn [map credit aged p_id p_count]; [reflexivity|]. rewrite IH. reflexivity. Qed.
Lemma nent_aged id ms l : nent id (map (aged ms) l) = nent id l.
Proof. induction l as [|p l IH]; cbn [map nent aged p_id]; [reflexivity|]. rewrite IH. reflexivity. Qed.
Lemma cnt_le_aged id t ms l : cnt_le id t l -> cnt_le id t (map (aged ms) l).
Proof. unfold cnt_le. induction 1 as [|p l Hp _ IH]; cbn [map]; constructor; [exact Hp|exact IH]. Qed.

Lemma cnt_le_mono id t t' l : t <= t' -> cnt_le id t l -> cnt_le id t' l.
Proof. intros Ht H. unfold cnt_le in *. eapply Forall_impl; [|exact H]. intros p Hp E. specialize (Hp E). lia. Qed.

(* one pass of CheckExpirations over the pending table *)
Lemma tick_all_pot c id t l : Forall (pend_ok c) l -> cnt_le id t l ->
  cnt id (snd (tick_all c l)) + credit c id (fst (tick_all c l)) <= credit c id l /\
  nent id (fst (tick_all c l)) <= nent id l /\
  cnt_le id (t + cnt id (snd (tick_all c l))) (fst (tick_all c l)) /\
  cnt id (snd (tick_all c l)) <= nent id l.
Proof.
  intros Hok. induction Hok as [|p r Hp Hr IH]; intros Hle; cbn [tick_all].
  - cbn [fst snd credit nent]. rewrite cnt_nil. repeat split; try lia. constructor.
  - inversion Hle as [|? ? Hlp Hlr]; subst. destruct (IH Hlr) as [I1 [I2 [I3 I4]]]. clear IH.
    destruct (tick_all c r) as [r' e']. cbn [fst snd] in *.
    pose proof (cnt_nonneg id e') as Ne. unfold pend_ok in Hp.
    destruct (tick_entry c p) as [[p'|] b] eqn:E.
    + destruct b.
      * destruct (tick_entry_resend _ _ _ E) as [R1 [R2 [R3 [R4 _]]]].
        cbn [fst snd credit nent]. rewrite cnt_cons_copy, R4, R3.
        destruct (Z.eqb_spec (p_id p) id) as [Ei|Ei].
        -- repeat split; try lia. constructor.
           ++ intros _. specialize (Hlp Ei). lia.
           ++ apply (cnt_le_mono id (t + cnt id e')); [lia|exact I3].
        -- repeat split; try lia. constructor; [intros F; rewrite R4 in F; contradiction|].
           apply (cnt_le_mono id (t + cnt id e')); [lia|exact I3].
      * assert (p' = p) as ->.
        { unfold tick_entry in E.
          destruct ((match p_dl p with Some d => d <? 0 | None => false end) || (p_count p >=? max_rt c)); [discriminate|].
          destruct (ack_ms c * (p_count p + 1) <? p_elapsed p); [discriminate|]. injection E as <-. reflexivity. }
        cbn [fst snd credit nent]. destruct (p_id p =? id); repeat split; try lia;
          (constructor; [intros Ei; specialize (Hlp Ei); lia|exact I3]).
    + replace (match b with true => (r', e') | false => (r', e') end) with (r', e') by (destruct b; reflexivity).
      cbn [fst snd credit nent]. destruct (p_id p =? id); repeat split; try lia; exact I3.
Qed.

Lemma tick_all_copy_in c id l : In (Copy id) (snd (tick_all c l)) ->
  exists p p', In p l /\ p_id p = id /\ tick_entry c p = (Some p', true).
Proof.
  induction l as [|p r IH]; cbn [tick_all]; [intros []|].
  destruct (tick_all c r) as [r' e']. cbn [snd] in IH.
  destruct (tick_entry c p) as [[p'|] b] eqn:E.
  - destruct b; cbn [snd].
    + intros [H|H].
      * injection H as H. exists p, p'. destruct (tick_entry_resend _ _ _ E) as [_ [_ [_ [R4 _]]]].
        repeat split; [left; reflexivity|congruence|exact E].
      * destruct (IH H) as [x [x' [Hin Hx]]]. exists x, x'. split; [right; exact Hin|exact Hx].
    + intros H. destruct (IH H) as [x [x' [Hin Hx]]]. exists x, x'. split; [right; exact Hin|exact Hx].
  - destruct b; cbn [snd]; intros H; destruct (IH H) as [x [x' [Hin Hx]]]; exists x, x'; (split; [right; exact Hin|exact Hx]).
Qed.

(* ---------- the invariant ---------- *)

Record inv (c : cfg) (id : Z) (s : st) (a t S : Z) : Prop := {
  inv_adm : a + nwait id (reqs s) <= S;
  inv_rtx : t + credit c id (pending s) <= max_rt c * a;
  inv_ent : nent id (pending s) <= a;
  inv_cnt : cnt_le id t (pending s);
  inv_t : 0 <= t
}.

Lemma inv_init c id : inv c id init 0 0 0.
Proof. constructor; cbn; try lia. constructor. Qed.

(* requests: no new waiter; pending: a sublist obtained by filtering *)
Lemma inv_shrink c id s a t S l' f :
  inv_count c s -> inv c id s a t S -> nwait id l' <= nwait id (reqs s) ->
  inv c id {| reqs := l'; pending := filter f (pending s) |} a t S.
Proof.
  intros Hc [I1 I2 I3 I4 I5] Hl. constructor; cbn [reqs pending].
  - lia.
  - pose proof (credit_filter_le c id f _ Hc). lia.
  - pose proof (nent_filter_le id f (pending s)). lia.
  - apply filter_Forall. exact I4.
  - exact I5.
Qed.

Lemma inv_reqs c id s a t S l' :
  inv c id s a t S -> nwait id l' <= nwait id (reqs s) ->
  inv c id {| reqs := l'; pending := pending s |} a t S.
Proof. intros [I1 I2 I3 I4 I5] Hl. constructor; cbn [reqs pending]; try assumption. lia. Qed.

Lemma st_eta s : s = {| reqs := reqs s; pending := pending s |}.
Proof. destruct s; reflexivity. Qed.

(* one admission *)
Lemma inv_admit_one c id s q a t S :
  0 <= max_rt c -> first_waiting (reqs s) = Some q -> inv c id s a t S ->
  inv c id {| reqs := set_status (reqs s) (q_id q) (fun x => with_st x WaitAck);
              pending := pending s ++ [{| p_id := q_id q; p_elapsed := 0; p_dl := q_dl q; p_count := 0 |}] |}
      (a + (if q_id q =? id then 1 else 0)) t S.
Proof.
  intros Hm Fw [I1 I2 I3 I4 I5]. destruct (first_waiting_in _ _ Fw) as [Hin Hw].
  constructor; cbn [reqs pending]; try exact I5.
  - destruct (Z.eqb_spec (q_id q) id) as [E|E].
    + rewrite E, nwait_admitted. pose proof (nwait_in id _ q Hin E Hw). lia.
    + pose proof (nwait_set_status_le id (reqs s) (q_id q) (fun x => with_st x WaitAck)
                    (fun x => eq_refl) (fun x (H : is_wait_slot (q_st (with_st x WaitAck)) = true) =>
                       False_ind _ (Bool.diff_false_true H))). lia.
  - rewrite credit_app. cbn [credit p_id p_count]. destruct (q_id q =? id); lia.
  - rewrite nent_app. cbn [nent p_id]. destruct (q_id q =? id); lia.
  - unfold cnt_le in *. apply Forall_app; split; [exact I4|]. constructor; [|constructor]. cbn [p_count]. intros _. exact I5.
Qed.

Lemma admit_inv c id : 0 <= max_rt c -> forall fuel s acc a t S,
  inv c id s (a + cnt id acc) t S ->
  inv c id (fst (admit_waiters fuel c s acc)) (a + cnt id (snd (admit_waiters fuel c s acc))) t S.
Proof.
  intros Hm. induction fuel as [|f IH]; intros s acc a t S H; cbn [admit_waiters]; [exact H|].
  destruct (held s <? nstart c); [|exact H].
  destruct (first_waiting (reqs s)) as [q|] eqn:Fw; [|exact H].
  apply IH. rewrite cnt_app, cnt_one, Z.add_assoc. apply inv_admit_one; assumption.
Qed.

Lemma admit_all_inv c id s a t S : 0 <= max_rt c -> inv c id s a t S ->
  inv c id (fst (admit_all c s)) (a + cnt id (snd (admit_all c s))) t S.
Proof.
  intros Hm H. unfold admit_all. apply admit_inv; [exact Hm|]. rewrite cnt_nil, Z.add_0_r. exact H.
Qed.

Lemma wake_inv c id s i a t S : inv_count c s -> inv c id s a t S -> inv c id (wake s i) a t S.
Proof.
  intros Hc H. unfold wake. destruct (has_pend (pending s) i); [|exact H].
  unfold del_pend. apply inv_shrink; [exact Hc|exact H|]. apply nwait_set_status_le.
  - intros q. destruct (is_wait_ack (q_st q)); reflexivity.
  - intros q. destruct (is_wait_ack (q_st q)); [cbn; discriminate|auto].
Qed.

Lemma deliver_inv c id s i cd a t S : inv c id s a t S -> inv c id (deliver s i cd) a t S.
Proof.
  intros H. unfold deliver. apply inv_reqs; [exact H|]. apply nwait_set_status_le.
  - intros q. destruct (is_done (q_st q)); [reflexivity|]. destruct (q_buf q); reflexivity.
  - intros q. destruct (is_done (q_st q)); [auto|]. destruct (q_buf q); auto.
Qed.

Lemma settle_inv c id s a t S : inv c id s a t S -> inv c id (fst (settle s)) a t S.
Proof.
  intros H. unfold settle. pose proof (nwait_settle id (reqs s)) as N.
  destruct (settle_list (reqs s)) as [l ret]. cbn [fst] in *. apply inv_reqs; assumption.
Qed.

Lemma step_inv c id s e a t S :
  0 <= max_rt c -> inv_count c s -> inv c id s a t S ->
  inv c id (fst (step c s e))
      (a + (if is_tick e then 0 else cnt id (o_emit (snd (step c s e)))))
      (t + (if is_tick e then cnt id (o_emit (snd (step c s e))) else 0))
      (S + nsend1 id e).
Proof.
  intros Hm Hc H.
  assert (Hwake : forall i, inv_count c (wake s i)).
  { intros i. unfold wake. destruct (has_pend (pending s) i); [|exact Hc]. unfold inv_count, del_pend; cbn [pending]. apply filter_Forall; exact Hc. }
  destruct e as [i tok dl|ms| |i|i|i code|i code pmid|i]; cbn [step is_tick nsend1]; try rewrite (Z.add_0_r t); try rewrite (Z.add_0_r S).
  - (* Send *)
    match goal with |- context [admit_all c ?s1] => assert (Q : inv c id s1 a t (S + (if i =? id then 1 else 0))) end.
    { destruct H as [I1 I2 I3 I4 I5]. constructor; cbn [reqs pending]; try assumption.
      rewrite nwait_app. cbn [nwait q_id q_st is_wait_slot]. rewrite andb_true_r. destruct (i =? id); lia. }
    pose proof (admit_all_inv c id _ _ _ _ Hm Q) as G. destruct (admit_all c _) as [s2 em]. exact G.
  - (* Age *)
    cbn [fst snd o_emit]. rewrite ?cnt_nil, ?Z.add_0_r. destruct H as [I1 I2 I3 I4 I5].
    change (map _ (pending s)) with (map (aged ms) (pending s)).
    constructor; cbn [reqs pending]; [exact I1|rewrite credit_aged; exact I2|rewrite nent_aged; exact I3|apply cnt_le_aged; exact I4|exact I5].
  - (* Tick *)
    destruct H as [I1 I2 I3 I4 I5].
    destruct (tick_all_pot c id t (pending s) Hc I4) as [T1 [T2 [T3 T4]]].
    destruct (tick_all c (pending s)) as [l em]. cbn [fst snd o_emit] in *.
    pose proof (cnt_nonneg id em). constructor; cbn [reqs pending]; try assumption; lia.
  - (* Ack *)
    pose proof (settle_inv c id _ _ _ _ (wake_inv c id s i a t S Hc H)) as Q.
    destruct (settle (wake s i)) as [s2 ret]. cbn [fst] in Q.
    pose proof (admit_all_inv c id _ _ _ _ Hm Q) as G. destruct (admit_all c s2) as [s3 em]. exact G.
  - (* Rst *)
    pose proof (settle_inv c id _ _ _ _ (wake_inv c id s i a t S Hc H)) as Q.
    destruct (settle (wake s i)) as [s2 ret]. cbn [fst] in Q.
    pose proof (admit_all_inv c id _ _ _ _ Hm Q) as G. destruct (admit_all c s2) as [s3 em]. exact G.
  - (* Piggy *)
    pose proof (settle_inv c id _ _ _ _ (deliver_inv c id _ i code _ _ _ (wake_inv c id s i a t S Hc H))) as Q.
    destruct (settle (deliver (wake s i) i code)) as [s2 ret]. cbn [fst] in Q.
    pose proof (admit_all_inv c id _ _ _ _ Hm Q) as G. destruct (admit_all c s2) as [s3 em]. exact G.
  - (* Sep *)
    pose proof (settle_inv c id _ _ _ _ (deliver_inv c id s i code _ _ _ H)) as Q.
    destruct (settle (deliver s i code)) as [s2 ret]. cbn [fst snd o_emit] in *.
    replace (cnt id [BareAck pmid]) with 0 by reflexivity. rewrite ?Z.add_0_r. exact Q.
  - (* Cancel *)
    destruct (find_rq (reqs s) i) as [q|]; [|cbn [fst snd o_emit]; rewrite ?cnt_nil, ?Z.add_0_r; exact H].
    destruct (is_done (q_st q)); [cbn [fst snd o_emit]; rewrite ?cnt_nil, ?Z.add_0_r; exact H|].
    match goal with |- context [admit_all c ?s1] => assert (Q : inv c id s1 a t S) end.
    { unfold del_pend. apply inv_shrink; [exact Hc|exact H|]. apply nwait_set_status_le; [reflexivity|intros x; cbn; discriminate]. }
    pose proof (admit_all_inv c id _ _ _ _ Hm Q) as G. destruct (admit_all c _) as [s2 em]. exact G.
Qed.

Lemma run_inv c id : 0 <= max_rt c -> forall evs s a t S,
  inv_count c s -> inv c id s a t S ->
  inv c id (final c s evs) (a + firsts id evs (outs c s evs)) (t + resends id evs (outs c s evs)) (S + nsend id evs).
Proof.
  intros Hm. induction evs as [|e evs IH]; intros s a t S Hc H.
  - cbn. rewrite !Z.add_0_r. exact H.
  - rewrite final_cons, firsts_cons, resends_cons. cbn [nsend]. rewrite !Z.add_assoc.
    apply IH; [apply step_inv_count; assumption|apply step_inv; assumption].
Qed.

Lemma reach_inv c id evs : 0 <= max_rt c ->
  inv c id (final c init evs) (firsts id evs (outs c init evs)) (resends id evs (outs c init evs)) (nsend id evs).
Proof. intros Hm. apply (run_inv c id Hm evs init 0 0 0); [constructor|apply inv_init]. Qed.

(* ---------- the theorems ---------- *)

(* the first transmission happens once, at the admission of the request (an event other than Tick);
   re-sends (copies emitted by Tick events) exist only after it and there are at most MAX_RETRANSMIT *)
Theorem first_copy_once : forall c evs id,
  0 <= max_rt c -> NoDup (send_ids evs) ->
  firsts id evs (outs c init evs) <= 1 /\
  resends id evs (outs c init evs) <= max_rt c * firsts id evs (outs c init evs) /\
  (0 < cnt_obs id (outs c init evs) -> firsts id evs (outs c init evs) = 1).
Proof.
  intros c evs id Hm Hnd. destruct (reach_inv c id evs Hm) as [I1 I2 I3 I4 I5].
  pose proof (nsend_nodup id evs Hnd) as Ns.
  pose proof (nwait_nonneg id (reqs (final c init evs))) as Nw.
  pose proof (credit_nonneg c id _ (count_bounded c evs Hm)) as Nc.
  pose proof (nent_nonneg id (pending (final c init evs))) as Ne.
  rewrite copies_split. repeat split; try lia; intros Hpos; nia.
Qed.

(* C06, trace level: at most 1 + MAX_RETRANSMIT copies of a request are ever put on the wire *)
Theorem copies_bounded : forall c evs id,
  0 <= max_rt c -> NoDup (send_ids evs) ->
  cnt_obs id (outs c init evs) <= 1 + max_rt c.
Proof.
  intros c evs id Hm Hnd. destruct (first_copy_once c evs id Hm Hnd) as [F1 [F2 _]].
  rewrite copies_split. nia.
Qed.

(* without the distinctness hypothesis: (1 + MAX_RETRANSMIT) copies per submission of the id *)
Theorem copies_bounded_general : forall c evs id,
  0 <= max_rt c -> cnt_obs id (outs c init evs) <= (1 + max_rt c) * nsend id evs.
Proof.
  intros c evs id Hm. destruct (reach_inv c id evs Hm) as [I1 I2 I3 I4 I5].
  pose proof (nwait_nonneg id (reqs (final c init evs))) as Nw.
  pose proof (credit_nonneg c id _ (count_bounded c evs Hm)) as Nc.
  rewrite copies_split. nia.
Qed.

(* a Tick that re-sends request id after the history [pre] emits exactly one copy; it is the (k+1)-th
   re-send where k is the number of re-sends in [pre]; the entry's counter is k and MORE than
   (k+1) x ACK_TIMEOUT elapsed since the first transmission *)
Theorem resend_spacing_trace : forall c pre id,
  0 <= max_rt c -> NoDup (send_ids pre) ->
  In (Copy id) (o_emit (snd (step c (final c init pre) Tick))) ->
  cnt id (o_emit (snd (step c (final c init pre) Tick))) = 1 /\
  exists p, In p (pending (final c init pre)) /\ p_id p = id /\
            p_count p = resends id pre (outs c init pre) /\
            p_count p < max_rt c /\
            ack_ms c * (resends id pre (outs c init pre) + 1) < p_elapsed p.
Proof.
  intros c pre id Hm Hnd. destruct (reach_inv c id pre Hm) as [I1 I2 I3 I4 I5].
  pose proof (nsend_nodup id pre Hnd) as Ns. pose proof (count_bounded c pre Hm) as Hc.
  set (s := final c init pre) in *. set (k := resends id pre (outs c init pre)) in *.
  pose proof (nwait_nonneg id (reqs s)) as Nw.
  cbn [step]. destruct (tick_all_pot c id k (pending s) Hc I4) as [_ [_ [_ T4]]].
  pose proof (tick_all_copy_in c id (pending s)) as Tin.
  destruct (tick_all c (pending s)) as [l em]. cbn [fst snd o_emit] in *.
  intros Hin. destruct (Tin Hin) as [p [p' [Hp [Hid E]]]].
  pose proof (cnt_pos_in id em Hin) as C1. pose proof (nent_in id _ p Hp Hid) as N1.
  split; [lia|]. exists p.
  destruct (tick_entry_resend _ _ _ E) as [R1 [R2 _]].
  pose proof (credit_in c id _ p Hc Hp Hid) as Cr.
  unfold cnt_le in I4. rewrite Forall_forall in I4. specialize (I4 p Hp Hid).
  assert (Ea : firsts id pre (outs c init pre) = 1) by lia. rewrite Ea in I2.
  assert (Ek : p_count p = k) by lia.
  repeat split; try assumption. rewrite <- Ek. exact R2.
Qed.
