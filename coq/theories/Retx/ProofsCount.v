(* C06, trace level: over every history with distinct request ids, the number of copies of a request put
   on the wire is at most 1 + MAX_RETRANSMIT. *)
From Coq Require Import ZArith List Bool Lia.
From GoCoap Require Import Retx.Model Retx.Proofs.
Import ListNotations.
Open Scope Z_scope.

Definition is_copy (id : Z) (e : emit) : bool := match e with Copy i => i =? id | _ => false end.
Definition cnt (id : Z) (l : list emit) : Z := Z.of_nat (length (filter (is_copy id) l)).
Fixpoint cnt_obs (id : Z) (os : list obs) : Z :=
  match os with [] => 0 | o :: r => cnt id (o_emit o) + cnt_obs id r end.

Lemma cnt_app id a b : cnt id (a ++ b) = cnt id a + cnt id b.
Proof. unfold cnt. rewrite filter_app, app_length. lia. Qed.
Lemma cnt_nonneg id l : 0 <= cnt id l.
Proof. unfold cnt. lia. Qed.
Lemma cnt_zero_iff id l : ~ In (Copy id) l -> cnt id l = 0.
Proof.
  unfold cnt. induction l as [|e l IH]; intros H; [reflexivity|]. cbn [filter].
  destruct e as [i|p]; cbn [is_copy].
  - destruct (Z.eqb_spec i id) as [->|_]; [exfalso; apply H; left; reflexivity|]. apply IH. intros F; apply H; right; exact F.
  - apply IH. intros F; apply H; right; exact F.
Qed.

(* ---------- the phase of one request id ---------- *)

Definition ids_of (l : list rq) : list Z := map q_id l.
Definition pids_of (l : list pend) : list Z := map p_id l.

Definition count_of (l : list pend) (id : Z) : Z :=
  match find (fun p => p_id p =? id) l with Some p => p_count p | None => 0 end.

(* global well-formedness kept by every step *)
Record wf (s : st) : Prop := {
  wf_req_nodup : NoDup (ids_of (reqs s));
  wf_pend_nodup : NoDup (pids_of (pending s));
  wf_pend_sent : forall p, In p (pending s) -> exists q, In q (reqs s) /\ q_id q = p_id p /\ is_wait_slot (q_st q) = false
}.

Inductive phase (c : cfg) (id : Z) (s : st) (n : Z) : Prop :=
| ph_unsent : ~ In id (ids_of (reqs s)) -> has_pend (pending s) id = false -> n = 0 -> phase c id s n
| ph_waiting : (exists q, In q (reqs s) /\ q_id q = id /\ is_wait_slot (q_st q) = true) ->
               has_pend (pending s) id = false -> n = 0 -> phase c id s n
| ph_pending : has_pend (pending s) id = true -> n = 1 + count_of (pending s) id ->
               0 <= count_of (pending s) id <= max_rt c -> phase c id s n
| ph_quiet : In id (ids_of (reqs s)) -> quiet id s -> n <= 1 + max_rt c -> phase c id s n.

Definition sends_id (id : Z) (e : ev) : bool := match e with Send i _ _ => i =? id | _ => false end.
Fixpoint send_ids (evs : list ev) : list Z :=
  match evs with [] => [] | Send i _ _ :: r => i :: send_ids r | _ :: r => send_ids r end.
