(* Model of the confirmable-request sender of udp/client.Conn:
   writeMessage / prepareWriteMessage (pending table entry with a private clone,
   NSTART semaphore), CheckExpirations -> checkMidHandlerContainer (expiry and
   retransmission decision per entry), handleSpecialMessages (a message whose ID
   matches a pending entry removes it and wakes the writer), doInternal (token
   continuation; response hand-over), context cancellation.
   Time: every pending entry carries the ms elapsed since it was created and the
   ms left until its context deadline; [Age d] lets d ms pass for the pending
   table (the harness shifts the entries' stamps instead of waiting). *)
From Coq Require Import ZArith List Bool.
Import ListNotations.
Open Scope Z_scope.

Inductive status :=
| WaitSlot                 (* blocked in acquireOutstandingInteraction (NSTART) *)
| WaitAck                  (* first copy sent, in waitForAcknowledge *)
| WaitResp                 (* writer woken, waiting for the response on the token *)
| Done (res : Z).          (* call returned: 0 = response, 1 = context cancelled *)

(* q_buf: the response sitting in the caller's one-slot channel (the token continuation is one-shot:
   once it has fired, later messages with that token are no longer matched) *)
Record rq := { q_id : Z; q_tok : list Z; q_dl : option Z; q_st : status; q_buf : option Z }.
Record pend := { p_id : Z; p_elapsed : Z; p_dl : option Z; p_count : Z }.
Record cfg := { ack_ms : Z; max_rt : Z; nstart : Z }.
Record st := { reqs : list rq; pending : list pend }.

Inductive ev :=
| Send (id : Z) (tok : list Z) (dl : option Z)
| Age (ms : Z)
| Tick
| Ack (id : Z)                 (* empty ACK carrying the request's message ID *)
| Rst (id : Z)                 (* empty RST carrying the request's message ID *)
| Piggy (id : Z) (code : Z)    (* ACK with the message ID, the token and a response code *)
| Sep (id : Z) (code : Z) (pmid : Z)  (* CON response with the token and a message ID of the peer *)
| Cancel (id : Z).

(* what the connection puts on the wire *)
Inductive emit :=
| Copy (id : Z)                (* a copy of request id (first transmission or re-send), byte-identical to the first *)
| BareAck (pmid : Z).          (* empty ACK for a confirmable message of the peer *)

Record obs := { o_emit : list emit; o_ret : list (Z * Z * Z) (* (id, result, response code) *) }.

Definition is_wait_ack (s : status) : bool := match s with WaitAck => true | _ => false end.
Definition is_wait_slot (s : status) : bool := match s with WaitSlot => true | _ => false end.
Definition is_done (s : status) : bool := match s with Done _ => true | _ => false end.

Definition held (s : st) : Z := Z.of_nat (length (filter (fun q => is_wait_ack (q_st q)) (reqs s))).

Definition set_status (l : list rq) (id : Z) (f : rq -> rq) : list rq :=
  map (fun q => if q_id q =? id then f q else q) l.

Definition with_st (q : rq) (x : status) : rq :=
  {| q_id := q_id q; q_tok := q_tok q; q_dl := q_dl q; q_st := x; q_buf := q_buf q |}.
Definition with_buf (q : rq) (c : Z) : rq :=
  {| q_id := q_id q; q_tok := q_tok q; q_dl := q_dl q; q_st := q_st q; q_buf := Some c |}.

Fixpoint find_rq (l : list rq) (id : Z) : option rq :=
  match l with [] => None | q :: r => if q_id q =? id then Some q else find_rq r id end.

Fixpoint first_waiting (l : list rq) : option rq :=
  match l with [] => None | q :: r => if is_wait_slot (q_st q) then Some q else first_waiting r end.

Definition has_pend (l : list pend) (id : Z) : bool := existsb (fun p => p_id p =? id) l.
Definition del_pend (l : list pend) (id : Z) : list pend := filter (fun p => negb (p_id p =? id)) l.

(* admit_waiters waiters in FIFO order while NSTART allows; each admission creates the pending entry and
   transmits the first copy.  fuel bounds the number of admissions by the number of requests. *)
Fixpoint admit_waiters (fuel : nat) (c : cfg) (s : st) (acc : list emit) : st * list emit :=
  match fuel with
  | O => (s, acc)
  | S f =>
      if held s <? nstart c then
        match first_waiting (reqs s) with
        | None => (s, acc)
        | Some q =>
            let s' := {| reqs := set_status (reqs s) (q_id q) (fun x => with_st x WaitAck);
                         pending := pending s ++ [{| p_id := q_id q; p_elapsed := 0; p_dl := q_dl q; p_count := 0 |}] |} in
            admit_waiters f c s' (acc ++ [Copy (q_id q)])
        end
      else (s, acc)
  end.

Definition admit_all (c : cfg) (s : st) : st * list emit := admit_waiters (S (length (reqs s))) c s [].

(* checkMidHandlerContainer for one entry: (keep?, entry', retransmit?) *)
Definition tick_entry (c : cfg) (p : pend) : option pend * bool :=
  let expired := (match p_dl p with Some d => d <? 0 | None => false end) || (p_count p >=? max_rt c) in
  if expired then (None, false)
  else if ack_ms c * (p_count p + 1) <? p_elapsed p
       then (Some {| p_id := p_id p; p_elapsed := p_elapsed p; p_dl := p_dl p; p_count := p_count p + 1 |}, true)
       else (Some p, false).

Fixpoint tick_all (c : cfg) (l : list pend) : list pend * list emit :=
  match l with
  | [] => ([], [])
  | p :: r =>
      let '(r', e') := tick_all c r in
      match tick_entry c p with
      | (None, _) => (r', e')
      | (Some p', true) => (p' :: r', Copy (p_id p') :: e')
      | (Some p', false) => (p' :: r', e')
      end
  end.

(* a message carrying the ID of pending entry [id] arrived: entry removed, writer woken *)
Definition wake (s : st) (id : Z) : st :=
  if has_pend (pending s) id then
    {| reqs := set_status (reqs s) id (fun q => if is_wait_ack (q_st q) then with_st q WaitResp else q);
       pending := del_pend (pending s) id |}
  else s.

(* a response with the token of request [id] reaches the token continuation, if it is still registered *)
Definition deliver (s : st) (id : Z) (code : Z) : st :=
  {| reqs := set_status (reqs s) id (fun q => if is_done (q_st q) then q else match q_buf q with Some _ => q | None => with_buf q code end);
     pending := pending s |}.

(* callers that are past waitForAcknowledge and have a response in their channel return it *)
Definition settle_rq (q : rq) : rq * list (Z * Z * Z) :=
  match q_st q, q_buf q with
  | WaitResp, Some c => (with_st q (Done 0), [(q_id q, 0, c)])
  | _, _ => (q, [])
  end.
Fixpoint settle_list (l : list rq) : list rq * list (Z * Z * Z) :=
  match l with
  | [] => ([], [])
  | q :: r => let '(q', a) := settle_rq q in let '(r', b) := settle_list r in (q' :: r', a ++ b)
  end.
Definition settle (s : st) : st * list (Z * Z * Z) :=
  let '(l, ret) := settle_list (reqs s) in ({| reqs := l; pending := pending s |}, ret).

Definition step (c : cfg) (s : st) (e : ev) : st * obs :=
  match e with
  | Send id tok dl =>
      let s1 := {| reqs := reqs s ++ [{| q_id := id; q_tok := tok; q_dl := dl; q_st := WaitSlot; q_buf := None |}]; pending := pending s |} in
      let '(s2, em) := admit_all c s1 in
      (s2, {| o_emit := em; o_ret := [] |})
  | Age ms =>
      ({| reqs := reqs s;
          pending := map (fun p => {| p_id := p_id p; p_elapsed := p_elapsed p + ms;
                                      p_dl := match p_dl p with Some d => Some (d - ms) | None => None end;
                                      p_count := p_count p |}) (pending s) |},
       {| o_emit := []; o_ret := [] |})
  | Tick =>
      let '(l, em) := tick_all c (pending s) in
      ({| reqs := reqs s; pending := l |}, {| o_emit := em; o_ret := [] |})
  | Ack id | Rst id =>
      let s1 := wake s id in
      let '(s2, ret) := settle s1 in
      let '(s3, em) := admit_all c s2 in
      (s3, {| o_emit := em; o_ret := ret |})
  | Piggy id code =>
      let s1 := deliver (wake s id) id code in
      let '(s2, ret) := settle s1 in
      let '(s3, em) := admit_all c s2 in
      (s3, {| o_emit := em; o_ret := ret |})
  | Sep id code pmid =>
      (* a confirmable response of the peer: handed to the waiting caller (if any); always acknowledged *)
      let '(s1, ret) := settle (deliver s id code) in
      (s1, {| o_emit := [BareAck pmid]; o_ret := ret |})
  | Cancel id =>
      match find_rq (reqs s) id with
      | Some q =>
          if is_done (q_st q) then (s, {| o_emit := []; o_ret := [] |})
          else
            let s1 := {| reqs := set_status (reqs s) id (fun x => with_st x (Done 1)); pending := del_pend (pending s) id |} in
            let '(s2, em) := admit_all c s1 in
            (s2, {| o_emit := em; o_ret := [(id, 1, 0)] |})
      | None => (s, {| o_emit := []; o_ret := [] |})
      end
  end.

Fixpoint run (c : cfg) (s : st) (evs : list ev) : st * list obs :=
  match evs with
  | [] => (s, [])
  | e :: r => let '(s1, o) := step c s e in let '(s2, os) := run c s1 r in (s2, o :: os)
  end.

Definition init : st := {| reqs := []; pending := [] |}.
