(* C06 as a predicate over an OBSERVED history, written from the property text:
   a confirmable request is transmitted once and then re-sent only while it is
   unacknowledged: at most MAX_RETRANSMIT further copies, the k-th no earlier
   than k x ACK_TIMEOUT after the first, every copy byte-identical, no copy
   after an acknowledgement, a reset, the caller's cancellation or the return of
   the call.  If the acknowledgement/response gets back before the attempts are
   exhausted the call succeeds with that response; exhaustion or a reset never
   produces a successful response. *)
From Coq Require Import ZArith NArith List Bool.
Import ListNotations.
Open Scope Z_scope.

Inductive oemit := OCopy (id : Z) (identical : bool) | OBareAck (pmid : Z) | OOther.

Inductive okind :=
| KSend (id : Z) (dl : option Z) | KSendM (id : Z) (dl : option Z) (mid : Z) | KAge (ms : Z) | KTick | KAck (id : Z) | KRst (id : Z)
| KPiggy (id code : Z) | KSep (id code : Z) | KCancel (id : Z).

Record oev := { k : okind; em : list oemit; ret : list (Z * Z * Z) }.

Definition MARGIN : Z := 300.

Record track := { t_id : Z; t_mid : Z (* message ID, by name *); t_copies : Z; t_elapsed : Z; t_stopped : bool; t_ticked : bool;
                  t_acked : bool; t_dl : option Z; t_resp : option Z; t_done : bool;
                  t_dead : bool (* found exhausted by a tick *);
                  t_freed : bool (* the exchange is over for NSTART: acknowledged or reset while pending, or cancelled *) }.

Definition upd (l : list track) (id : Z) (f : track -> track) : list track :=
  map (fun t => if t_id t =? id then f t else t) l.
Fixpoint get (l : list track) (id : Z) : option track :=
  match l with [] => None | t :: r => if t_id t =? id then Some t else get r id end.

(* the attempts are not exhausted and the deadline has not passed (with the timing margin) *)
Definition alive (maxrt : Z) (t : track) : bool :=
  ((t_copies t <? 1 + maxrt) || negb (t_ticked t)) &&
  (match t_dl t with Some d => t_elapsed t <? d - MARGIN | None => true end) &&
  (1 <=? t_copies t).

Definition has_ret (r : list (Z * Z * Z)) (id res code : Z) : bool :=
  existsb (fun '(i, x, c) => (i =? id) && (x =? res) && (c =? code)) r.

(* classes: 1 too many copies; 2 copy not byte-identical; 3 re-send too early (or outside a tick);
   4 copy after ack/reset/cancel/return; 5 response arrived in time but the call did not succeed with it;
   6 success without a matching response; 7 success although the attempts were exhausted;
   8 not transmitted although an NSTART slot is free (below).
   (A Reset releases the writer exactly as an acknowledgement does, and the call goes on waiting for a
   response by token; a response that the peer sends after its own Reset is returned. The Reset itself
   never becomes a response - class 6 - and that is how the reset clause is read here.) *)
Fixpoint copies_ok (ack maxrt : Z) (is_tick : bool) (ts : list track) (e : list oemit) : N * list track :=
  match e with
  | [] => (0%N, ts)
  | OCopy id ident :: r =>
      match get ts id with
      | None => (6%N, ts)
      | Some t =>
          if negb ident then (2%N, ts)
          else if t_stopped t || t_done t then (4%N, ts)
          else if 1 + maxrt <? t_copies t + 1 then (1%N, ts)
          else if (1 <=? t_copies t) && (negb is_tick || (t_elapsed t <? t_copies t * ack - MARGIN)) then (3%N, ts)
          else copies_ok ack maxrt is_tick
                 (upd ts id (fun t => {| t_id := t_id t; t_mid := t_mid t; t_copies := t_copies t + 1; t_elapsed := t_elapsed t; t_stopped := t_stopped t;
                                         t_ticked := false; t_acked := t_acked t; t_dl := t_dl t; t_resp := t_resp t; t_done := t_done t; t_dead := t_dead t; t_freed := t_freed t |})) r
      end
  | _ :: r => copies_ok ack maxrt is_tick ts r
  end.

Fixpoint rets_ok (ts : list track) (r : list (Z * Z * Z)) : N * list track :=
  match r with
  | [] => (0%N, ts)
  | (id, res, code) :: r' =>
      match get ts id with
      | None => (6%N, ts)
      | Some t =>
          if (res =? 0) && negb (match t_resp t with Some c => c =? code | None => false end) then (6%N, ts)
          else if (res =? 0) && t_dead t then (7%N, ts)
          else rets_ok (upd ts id (fun t => {| t_id := t_id t; t_mid := t_mid t; t_copies := t_copies t; t_elapsed := t_elapsed t; t_stopped := true;
                                               t_ticked := t_ticked t; t_acked := t_acked t; t_dl := t_dl t; t_resp := t_resp t; t_done := true; t_dead := t_dead t; t_freed := t_freed t |})) r'
      end
  end.

Definition set_flags (t : track) (stopped acked : bool) (resp : option Z) : track :=
  {| t_id := t_id t; t_mid := t_mid t; t_copies := t_copies t; t_elapsed := t_elapsed t; t_stopped := t_stopped t || stopped;
     t_ticked := t_ticked t; t_acked := t_acked t || acked; t_dl := t_dl t;
     t_resp := match t_resp t with Some c => Some c | None => resp end; t_done := t_done t; t_dead := t_dead t; t_freed := t_freed t |}.

Definition set_freed (t : track) (b : bool) : track :=
  {| t_id := t_id t; t_mid := t_mid t; t_copies := t_copies t; t_elapsed := t_elapsed t; t_stopped := t_stopped t;
     t_ticked := t_ticked t; t_acked := t_acked t; t_dl := t_dl t; t_resp := t_resp t; t_done := t_done t; t_dead := t_dead t;
     t_freed := t_freed t || b |}.

Definition new_track (id mid : Z) (dl : option Z) : track :=
  {| t_id := id; t_mid := mid; t_copies := 0; t_elapsed := 0; t_stopped := false; t_ticked := false;
     t_acked := false; t_dl := dl; t_resp := None; t_done := false; t_dead := false; t_freed := false |}.

(* "The matching acknowledgement": an ACK / RST is matched by the message ID it carries.  The event
   [KAck id] stands for an ACK carrying the message ID of request id (a request issued with plain Send has
   a fresh ID of its own, [KSendM] names the ID chosen by the application).  It acknowledges the request
   that is outstanding under that ID: transmitted, not yet acknowledged/reset/cancelled, call not returned.
   At most one request can be (a second one using the ID of an outstanding request is refused); if none
   is, the message answers nothing that is still open and is accounted to request id itself. *)
Definition outstanding (t : track) : bool := (1 <=? t_copies t) && negb (t_done t) && negb (t_stopped t).
Definition mid_name (ts : list track) (id : Z) : Z := match get ts id with Some t => t_mid t | None => id end.
Fixpoint find_out (ts : list track) (m : Z) : option Z :=
  match ts with [] => None | t :: r => if (t_mid t =? m) && outstanding t then Some (t_id t) else find_out r m end.
Definition ack_target (ts : list track) (id : Z) : Z :=
  match find_out ts (mid_name ts id) with Some j => j | None => id end.

Definition judge (ack maxrt : Z) (ts : list track) (e : oev) : N * list track :=
  (* 1. bookkeeping that precedes the observation of this event *)
  let is_tick := match k e with KTick => true | _ => false end in
  let ts0 :=
    match k e with
    | KSend id dl => ts ++ [new_track id id dl]
    | KSendM id dl m => ts ++ [new_track id m dl]
    | KAge ms => map (fun t => if 1 <=? t_copies t then
                                 {| t_id := t_id t; t_mid := t_mid t; t_copies := t_copies t; t_elapsed := t_elapsed t + ms; t_stopped := t_stopped t;
                                    t_ticked := t_ticked t; t_acked := t_acked t; t_dl := t_dl t; t_resp := t_resp t; t_done := t_done t; t_dead := t_dead t; t_freed := t_freed t |}
                               else t) ts
    | KTick => map (fun t => {| t_id := t_id t; t_mid := t_mid t; t_copies := t_copies t; t_elapsed := t_elapsed t; t_stopped := t_stopped t;
                                t_ticked := true; t_acked := t_acked t; t_dl := t_dl t; t_resp := t_resp t; t_done := t_done t;
                                (* all 1 + MAX_RETRANSMIT copies went out before this tick and the request is still pending (nothing
                                   acknowledged, reset or cancelled it): exhausted *)
                                t_dead := t_dead t || ((1 + maxrt <=? t_copies t) && negb (t_acked t) && negb (t_stopped t)); t_freed := t_freed t |}) ts
    | _ => ts
    end in
  (* 2. what must come back at this event *)
  let expect : option (Z * Z) :=
    match k e with
    | KPiggy id code =>
        match get ts0 id with
        | Some t => if alive maxrt t && negb (t_done t) && negb (t_stopped t && negb (t_acked t)) then
                      Some (id, match t_resp t with Some c => c | None => code end) else None
        | None => None end
    | KSep id code =>
        match get ts0 id with
        | Some t => if t_acked t && negb (t_done t) then Some (id, match t_resp t with Some c => c | None => code end) else None
        | None => None end
    | KAck id =>
        let j := ack_target ts0 id in
        match get ts0 j with
        | Some t => if alive maxrt t && negb (t_done t) && negb (t_stopped t)
                    then match t_resp t with Some c => Some (j, c) | None => None end else None
        | None => None end
    | _ => None
    end in
  (* 3. flags set by the event itself *)
  let ts1 :=
    match k e with
    | KAck id => upd ts0 (ack_target ts0 id) (fun t => set_freed (set_flags t true (alive maxrt t && negb (t_stopped t)) None) (alive maxrt t && negb (t_stopped t)))
    | KRst id => upd ts0 (ack_target ts0 id) (fun t => set_freed (set_flags t true false None) (alive maxrt t && negb (t_stopped t)))
    | KPiggy id code =>
        (* the ACK part goes by message ID, the response part by token (request id) *)
        let ts' := upd ts0 (ack_target ts0 id) (fun t => set_freed (set_flags t true (alive maxrt t && negb (t_stopped t)) None) (alive maxrt t && negb (t_stopped t))) in
        upd ts' id (fun t => set_flags t false false (if t_done t then None else Some code))
    | KSep id code => upd ts0 id (fun t => set_flags t false false (if t_done t then None else Some code))
    | KCancel id => upd ts0 id (fun t => set_freed (set_flags t true false None) true)
    | _ => ts0
    end in
  (* copies observed at this event are judged against the state BEFORE the event's own stop flag,
     except that nothing may be copied at the very event that stops the request *)
  let '(c1, ts2) := copies_ok ack maxrt is_tick ts1 (em e) in
  if negb (N.eqb c1 0) then (c1, ts2) else
  let ok_expect := match expect with Some (id, c) => has_ret (ret e) id 0 c | None => true end in
  if negb ok_expect then (5%N, ts2) else
  let '(c2, ts3) := rets_ok ts2 (ret e) in
  if negb (N.eqb c2 0) then (c2, ts3) else
  (0%N, ts3).

(* "A confirmable request issued through the client API is transmitted": its first transmission may be
   deferred only while NSTART other exchanges are outstanding (RFC 7252 4.7).  An exchange counts as
   outstanding here, generously, from its first transmission until an acknowledgement or a reset that arrives
   while it is pending, the caller's cancellation or the return of the call - also after its attempts are
   exhausted (an ACK that comes too late ends nothing: the call lingers until its context ends).  Class 8: once an event
   has been processed, a request is still untransmitted (and neither cancelled nor returned) although fewer
   than NSTART exchanges are outstanding. *)
Definition occupying (t : track) : bool := (1 <=? t_copies t) && negb (t_freed t) && negb (t_done t).
Definition unsent (t : track) : bool := (t_copies t =? 0) && negb (t_stopped t) && negb (t_done t).
Definition idle_slot (nst : Z) (ts : list track) : bool :=
  (Z.of_nat (length (filter occupying ts)) <? nst) && existsb unsent ts.

Fixpoint judge_all (ack maxrt nst : Z) (ts : list track) (h : list oev) : N :=
  match h with
  | [] => 0%N
  | e :: r => let '(c, ts') := judge ack maxrt ts e in
              if negb (N.eqb c 0) then c else if idle_slot nst ts' then 8%N else judge_all ack maxrt nst ts' r
  end.

Definition c06_class (ack maxrt nst : Z) (h : list oev) : N := judge_all ack maxrt nst [] h.
