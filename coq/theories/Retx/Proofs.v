From Coq Require Import ZArith List Bool Lia.
From GoCoap Require Import Retx.Model.
Import ListNotations.
Open Scope Z_scope.

Definition final (c : cfg) (s : st) (evs : list ev) : st := fst (run c s evs).
Definition outs (c : cfg) (s : st) (evs : list ev) : list obs := snd (run c s evs).

Lemma final_cons c s e evs : final c s (e :: evs) = final c (fst (step c s e)) evs.
Proof. unfold final. cbn [run]. destruct (step c s e) as [s1 o]. cbn [fst]. destruct (run c s1 evs). reflexivity. Qed.
Lemma outs_cons c s e evs : outs c s (e :: evs) = snd (step c s e) :: outs c (fst (step c s e)) evs.
Proof. unfold outs. cbn [run]. destruct (step c s e) as [s1 o]. cbn [fst snd]. destruct (run c s1 evs). reflexivity. Qed.

Definition age_ok (e : ev) : Prop := match e with Age ms => 0 <= ms | _ => True end.

(* ---------- (A) the retransmission decision for one entry ---------- *)

Lemma tick_entry_resend c p p' :
  tick_entry c p = (Some p', true) ->
  p_count p < max_rt c /\ ack_ms c * (p_count p + 1) < p_elapsed p /\
  p_count p' = p_count p + 1 /\ p_id p' = p_id p /\ p_elapsed p' = p_elapsed p /\
  (forall d, p_dl p = Some d -> 0 <= d).
Proof.
  unfold tick_entry.
  destruct ((match p_dl p with Some d => d <? 0 | None => false end) || (p_count p >=? max_rt c)) eqn:E; [discriminate|].
  apply orb_false_elim in E as [E1 E2].
  destruct (ack_ms c * (p_count p + 1) <? p_elapsed p) eqn:E3; [|discriminate].
  intros H; injection H as <-. cbn [p_count p_id p_elapsed].
  repeat split; try lia.
  intros d Hd. rewrite Hd in E1. lia.
Qed.

Lemma tick_entry_keep c p p' b : tick_entry c p = (Some p', b) -> p_id p' = p_id p /\ p_count p <= p_count p' <= p_count p + 1.
Proof.
  unfold tick_entry.
  destruct ((match p_dl p with Some d => d <? 0 | None => false end) || (p_count p >=? max_rt c)); [discriminate|].
  destruct (ack_ms c * (p_count p + 1) <? p_elapsed p); intros H; injection H as <- <-; cbn; lia.
Qed.

(* exhausted or past its deadline: removed without another copy *)
Lemma tick_entry_exhausted c p : max_rt c <= p_count p -> tick_entry c p = (None, false).
Proof.
  intros H. unfold tick_entry. destruct (p_count p >=? max_rt c) eqn:E; [|lia].
  rewrite orb_true_r. reflexivity.
Qed.

(* ---------- (B) the retransmission counter never exceeds MAX_RETRANSMIT ---------- *)

Definition pend_ok (c : cfg) (p : pend) : Prop := 0 <= p_count p <= max_rt c.
Definition inv_count (c : cfg) (s : st) : Prop := Forall (pend_ok c) (pending s).

Lemma admit_inv_count c : 0 <= max_rt c -> forall fuel s acc, inv_count c s -> inv_count c (fst (admit_waiters fuel c s acc)).
Proof.
  intros Hm. induction fuel as [|f IH]; intros s acc H; cbn [admit_waiters]; [exact H|].
  destruct (held s <? nstart c); [|exact H].
  destruct (first_waiting (reqs s)) as [q|]; [|exact H].
  apply IH. unfold inv_count in *. cbn [pending]. apply Forall_app; split; [exact H|].
  constructor; [|constructor]. unfold pend_ok; cbn; lia.
Qed.

Lemma tick_all_inv c l : Forall (pend_ok c) l -> Forall (pend_ok c) (fst (tick_all c l)).
Proof.
  induction 1 as [|p r Hp _ IH]; cbn [tick_all]; [constructor|].
  destruct (tick_all c r) as [r' e']. cbn [fst] in IH.
  destruct (tick_entry c p) as [[p'|] b] eqn:E.
  - assert (Hp' : pend_ok c p').
    { destruct b.
      - apply tick_entry_resend in E. unfold pend_ok in *. lia.
      - unfold tick_entry in E.
        destruct ((match p_dl p with Some d => d <? 0 | None => false end) || (p_count p >=? max_rt c)); [discriminate|].
        destruct (ack_ms c * (p_count p + 1) <? p_elapsed p); [discriminate|]. injection E as <-. exact Hp. }
    destruct b; cbn [fst]; constructor; assumption.
  - destruct b; cbn [fst]; exact IH.
Qed.

Lemma filter_Forall {A} (P : A -> Prop) f l : Forall P l -> Forall P (filter f l).
Proof. induction 1 as [|x r Hx _ IH]; cbn [filter]; [constructor|]. destruct (f x); [constructor; assumption|exact IH]. Qed.

Lemma step_inv_count c s e : 0 <= max_rt c -> inv_count c s -> inv_count c (fst (step c s e)).
Proof.
  intros Hm H. destruct e as [id tok dl|ms| |id|id|id code|id code pmid|id]; cbn [step].
  - match goal with |- context [admit_all c ?s1] => pose proof (admit_inv_count c Hm (S (length (reqs s1))) s1 [] H) as G; unfold admit_all; destruct (admit_waiters _ c s1 []) end. exact G.
  - unfold inv_count in *. cbn [fst pending]. induction H as [|p r Hp _ IH]; cbn [map]; constructor; [exact Hp|exact IH].
  - pose proof (tick_all_inv c _ H) as G. destruct (tick_all c (pending s)). exact G.
  - assert (W : inv_count c (wake s id)).
    { unfold wake. destruct (has_pend (pending s) id); [|exact H]. unfold inv_count, del_pend; cbn [pending]. apply filter_Forall; exact H. }
    unfold settle. destruct (settle_list (reqs (wake s id))) as [l ret].
    match goal with |- context [admit_all c ?s1] => pose proof (admit_inv_count c Hm (S (length (reqs s1))) s1 [] W) as G; unfold admit_all; destruct (admit_waiters _ c s1 []) end. exact G.
  - assert (W : inv_count c (wake s id)).
    { unfold wake. destruct (has_pend (pending s) id); [|exact H]. unfold inv_count, del_pend; cbn [pending]. apply filter_Forall; exact H. }
    unfold settle. destruct (settle_list (reqs (wake s id))) as [l ret].
    match goal with |- context [admit_all c ?s1] => pose proof (admit_inv_count c Hm (S (length (reqs s1))) s1 [] W) as G; unfold admit_all; destruct (admit_waiters _ c s1 []) end. exact G.
  - assert (W : inv_count c (deliver (wake s id) id code)).
    { unfold deliver, wake. destruct (has_pend (pending s) id); unfold inv_count; cbn [pending]; [|exact H]. apply filter_Forall; exact H. }
    unfold settle. destruct (settle_list (reqs (deliver (wake s id) id code))) as [l ret].
    match goal with |- context [admit_all c ?s1] => pose proof (admit_inv_count c Hm (S (length (reqs s1))) s1 [] W) as G; unfold admit_all; destruct (admit_waiters _ c s1 []) end. exact G.
  - unfold settle, deliver. cbn [reqs pending]. destruct (settle_list _) as [l ret]. exact H.
  - destruct (find_rq (reqs s) id) as [q|]; [|exact H].
    destruct (is_done (q_st q)); [exact H|].
    match goal with |- context [admit_all c ?s1] =>
      assert (W : inv_count c s1) by (unfold inv_count, del_pend; cbn [pending]; apply filter_Forall; exact H);
      pose proof (admit_inv_count c Hm (S (length (reqs s1))) s1 [] W) as G; unfold admit_all; destruct (admit_waiters _ c s1 []) end. exact G.
Qed.

Theorem count_bounded : forall c evs, 0 <= max_rt c -> inv_count c (final c init evs).
Proof.
  intros c evs Hm. assert (G : forall s, inv_count c s -> inv_count c (final c s evs)).
  { induction evs as [|e evs IH]; intros s H; [exact H|]. rewrite final_cons. apply IH. apply step_inv_count; assumption. }
  apply G. constructor.
Qed.

(* ---------- (D) nothing is sent for a request once it has been acknowledged, reset, cancelled or has returned ---------- *)

(* request [id] has no pending entry and is not waiting for admission *)
Definition quiet (id : Z) (s : st) : Prop :=
  has_pend (pending s) id = false /\
  Forall (fun q => q_id q = id -> is_wait_slot (q_st q) = false) (reqs s).

Definition not_send (id : Z) (e : ev) : Prop := match e with Send id' _ _ => id' <> id | _ => True end.

Lemma has_pend_filter l f id : has_pend l id = false -> has_pend (filter f l) id = false.
Proof.
  unfold has_pend. induction l as [|p r IH]; cbn [filter existsb]; [reflexivity|].
  intros H. apply orb_false_elim in H as [H1 H2]. destruct (f p); cbn [existsb]; [rewrite H1|]; auto.
Qed.

Lemma has_pend_del_same l id : has_pend (del_pend l id) id = false.
Proof.
  unfold has_pend, del_pend. induction l as [|p r IH]; cbn [filter existsb]; [reflexivity|].
  destruct (p_id p =? id) eqn:E; cbn [negb]; [exact IH|]. cbn [existsb]. rewrite E. exact IH.
Qed.

Lemma has_pend_app l1 l2 id : has_pend (l1 ++ l2) id = has_pend l1 id || has_pend l2 id.
Proof. unfold has_pend. apply existsb_app. Qed.

(* a status update that never produces WaitSlot keeps the second half of [quiet] *)
Lemma set_status_keeps id l id' f :
  (forall q, is_wait_slot (q_st (f q)) = true -> is_wait_slot (q_st q) = true) ->
  (forall q, q_id (f q) = q_id q) ->
  Forall (fun q => q_id q = id -> is_wait_slot (q_st q) = false) l ->
  Forall (fun q => q_id q = id -> is_wait_slot (q_st q) = false) (set_status l id' f).
Proof.
  intros Hf Hid. unfold set_status. induction 1 as [|q r Hq _ IH]; cbn [map]; constructor; [|exact IH].
  destruct (q_id q =? id'); [|exact Hq]. rewrite Hid. intros E. specialize (Hq E).
  destruct (is_wait_slot (q_st (f q))) eqn:W; [|reflexivity]. apply Hf in W. congruence.
Qed.

Lemma first_waiting_in l q : first_waiting l = Some q -> In q l /\ is_wait_slot (q_st q) = true.
Proof.
  induction l as [|x r IH]; cbn [first_waiting]; [discriminate|].
  destruct (is_wait_slot (q_st x)) eqn:E.
  - intros H; injection H as <-. split; [left; reflexivity|exact E].
  - intros H. destruct (IH H). split; [right; assumption|assumption].
Qed.

Lemma admit_quiet c id : forall fuel s acc,
  quiet id s -> ~ In (Copy id) acc ->
  quiet id (fst (admit_waiters fuel c s acc)) /\ ~ In (Copy id) (snd (admit_waiters fuel c s acc)).
Proof.
  induction fuel as [|f IH]; intros s acc Hq Hacc; cbn [admit_waiters]; [split; assumption|].
  destruct (held s <? nstart c); [|split; assumption].
  destruct (first_waiting (reqs s)) as [q|] eqn:Fw; [|split; assumption].
  destruct (first_waiting_in _ _ Fw) as [Hin Hw].
  destruct Hq as [Hp Hr].
  assert (Hne : q_id q <> id).
  { intros E. rewrite Forall_forall in Hr. specialize (Hr q Hin E). congruence. }
  apply IH.
  - split.
    + cbn [pending]. rewrite has_pend_app, Hp. cbn [has_pend existsb p_id]. apply Z.eqb_neq in Hne. rewrite Hne. reflexivity.
    + cbn [reqs]. apply set_status_keeps; [intros x; cbn; discriminate|reflexivity|exact Hr].
  - intros Hin'. apply in_app_or in Hin' as [H|[H|[]]]; [contradiction|]. injection H as E. contradiction.
Qed.

Lemma tick_all_quiet c l id : has_pend l id = false ->
  has_pend (fst (tick_all c l)) id = false /\ ~ In (Copy id) (snd (tick_all c l)).
Proof.
  unfold has_pend. induction l as [|p r IH]; cbn [tick_all existsb]; [split; [reflexivity|intros []]|].
  intros H. apply orb_false_elim in H as [H1 H2]. destruct (IH H2) as [I1 I2]. clear IH.
  destruct (tick_all c r) as [r' e']. cbn [fst snd] in *.
  destruct (tick_entry c p) as [[p'|] b] eqn:E.
  - destruct (tick_entry_keep _ _ _ _ E) as [Hid _].
    destruct b; cbn [fst snd existsb]; rewrite Hid, H1; cbn [orb]; (split; [exact I1|]).
    + intros [F|F]; [injection F as F; apply Z.eqb_neq in H1; congruence|contradiction].
    + exact I2.
  - destruct b; cbn [fst snd]; split; assumption.
Qed.

Lemma settle_list_keeps id l :
  Forall (fun q => q_id q = id -> is_wait_slot (q_st q) = false) l ->
  Forall (fun q => q_id q = id -> is_wait_slot (q_st q) = false) (fst (settle_list l)).
Proof.
  induction 1 as [|q r Hq _ IH]; cbn [settle_list]; [constructor|].
  destruct (settle_rq q) as [q' a] eqn:E. destruct (settle_list r) as [r' b]. cbn [fst] in *.
  constructor; [|exact IH]. unfold settle_rq in E.
  destruct (q_st q) eqn:S; try (injection E as <- <-; rewrite S; exact Hq).
  destruct (q_buf q); injection E as <- <-; [cbn; reflexivity|rewrite S; exact Hq].
Qed.

Lemma step_quiet c s e id : quiet id s -> not_send id e ->
  quiet id (fst (step c s e)) /\ ~ In (Copy id) (o_emit (snd (step c s e))).
Proof.
  intros [Hp Hr] Hns.
  assert (Hadm : forall s1, quiet id s1 ->
            quiet id (fst (admit_all c s1)) /\ ~ In (Copy id) (snd (admit_all c s1))).
  { intros s1 Hq. unfold admit_all. apply admit_quiet; [exact Hq|intros []]. }
  assert (Hwake : forall i, quiet id (wake s i)).
  { intros i. unfold wake. destruct (has_pend (pending s) i); [|split; assumption]. split.
    - cbn [pending]. apply has_pend_filter; exact Hp.
    - cbn [reqs]. apply set_status_keeps; [|intros q; destruct (is_wait_ack (q_st q)); reflexivity|exact Hr].
      intros q. destruct (is_wait_ack (q_st q)) eqn:W; [cbn; discriminate|auto]. }
  assert (Hdel : forall s0 i cd, quiet id s0 -> quiet id (deliver s0 i cd)).
  { intros s0 i cd [P R]. split; [exact P|]. cbn [deliver reqs]. apply set_status_keeps; [| |exact R].
    - intros q. destruct (is_done (q_st q)); [auto|]. destruct (q_buf q); auto.
    - intros q. destruct (is_done (q_st q)); [reflexivity|]. destruct (q_buf q); reflexivity. }
  assert (Hset : forall s0, quiet id s0 -> quiet id (fst (settle s0))).
  { intros s0 [P R]. unfold settle. pose proof (settle_list_keeps id _ R) as G.
    destruct (settle_list (reqs s0)) as [l ret]. cbn [fst] in *. split; assumption. }
  destruct e as [i tok dl|ms| |i|i|i code|i code pmid|i]; cbn [step].
  - (* Send i, i <> id *)
    cbn [not_send] in Hns.
    match goal with |- context [admit_all c ?s1] =>
      assert (Q : quiet id s1) end.
    { split; [exact Hp|]. cbn [reqs]. apply Forall_app; split; [exact Hr|]. constructor; [|constructor].
      cbn [q_id]. intros E; contradiction. }
    destruct (Hadm _ Q) as [G1 G2]. destruct (admit_all c _) as [s2 em]. split; assumption.
  - split; [|intros []]. split.
    + cbn [fst pending]. unfold has_pend in *. clear -Hp. induction (pending s) as [|p r IH]; cbn [map existsb] in *; [reflexivity|].
      apply orb_false_elim in Hp as [H1 H2]. cbn [p_id]. rewrite H1. auto.
    + exact Hr.
  - destruct (tick_all_quiet c _ id Hp) as [G1 G2]. destruct (tick_all c (pending s)) as [l em].
    cbn [fst snd o_emit] in *. split; [split; assumption|exact G2].
  - pose proof (Hset _ (Hwake i)) as Q. destruct (settle (wake s i)) as [s2 ret]. cbn [fst] in Q.
    destruct (Hadm _ Q) as [G1 G2]. destruct (admit_all c s2) as [s3 em]. split; assumption.
  - pose proof (Hset _ (Hwake i)) as Q. destruct (settle (wake s i)) as [s2 ret]. cbn [fst] in Q.
    destruct (Hadm _ Q) as [G1 G2]. destruct (admit_all c s2) as [s3 em]. split; assumption.
  - pose proof (Hset _ (Hdel _ i code (Hwake i))) as Q. destruct (settle (deliver (wake s i) i code)) as [s2 ret]. cbn [fst] in Q.
    destruct (Hadm _ Q) as [G1 G2]. destruct (admit_all c s2) as [s3 em]. split; assumption.
  - pose proof (Hset _ (Hdel s i code (conj Hp Hr))) as Q. destruct (settle (deliver s i code)) as [s2 ret]. cbn [fst snd o_emit] in *.
    split; [exact Q|]. intros [F|[]]. discriminate.
  - destruct (find_rq (reqs s) i) as [q|]; [|split; [split; assumption|intros []]].
    destruct (is_done (q_st q)); [split; [split; assumption|intros []]|].
    match goal with |- context [admit_all c ?s1] => assert (Q : quiet id s1) end.
    { split; [cbn [pending]; apply has_pend_filter; exact Hp|]. cbn [reqs].
      apply set_status_keeps; [intros x; cbn; discriminate|reflexivity|exact Hr]. }
    destruct (Hadm _ Q) as [G1 G2]. destruct (admit_all c _) as [s2 em]. split; assumption.
Qed.

Lemma run_quiet c id : forall evs s, quiet id s -> Forall (not_send id) evs ->
  Forall (fun o => ~ In (Copy id) (o_emit o)) (outs c s evs).
Proof.
  induction evs as [|e evs IH]; intros s Hq Hn; [constructor|].
  inversion Hn as [|? ? He Hr]; subst. rewrite outs_cons.
  destruct (step_quiet c s e id Hq He) as [Q1 Q2]. constructor; [exact Q2|apply IH; assumption].
Qed.

Definition transmitted (id : Z) (s : st) : Prop :=
  Forall (fun q => q_id q = id -> is_wait_slot (q_st q) = false) (reqs s).

Definition stop_event (id : Z) (e : ev) : Prop :=
  match e with
  | Ack i | Rst i | Piggy i _ => i = id
  | _ => False
  end.

Lemma wake_quiet s id : transmitted id s -> has_pend (pending (wake s id)) id = false /\ transmitted id (wake s id).
Proof.
  intros Ht. unfold wake. destruct (has_pend (pending s) id) eqn:E.
  - split; [cbn [pending]; apply has_pend_del_same|]. unfold transmitted. cbn [reqs].
    apply set_status_keeps; [|intros q; destruct (is_wait_ack (q_st q)); reflexivity|exact Ht].
    intros q. destruct (is_wait_ack (q_st q)); [cbn; discriminate|auto].
  - split; [exact E|exact Ht].
Qed.

(* C06 "no copy after an acknowledgement or a reset": once a message carrying the request's ID has
   been processed, no later event of ANY history makes the connection send the request again *)
Theorem stops_after_ack_or_reset : forall c s id e evs,
  transmitted id s -> stop_event id e -> Forall (not_send id) evs ->
  ~ In (Copy id) (o_emit (snd (step c s e))) /\
  Forall (fun o => ~ In (Copy id) (o_emit o)) (outs c (fst (step c s e)) evs).
Proof.
  intros c s id e evs Ht Hs Hn.
  assert (G : quiet id (fst (step c s e)) /\ ~ In (Copy id) (o_emit (snd (step c s e)))).
  { destruct e as [i tok dl|ms| |i|i|i code|i code pmid|i]; cbn [stop_event] in Hs; try contradiction; subst i; cbn [step].
    - destruct (wake_quiet s id Ht) as [W1 W2].
      assert (Q : quiet id (fst (settle (wake s id)))).
      { unfold settle. pose proof (settle_list_keeps id _ W2) as K. destruct (settle_list (reqs (wake s id))) as [l r]. split; assumption. }
      destruct (settle (wake s id)) as [s2 ret]. cbn [fst] in Q.
      pose proof (admit_quiet c id (S (length (reqs s2))) s2 [] Q (fun f => f)) as [A1 A2].
      unfold admit_all. destruct (admit_waiters _ c s2 []) as [s3 em]. split; assumption.
    - destruct (wake_quiet s id Ht) as [W1 W2].
      assert (Q : quiet id (fst (settle (wake s id)))).
      { unfold settle. pose proof (settle_list_keeps id _ W2) as K. destruct (settle_list (reqs (wake s id))) as [l r]. split; assumption. }
      destruct (settle (wake s id)) as [s2 ret]. cbn [fst] in Q.
      pose proof (admit_quiet c id (S (length (reqs s2))) s2 [] Q (fun f => f)) as [A1 A2].
      unfold admit_all. destruct (admit_waiters _ c s2 []) as [s3 em]. split; assumption.
    - destruct (wake_quiet s id Ht) as [W1 W2].
      assert (Q : quiet id (fst (settle (deliver (wake s id) id code)))).
      { unfold settle.
        assert (D : transmitted id (deliver (wake s id) id code)).
        { unfold transmitted, deliver. cbn [reqs]. apply set_status_keeps; [| |exact W2].
          - intros q. destruct (is_done (q_st q)); [auto|]. destruct (q_buf q); auto.
          - intros q. destruct (is_done (q_st q)); [reflexivity|]. destruct (q_buf q); reflexivity. }
        pose proof (settle_list_keeps id _ D) as K.
        destruct (settle_list (reqs (deliver (wake s id) id code))) as [l r]. split; [exact W1|exact K]. }
      destruct (settle (deliver (wake s id) id code)) as [s2 ret]. cbn [fst] in Q.
      pose proof (admit_quiet c id (S (length (reqs s2))) s2 [] Q (fun f => f)) as [A1 A2].
      unfold admit_all. destruct (admit_waiters _ c s2 []) as [s3 em]. split; assumption. }
  destruct G as [G1 G2]. split; [exact G2|]. apply run_quiet; assumption.
Qed.

(* the same after the caller's cancellation *)
Theorem stops_after_cancel : forall c s id q evs,
  find_rq (reqs s) id = Some q -> is_done (q_st q) = false -> Forall (not_send id) evs ->
  ~ In (Copy id) (o_emit (snd (step c s (Cancel id)))) /\
  Forall (fun o => ~ In (Copy id) (o_emit o)) (outs c (fst (step c s (Cancel id))) evs).
Proof.
  intros c s id q evs Hf Hd Hn. cbn [step]. rewrite Hf, Hd.
  match goal with |- context [admit_all c ?s1] => assert (Q : quiet id s1) end.
  { split; [cbn [pending]; apply has_pend_del_same|]. cbn [reqs]. unfold set_status. clear.
    induction (reqs s) as [|x r IH]; cbn [map]; constructor; [|exact IH].
    destruct (q_id x =? id) eqn:E; [intros _; reflexivity|]. intros E'. apply Z.eqb_neq in E. contradiction. }
  match type of Q with quiet id ?s1 =>
    pose proof (admit_quiet c id (S (length (reqs s1))) s1 [] Q (fun f => f)) as [A1 A2];
    unfold admit_all; destruct (admit_waiters (S (length (reqs s1))) c s1 []) as [s2 em] end.
  cbn [fst snd o_emit] in *.
  split; [exact A2|]. apply run_quiet; assumption.
Qed.

(* ---------- (F) success needs a response, and a timely response gives success ---------- *)

Definition is_resp_for (id code : Z) (e : ev) : Prop :=
  match e with Piggy i cd => i = id /\ cd = code | Sep i cd _ => i = id /\ cd = code | _ => False end.

(* every buffered response was injected by an earlier event *)
Definition bufs_justified (pre : list ev) (s : st) : Prop :=
  Forall (fun q => forall cd, q_buf q = Some cd -> exists e, In e pre /\ is_resp_for (q_id q) cd e) (reqs s).

Lemma bufs_weaken pre e s : bufs_justified pre s -> bufs_justified (pre ++ [e]) s.
Proof.
  unfold bufs_justified. intros H. eapply Forall_impl; [|exact H]. intros q Hq cd Hb.
  destruct (Hq cd Hb) as [e0 [Hin He]]. exists e0. split; [apply in_or_app; left; exact Hin|exact He].
Qed.

Lemma set_status_bufs pre l id f :
  (forall q, q_id (f q) = q_id q) ->
  (forall q cd, q_id q = id -> q_buf (f q) = Some cd -> q_buf q = Some cd \/ exists e, In e pre /\ is_resp_for id cd e) ->
  Forall (fun q => forall cd, q_buf q = Some cd -> exists e, In e pre /\ is_resp_for (q_id q) cd e) l ->
  Forall (fun q => forall cd, q_buf q = Some cd -> exists e, In e pre /\ is_resp_for (q_id q) cd e) (set_status l id f).
Proof.
  intros Hid Hb. unfold set_status. induction 1 as [|q r Hq _ IH]; cbn [map]; constructor; [|exact IH].
  destruct (Z.eqb_spec (q_id q) id) as [E|E]; [|exact Hq].
  intros cd Hcd. rewrite Hid. destruct (Hb q cd E Hcd) as [H|H]; [exact (Hq cd H)|]. rewrite E. exact H.
Qed.

Lemma settle_list_spec l : forall id r cd,
  In (id, r, cd) (snd (settle_list l)) -> r = 0 /\ exists q, In q l /\ q_id q = id /\ q_buf q = Some cd.
Proof.
  induction l as [|q l IH]; cbn [settle_list]; intros id r cd H; [destruct H|].
  destruct (settle_rq q) as [q' a] eqn:E. destruct (settle_list l) as [l' b]. cbn [snd] in *.
  apply in_app_or in H as [H|H].
  - unfold settle_rq in E. destruct (q_st q); try (injection E as <- <-; destruct H).
    destruct (q_buf q) as [c0|] eqn:B; injection E as <- <-; [|destruct H].
    destruct H as [H|[]]. injection H as <- <- <-. split; [reflexivity|]. exists q. repeat split; [left; reflexivity|exact B].
  - destruct (IH _ _ _ H) as [R [q0 [Hin Hq0]]]. split; [exact R|]. exists q0. split; [right; exact Hin|exact Hq0].
Qed.

Lemma settle_list_bufs pre l :
  Forall (fun q => forall cd, q_buf q = Some cd -> exists e, In e pre /\ is_resp_for (q_id q) cd e) l ->
  Forall (fun q => forall cd, q_buf q = Some cd -> exists e, In e pre /\ is_resp_for (q_id q) cd e) (fst (settle_list l)).
Proof.
  induction 1 as [|q r Hq _ IH]; cbn [settle_list]; [constructor|].
  destruct (settle_rq q) as [q' a] eqn:E. destruct (settle_list r) as [r' b]. cbn [fst] in *.
  constructor; [|exact IH]. unfold settle_rq in E.
  destruct (q_st q); try (injection E as <- <-; exact Hq).
  destruct (q_buf q) eqn:B; injection E as <- <-; [|rewrite B; exact Hq]. cbn [q_buf q_id with_st]. rewrite B. exact Hq.
Qed.

Lemma admit_bufs c pre : forall fuel s acc, bufs_justified pre s -> bufs_justified pre (fst (admit_waiters fuel c s acc)).
Proof.
  induction fuel as [|f IH]; intros s acc H; cbn [admit_waiters]; [exact H|].
  destruct (held s <? nstart c); [|exact H]. destruct (first_waiting (reqs s)) as [q|]; [|exact H].
  apply IH. unfold bufs_justified in *. cbn [reqs].
  apply set_status_bufs; [reflexivity| |exact H]. intros x cd _ Hb. left. exact Hb.
Qed.

(* one step: returns with result 0 are justified by the responses injected so far (including this event) *)
Lemma step_bufs c pre s e :
  bufs_justified pre s ->
  bufs_justified (pre ++ [e]) (fst (step c s e)) /\
  (forall id cd, In (id, 0, cd) (o_ret (snd (step c s e))) -> exists e0, In e0 (pre ++ [e]) /\ is_resp_for id cd e0).
Proof.
  intros H. pose proof (bufs_weaken pre e s H) as Hw. set (pre' := pre ++ [e]) in *.
  assert (Hwake : forall i, bufs_justified pre' (wake s i)).
  { intros i. unfold wake. destruct (has_pend (pending s) i); [|exact Hw]. unfold bufs_justified. cbn [reqs].
    apply set_status_bufs; [intros q; destruct (is_wait_ack (q_st q)); reflexivity| |exact Hw].
    intros q cd _ Hb. left. destruct (is_wait_ack (q_st q)); exact Hb. }
  assert (Hsettle : forall s0, bufs_justified pre' s0 ->
            bufs_justified pre' (fst (settle s0)) /\
            (forall id cd, In (id, 0, cd) (snd (settle s0)) -> exists e0, In e0 pre' /\ is_resp_for id cd e0)).
  { intros s0 H0. unfold settle. pose proof (settle_list_bufs pre' _ H0) as K.
    pose proof (settle_list_spec (reqs s0)) as Sp.
    destruct (settle_list (reqs s0)) as [l ret]. cbn [fst snd] in *. split; [exact K|].
    intros id cd Hin. destruct (Sp _ _ _ Hin) as [_ [q [Hq [Hi Hb]]]].
    unfold bufs_justified in H0. rewrite Forall_forall in H0. specialize (H0 q Hq cd Hb). rewrite Hi in H0. exact H0. }
  assert (Hadm : forall s0, bufs_justified pre' s0 -> bufs_justified pre' (fst (admit_all c s0))).
  { intros s0 H0. unfold admit_all. apply admit_bufs; exact H0. }
  assert (Hdeliver : forall s0 i cd, bufs_justified pre' s0 -> (exists e0, In e0 pre' /\ is_resp_for i cd e0) -> bufs_justified pre' (deliver s0 i cd)).
  { intros s0 i cd H0 Hex. unfold bufs_justified, deliver. cbn [reqs]. apply set_status_bufs; [| |exact H0].
    - intros q. destruct (is_done (q_st q)); [reflexivity|]. destruct (q_buf q); reflexivity.
    - intros q cd' _ Hb. destruct (is_done (q_st q)); [left; exact Hb|].
      destruct (q_buf q) eqn:B; [left; rewrite <- B; exact Hb|]. cbn [with_buf q_buf] in Hb. injection Hb as <-. right. exact Hex. }
  destruct e as [i tok dl|ms| |i|i|i code|i code pmid|i]; cbn [step].
  - match goal with |- context [admit_all c ?s1] => assert (Q : bufs_justified pre' s1) end.
    { unfold bufs_justified in *. cbn [reqs]. apply Forall_app; split; [exact Hw|]. constructor; [|constructor]. cbn. discriminate. }
    pose proof (Hadm _ Q) as G. destruct (admit_all c _) as [s2 em]. split; [exact G|intros id cd []].
  - split; [exact Hw|intros id cd []].
  - destruct (tick_all c (pending s)) as [l em]. split; [exact Hw|intros id cd []].
  - destruct (Hsettle _ (Hwake i)) as [S1 S2]. destruct (settle (wake s i)) as [s2 ret]. cbn [fst snd] in *.
    pose proof (Hadm _ S1) as G. destruct (admit_all c s2) as [s3 em]. split; [exact G|exact S2].
  - destruct (Hsettle _ (Hwake i)) as [S1 S2]. destruct (settle (wake s i)) as [s2 ret]. cbn [fst snd] in *.
    pose proof (Hadm _ S1) as G. destruct (admit_all c s2) as [s3 em]. split; [exact G|exact S2].
  - assert (Hex : exists e0, In e0 pre' /\ is_resp_for i code e0).
    { exists (Piggy i code). split; [apply in_or_app; right; left; reflexivity|cbn; split; reflexivity]. }
    destruct (Hsettle _ (Hdeliver _ i code (Hwake i) Hex)) as [S1 S2].
    destruct (settle (deliver (wake s i) i code)) as [s2 ret]. cbn [fst snd] in *.
    pose proof (Hadm _ S1) as G. destruct (admit_all c s2) as [s3 em]. split; [exact G|exact S2].
  - assert (Hex : exists e0, In e0 pre' /\ is_resp_for i code e0).
    { exists (Sep i code pmid). split; [apply in_or_app; right; left; reflexivity|cbn; split; reflexivity]. }
    destruct (Hsettle _ (Hdeliver _ i code Hw Hex)) as [S1 S2].
    destruct (settle (deliver s i code)) as [s2 ret]. cbn [fst snd o_ret] in *. split; [exact S1|exact S2].
  - destruct (find_rq (reqs s) i) as [q|]; [|split; [exact Hw|intros id cd []]].
    destruct (is_done (q_st q)); [split; [exact Hw|intros id cd []]|].
    match goal with |- context [admit_all c ?s1] => assert (Q : bufs_justified pre' s1) end.
    { unfold bufs_justified in *. cbn [reqs]. apply set_status_bufs; [reflexivity| |exact Hw]. intros x cd _ Hb. left. exact Hb. }
    pose proof (Hadm _ Q) as G. destruct (admit_all c _) as [s2 em]. cbn [fst snd o_ret]. split; [exact G|].
    intros id cd [F|[]]. discriminate.
Qed.

(* C06 "exhaustion of the attempts or a reset never produces a successful response": in ANY history,
   a call returns successfully with code cd only if a response with its token and that code was received *)
Theorem success_needs_response : forall c evs id cd,
  (exists o, In o (outs c init evs) /\ In (id, 0, cd) (o_ret o)) ->
  exists e, In e evs /\ is_resp_for id cd e.
Proof.
  intros c evs id cd.
  assert (G : forall evs pre s, bufs_justified pre s ->
            (exists o, In o (outs c s evs) /\ In (id, 0, cd) (o_ret o)) ->
            exists e, In e (pre ++ evs) /\ is_resp_for id cd e).
  { clear evs. induction evs as [|e evs IH]; intros pre s Hb [o [Ho Hin]]; [destruct Ho|].
    rewrite outs_cons in Ho. destruct (step_bufs c pre s e Hb) as [B1 B2].
    destruct Ho as [<-|Ho].
    - destruct (B2 _ _ Hin) as [e0 [He0 Hr]]. exists e0. split; [|exact Hr].
      apply in_app_or in He0 as [H|[<-|[]]]; apply in_or_app; [left; exact H|right; left; reflexivity].
    - destruct (IH (pre ++ [e]) _ B1 (ex_intro _ o (conj Ho Hin))) as [e0 [He0 Hr]]. exists e0. split; [|exact Hr].
      rewrite <- app_assoc in He0. exact He0. }
  intros H. apply (G evs [] init); [constructor|exact H].
Qed.

(* ---------- a timely acknowledgement/response makes the call succeed ---------- *)

Lemma settle_list_in l q cd : In q l -> q_st q = WaitResp -> q_buf q = Some cd ->
  In (q_id q, 0, cd) (snd (settle_list l)).
Proof.
  induction l as [|x r IH]; intros Hin Hs Hb; [destruct Hin|]. cbn [settle_list].
  destruct (settle_rq x) as [x' a] eqn:E. destruct (settle_list r) as [r' b] eqn:E2. cbn [snd] in *.
  apply in_or_app. destruct Hin as [->|Hin].
  - left. unfold settle_rq in E. rewrite Hs, Hb in E. injection E as <- <-. left. reflexivity.
  - right. apply IH; assumption.
Qed.

Lemma in_set_status l id f q : In q l -> q_id q = id -> In (f q) (set_status l id f).
Proof.
  intros Hin E. unfold set_status. apply in_map_iff. exists q. split; [|exact Hin].
  apply Z.eqb_eq in E. rewrite E. reflexivity.
Qed.

(* piggybacked response while the request is pending (attempts not exhausted): the call returns it *)
Theorem piggy_succeeds : forall c s id code q,
  In q (reqs s) -> q_id q = id -> q_st q = WaitAck -> q_buf q = None -> has_pend (pending s) id = true ->
  In (id, 0, code) (o_ret (snd (step c s (Piggy id code)))).
Proof.
  intros c s id code q Hin Hid Hst Hb Hp. cbn [step].
  set (q1 := with_st q WaitResp). set (q2 := with_buf q1 code).
  assert (I1 : In q1 (reqs (wake s id))).
  { unfold wake. rewrite Hp. cbn [reqs].
    pose proof (in_set_status (reqs s) id (fun x => if is_wait_ack (q_st x) then with_st x WaitResp else x) q Hin Hid) as K.
    cbn beta in K. rewrite Hst in K. exact K. }
  assert (I2 : In q2 (reqs (deliver (wake s id) id code))).
  { cbn [deliver reqs].
    pose proof (in_set_status (reqs (wake s id)) id
                 (fun x => if is_done (q_st x) then x else match q_buf x with Some _ => x | None => with_buf x code end) q1 I1 Hid) as K.
    cbn beta in K. cbn [q1 with_st q_st q_buf is_done] in K. rewrite Hb in K. exact K. }
  pose proof (settle_list_in _ q2 code I2 eq_refl eq_refl) as R. cbn [q2 q1 with_buf with_st q_id] in R. rewrite Hid in R.
  unfold settle. destruct (settle_list (reqs (deliver (wake s id) id code))) as [l ret]. cbn [snd] in R.
  destruct (admit_all c _) as [s3 em]. cbn [snd o_ret]. exact R.
Qed.

(* an acknowledgement while the request is pending wakes the writer ... *)
Theorem ack_wakes : forall c s id q,
  transmitted id s ->
  In q (reqs s) -> q_id q = id -> q_st q = WaitAck -> q_buf q = None -> has_pend (pending s) id = true ->
  exists q', In q' (reqs (fst (step c s (Ack id)))) /\ q_id q' = id /\ q_st q' = WaitResp /\ q_buf q' = None.
Proof.
  intros c s id q Ht Hin Hid Hst Hb Hp. cbn [step].
  set (q1 := with_st q WaitResp).
  assert (I1 : In q1 (reqs (wake s id))).
  { unfold wake. rewrite Hp. cbn [reqs].
    pose proof (in_set_status (reqs s) id (fun x => if is_wait_ack (q_st x) then with_st x WaitResp else x) q Hin Hid) as K.
    cbn beta in K. rewrite Hst in K. exact K. }
  (* settle leaves q1 alone (no response buffered), admission only touches waiting requests *)
  assert (S1 : forall l, In q1 l -> In q1 (fst (settle_list l))).
  { induction l as [|x r IH]; intros H; [destruct H|]. cbn [settle_list].
    destruct (settle_rq x) as [x' a] eqn:E. destruct (settle_list r) as [r' b]. cbn [fst] in *.
    destruct H as [->|H]; [left|right; auto].
    unfold settle_rq in E. cbn [q1 with_st q_st q_buf] in E. rewrite Hb in E. injection E as <- _. reflexivity. }
  assert (A1 : forall fuel s0 acc, transmitted id s0 -> In q1 (reqs s0) -> In q1 (reqs (fst (admit_waiters fuel c s0 acc)))).
  { induction fuel as [|f IH]; intros s0 acc Ht0 H; cbn [admit_waiters]; [exact H|].
    destruct (held s0 <? nstart c); [|exact H]. destruct (first_waiting (reqs s0)) as [w|] eqn:Fw; [|exact H].
    destruct (first_waiting_in _ _ Fw) as [Hwin Hw].
    assert (Hne : q_id w <> id).
    { intros E. unfold transmitted in Ht0. rewrite Forall_forall in Ht0. specialize (Ht0 w Hwin E). congruence. }
    apply IH.
    - unfold transmitted. cbn [reqs]. apply set_status_keeps; [intros x; cbn; discriminate|reflexivity|exact Ht0].
    - cbn [reqs]. unfold set_status. apply in_map_iff. exists q1. split; [|exact H].
      destruct (Z.eqb_spec (q_id q1) (q_id w)) as [E|E]; [|reflexivity].
      cbn [q1 with_st q_id] in E. congruence. }
  assert (T1 : transmitted id {| reqs := fst (settle_list (reqs (wake s id))); pending := pending (wake s id) |}).
  { unfold transmitted. cbn [reqs]. apply settle_list_keeps. apply (proj2 (wake_quiet s id Ht)). }
  unfold settle. pose proof (S1 _ I1) as K. destruct (settle_list (reqs (wake s id))) as [l ret]. cbn [fst] in K, T1.
  unfold admit_all.
  match goal with |- context [admit_waiters ?f c ?s2 []] => pose proof (A1 f s2 [] T1 K) as G; destruct (admit_waiters f c s2 []) as [s3 em] end.
  cbn [fst] in *. exists q1. repeat split; [exact G|exact Hid|exact Hb].
Qed.
