(* The re-send rule under housekeeping ticks with a stale timestamp (Retx/ModelStale.v): a tick stamped
   ms >= 0 before the present never sends a copy earlier than a punctual tick would - the k-th re-send still
   needs more than k x ACK_TIMEOUT of TRUE elapsed time - and a tick stamped no later than the first
   transmission of every pending request sends nothing at all. *)
From Coq Require Import ZArith List Bool Lia.
From GoCoap Require Import Retx.Model Retx.ModelMid Retx.ModelStale Retx.Proofs.
Import ListNotations.
Open Scope Z_scope.

Definition aged (ms : Z) (p : pend) : pend :=
  {| p_id := p_id p; p_elapsed := p_elapsed p + ms;
     p_dl := match p_dl p with Some d => Some (d - ms) | None => None end; p_count := p_count p |}.

Lemma tick_all_copy c l id :
  In (Copy id) (snd (tick_all c l)) ->
  exists p p', In p l /\ tick_entry c p = (Some p', true) /\ p_id p = id.
Proof.
  induction l as [|p r IH]; cbn [tick_all]; [intros []|].
  destruct (tick_all c r) as [r' e'] eqn:Er. cbn [snd] in IH.
  destruct (tick_entry c p) as [[p'|] b] eqn:Et.
  - destruct b; cbn [snd].
    + intros [H|H].
      * injection H as H. exists p, p'. split; [left; reflexivity|]. split; [exact Et|].
        apply tick_entry_keep in Et as [Hid _]. congruence.
      * destruct (IH H) as (q & q' & Hin & Hq & Hid). exists q, q'. split; [right; exact Hin|]. split; assumption.
    + intros H. destruct (IH H) as (q & q' & Hin & Hq & Hid). exists q, q'. split; [right; exact Hin|]. split; assumption.
  - cbn [snd]. intros H. destruct (IH H) as (q & q' & Hin & Hq & Hid). exists q, q'. split; [right; exact Hin|]. split; assumption.
Qed.

Lemma tick_all_bareack c l pm : ~ In (BareAck pm) (snd (tick_all c l)).
Proof.
  induction l as [|p r IH]; cbn [tick_all]; [intros []|].
  destruct (tick_all c r) as [r' e'] eqn:Er. cbn [snd] in IH.
  destruct (tick_entry c p) as [[p'|] b]; [destruct b|]; cbn [snd]; [intros [H|H]; [discriminate|auto]|auto|auto].
Qed.

(* what the three steps of a stale tick put on the wire *)
Lemma stale_tick_emits c s ms :
  concat (map o_emit (outs c s (stale_tick ms))) = snd (tick_all c (map (aged (- ms)) (pending s))).
Proof.
  unfold stale_tick, outs, aged. cbn [run step pending].
  match goal with |- context [tick_all c ?l] => destruct (tick_all c l) as [l' em] eqn:E end.
  cbn [snd concat map o_emit app]. rewrite app_nil_r. reflexivity.
Qed.

(* the re-send rule of a stale tick: a copy of request id goes out only for an entry that is not exhausted
   and whose age AS SEEN WITH THE STALE STAMP exceeds (count+1) x ACK_TIMEOUT *)
Theorem stale_tick_resend_rule : forall c s ms id,
  In (Copy id) (concat (map o_emit (outs c s (stale_tick ms)))) ->
  exists p, In p (pending s) /\ p_id p = id /\ p_count p < max_rt c /\
            ack_ms c * (p_count p + 1) < p_elapsed p - ms.
Proof.
  intros c s ms id H. rewrite stale_tick_emits in H.
  apply tick_all_copy in H as (q & q' & Hin & Ht & Hid).
  apply in_map_iff in Hin as (p & <- & Hin).
  apply tick_entry_resend in Ht as (Hc & He & _).
  exists p. cbn [aged p_id p_count p_elapsed] in *. repeat split; try assumption; try lia.
Qed.

(* hence never earlier than a punctual tick: with ms >= 0 more than (count+1) x ACK_TIMEOUT have truly elapsed *)
Theorem stale_tick_never_early : forall c s ms id, 0 <= ms ->
  In (Copy id) (concat (map o_emit (outs c s (stale_tick ms)))) ->
  exists p, In p (pending s) /\ p_id p = id /\ p_count p < max_rt c /\
            ack_ms c * (p_count p + 1) < p_elapsed p.
Proof.
  intros c s ms id Hms H. destruct (stale_tick_resend_rule _ _ _ _ H) as (p & Hin & Hid & Hc & He).
  exists p. repeat split; try assumption. lia.
Qed.

(* a tick stamped no later than the first transmission of every pending request sends nothing *)
Theorem stale_tick_before_start_silent : forall c s ms, 0 <= ack_ms c -> inv_count c s ->
  (forall p, In p (pending s) -> p_elapsed p <= ms) ->
  concat (map o_emit (outs c s (stale_tick ms))) = [].
Proof.
  intros c s ms Hack Hinv Hall.
  destruct (concat (map o_emit (outs c s (stale_tick ms)))) as [|e r] eqn:E; [reflexivity|exfalso].
  assert (Hin : In e (concat (map o_emit (outs c s (stale_tick ms))))) by (rewrite E; left; reflexivity).
  destruct e as [id|pm].
  - apply stale_tick_resend_rule in Hin as (p & Hp & _ & _ & He).
    specialize (Hall p Hp). unfold inv_count in Hinv. rewrite Forall_forall in Hinv.
    specialize (Hinv p Hp). unfold pend_ok in Hinv. nia.
  - rewrite stale_tick_emits in Hin. exact (tick_all_bareack _ _ _ Hin).
Qed.

(* the counters and the set of entries move as in a punctual tick: the bound on the counter is kept *)
Theorem stale_tick_keeps_bound : forall c s ms, 0 <= max_rt c -> inv_count c s ->
  inv_count c (final c s (stale_tick ms)).
Proof.
  intros c s ms Hm Hinv. unfold stale_tick. rewrite !final_cons. unfold final. cbn [run fst].
  repeat apply step_inv_count; assumption.
Qed.
