From Coq Require Import ZArith NArith List Bool.
From GoCoap Require Import Base.Cases Base.Bytes Retx.Model Retx.ModelMid Retx.ModelStale Retx.Spec.
Import ListNotations.
Open Scope Z_scope.

(* one event with what was observed on the implementation *)
(* HM: a request issued with a message ID chosen by the application (by name: the ID of request [mid], or a
   fresh one when no request has that number) *)
Inductive hev :=
| HE (e : ev) (em : list oemit) (ret : list (Z * Z * Z))
| HM (id : Z) (tok : list Z) (dl : option Z) (mid : Z) (em : list oemit) (ret : list (Z * Z * Z))
(* HS: CheckExpirations driven with a timestamp ms before the present (Retx/ModelStale.v) *)
| HS (ms : Z) (em : list oemit) (ret : list (Z * Z * Z)).
Inductive case := Hist (ack maxrt nst : Z) (h : list hev).

Definition emit_key (e : emit) : Z := match e with Copy id => 2 * id | BareAck p => 2 * p + 1 end.
Definition oemit_key (e : oemit) : Z := match e with OCopy id _ => 2 * id | OBareAck p => 2 * p + 1 | OOther => -1 end.

Fixpoint insert {A} (key : A -> Z) (x : A) (l : list A) : list A :=
  match l with [] => [x] | y :: r => if key x <=? key y then x :: l else y :: insert key x r end.
Definition sort_by {A} (key : A -> Z) (l : list A) : list A := fold_right (insert key) [] l.

Definition emit_agrees (m : emit) (o : oemit) : bool :=
  match m, o with
  | Copy id, OCopy id' ident => (id =? id') && ident
  | BareAck p, OBareAck p' => p =? p'
  | _, _ => false
  end.

Definition ret_key (r : Z * Z * Z) : Z := fst (fst r).
Definition ret_eqb (a b : Z * Z * Z) : bool :=
  let '(i, x, c) := a in let '(i', x', c') := b in (i =? i') && (x =? x') && (c =? c').

Definition obs_agrees (o : obs) (em : list oemit) (ret : list (Z * Z * Z)) : bool :=
  list_rel emit_agrees (sort_by emit_key (o_emit o)) (sort_by oemit_key em) &&
  list_rel ret_eqb (sort_by ret_key (o_ret o)) (sort_by ret_key ret).

Definition hev_evs (e : hev) : list mev :=
  match e with HE e0 _ _ => [Base e0] | HM id tok dl m _ _ => [SendM id tok dl m] | HS ms _ _ => map Base (stale_tick ms) end.
Definition hev_em (e : hev) : list oemit := match e with HE _ em _ | HM _ _ _ _ em _ | HS _ em _ => em end.
Definition hev_ret (e : hev) : list (Z * Z * Z) := match e with HE _ _ r | HM _ _ _ _ _ r | HS _ _ r => r end.

(* the model the implementation is compared with is the message-ID keyed one (Retx/ModelMid.v) *)
Fixpoint hist_agrees (c : cfg) (s : mst) (h : list hev) : bool :=
  match h with
  | [] => true
  | he :: r => let '(s1, o) := mrun_obs c s (hev_evs he) in obs_agrees o (hev_em he) (hev_ret he) && hist_agrees c s1 r
  end.

Definition agrees (c : case) : bool :=
  match c with Hist a m n h => hist_agrees {| ack_ms := a; max_rt := m; nstart := n |} minit h end.

(* for the property a tick with a stale stamp is a tick: what counts is what goes on the wire and when *)
Definition to_oev (e : hev) : oev :=
  {| k := match e with
          | HS _ _ _ => KTick
          | HM id _ dl m _ _ => KSendM id dl m
          | HE ev0 _ _ =>
            match ev0 with
            | Send id _ dl => KSend id dl | Age ms => KAge ms | Tick => KTick | Ack id => KAck id | Rst id => KRst id
            | Piggy id c => KPiggy id c | Sep id c _ => KSep id c | Cancel id => KCancel id end
          end;
     em := hev_em e; ret := hev_ret e |}.

Definition pclass (c : case) : N :=
  match c with Hist a m n h => c06_class a m n (map to_oev h) end.

Definition mismatches (cs : list case) : list N := bad_indices (fun c => negb (agrees c)) cs.
Definition property_failures (cs : list case) : list (N * N) := classes pclass cs.
