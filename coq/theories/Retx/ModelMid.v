(* The pending-confirmable table of udp/client.Conn is keyed by MESSAGE ID (midHandlerContainer), and the
   application may choose the message ID of a request itself (writeMessage only "upserts" it: a valid ID
   is kept - a reused or forwarded request message).  Retx/Model.v names the entries by their owning
   request, which is the same thing as long as every request gets a fresh ID from the connection's counter.
   This file adds the message IDs on top of that model:

     - [mids]  the message ID chosen for a request ([SendM id tok dl mid]); a request issued with plain
               [Send id] gets the fresh ID named after the request itself;
     - the key of a pending entry is the message ID of its owner (prepareWriteMessage stores the entry
       under req.MessageID());
     - prepareWriteMessage, once the request has its NSTART slot, inserts with LoadOrStore: when the key is
       taken by another, still unacknowledged request the call is REFUSED (ErrKeyAlreadyExists, result 3):
       the slot is handed back, nothing is transmitted, and the table is left exactly as it was
       ([admit_m], refusal branch);
     - an ACK / RST / piggybacked response is matched by the message ID it carries: [Ack id] is "an ACK
       carrying the message ID of request id", and it removes the entry stored under that ID and wakes that
       entry's owner - whoever it is ([wake_mid]).

   Everything else (tick, ageing, separate responses, cancellation, settle) is Retx/Model.v unchanged. *)
From Coq Require Import ZArith List Bool.
From GoCoap Require Import Retx.Model.
Import ListNotations.
Open Scope Z_scope.

Inductive mev :=
| Base (e : ev)
| SendM (id : Z) (tok : list Z) (dl : option Z) (mid : Z).   (* Do with an application-chosen message ID *)

Record mst := { base : st; mids : list (Z * Z) (* request id -> chosen message ID *) }.

Fixpoint mid_of (mu : list (Z * Z)) (id : Z) : Z :=
  match mu with [] => id | (i, m) :: r => if i =? id then m else mid_of r id end.

(* the key under which a pending entry is stored *)
Definition key (mu : list (Z * Z)) (p : pend) : Z := mid_of mu (p_id p).

Definition has_mid (mu : list (Z * Z)) (l : list pend) (m : Z) : bool := existsb (fun p => key mu p =? m) l.

Fixpoint find_mid (mu : list (Z * Z)) (l : list pend) (m : Z) : option pend :=
  match l with [] => None | p :: r => if key mu p =? m then Some p else find_mid mu r m end.

(* a message carrying the message ID of request [id] arrived: the entry stored under that ID is removed and
   its owner's writer woken (handleSpecialMessages: midHandlerContainer.LoadAndDelete(r.MessageID())) *)
Definition wake_mid (mu : list (Z * Z)) (s : st) (id : Z) : st :=
  match find_mid mu (pending s) (mid_of mu id) with
  | Some p => wake s (p_id p)
  | None => s
  end.

(* admission in FIFO order while NSTART allows; an admitted request whose message ID is the key of an
   existing entry is refused: it returns (id, 3, 0), its slot is free again, the table is untouched *)
Fixpoint admit_m (fuel : nat) (c : cfg) (mu : list (Z * Z)) (s : st) (acc : list emit) (racc : list (Z * Z * Z))
  : st * list emit * list (Z * Z * Z) :=
  match fuel with
  | O => (s, acc, racc)
  | S f =>
      if held s <? nstart c then
        match first_waiting (reqs s) with
        | None => (s, acc, racc)
        | Some q =>
            if has_mid mu (pending s) (mid_of mu (q_id q)) then
              admit_m f c mu {| reqs := set_status (reqs s) (q_id q) (fun x => with_st x (Done 3)); pending := pending s |}
                      acc (racc ++ [(q_id q, 3, 0)])
            else
              admit_m f c mu {| reqs := set_status (reqs s) (q_id q) (fun x => with_st x WaitAck);
                                pending := pending s ++ [{| p_id := q_id q; p_elapsed := 0; p_dl := q_dl q; p_count := 0 |}] |}
                      (acc ++ [Copy (q_id q)]) racc
        end
      else (s, acc, racc)
  end.

Definition admit_all_m (c : cfg) (mu : list (Z * Z)) (s : st) : st * list emit * list (Z * Z * Z) :=
  admit_m (S (length (reqs s))) c mu s [] [].

Definition mk (mu : list (Z * Z)) (s : st) : mst := {| base := s; mids := mu |}.

Definition send_m (c : cfg) (mu : list (Z * Z)) (s : st) (id : Z) (tok : list Z) (dl : option Z) : mst * obs :=
  let s1 := {| reqs := reqs s ++ [{| q_id := id; q_tok := tok; q_dl := dl; q_st := WaitSlot; q_buf := None |}]; pending := pending s |} in
  let '(s2, em, rr) := admit_all_m c mu s1 in
  (mk mu s2, {| o_emit := em; o_ret := rr |}).

Definition mstep (c : cfg) (ms : mst) (e : mev) : mst * obs :=
  let mu := mids ms in
  let s := base ms in
  match e with
  | SendM id tok dl m => send_m c ((id, m) :: mu) s id tok dl
  | Base (Send id tok dl) => send_m c mu s id tok dl
  | Base (Ack id) | Base (Rst id) =>
      let s1 := wake_mid mu s id in
      let '(s2, ret) := settle s1 in
      let '(s3, em, rr) := admit_all_m c mu s2 in
      (mk mu s3, {| o_emit := em; o_ret := ret ++ rr |})
  | Base (Piggy id code) =>
      let s1 := deliver (wake_mid mu s id) id code in
      let '(s2, ret) := settle s1 in
      let '(s3, em, rr) := admit_all_m c mu s2 in
      (mk mu s3, {| o_emit := em; o_ret := ret ++ rr |})
  | Base (Cancel id) =>
      match find_rq (reqs s) id with
      | Some q =>
          if is_done (q_st q) then (ms, {| o_emit := []; o_ret := [] |})
          else
            let s1 := {| reqs := set_status (reqs s) id (fun x => with_st x (Done 1)); pending := del_pend (pending s) id |} in
            let '(s2, em, rr) := admit_all_m c mu s1 in
            (mk mu s2, {| o_emit := em; o_ret := (id, 1, 0) :: rr |})
      | None => (ms, {| o_emit := []; o_ret := [] |})
      end
  | Base e0 =>
      (* Age, Tick, Sep: no admission and no matching by message ID *)
      let '(s1, o) := step c s e0 in (mk mu s1, o)
  end.

Fixpoint mrun (c : cfg) (s : mst) (evs : list mev) : mst * list obs :=
  match evs with
  | [] => (s, [])
  | e :: r => let '(s1, o) := mstep c s e in let '(s2, os) := mrun c s1 r in (s2, o :: os)
  end.

Definition minit : mst := {| base := init; mids := [] |}.
