(* C10, round 5: who holds a pooled message on the receive path of a datagram connection.

   The udp server has ONE message pool (config.NewCommon: pool.New(1024, 2048)) shared by the read loop and by the
   connections of all peers.  message/pool.Pool checks nothing: AcquireMessage takes whatever sync.Pool hands out
   (or makes a new message), ReleaseMessage resets the message and puts it back (unless the pool already holds
   maxNumMessages).  That no message is ever in the hands of two peers -- "garbage ... of one peer never change what
   other peers receive" -- and that no released (ctx = nil) message is still being worked on -- "never crashes" --
   therefore rests on ONE discipline of the callers: a message is released only by the one who holds it, once.

   Model: messages are numbers (pointer identity, in order of allocation); the pool is the list of messages it
   holds ([free], with repetition if the code puts a message back twice); [held] is the ghost list of the messages
   in somebody's hands.  sync.Pool may hand out any of its elements: the choice is a parameter of [acquire].
   The paths of udp/client Conn.Process (+ what the reader loop of the connection does with a queued message) are
   programs over three pointer variables; a released pointer variable KEEPS its pointer, as in the code.
   Model and proofs in one file (a page), like Queue.v. *)
From Coq Require Import List Arith Lia Bool Permutation.
Import ListNotations.

Definition mid := nat.
Record pool := MkPool { free : list mid; held : list mid; next : mid }.
Definition pool_init : pool := MkPool [] [] 0.

Fixpoint remove_nth {A} (n : nat) (l : list A) : list A :=
  match l, n with
  | [], _ => []
  | _ :: t, O => t
  | h :: t, S k => h :: remove_nth k t
  end.
Fixpoint remove_one (m : mid) (l : list mid) : list mid :=
  match l with [] => [] | h :: t => if Nat.eqb h m then t else h :: remove_one m t end.

(* Pool.AcquireMessage: sync.Pool.Get() == nil -> NewMessage; otherwise one of the pooled messages, [i] chooses *)
Definition acquire (p : pool) (i : nat) : pool * mid :=
  match free p with
  | [] => (MkPool [] (next p :: held p) (S (next p)), next p)
  | f0 :: _ =>
      let k := i mod length (free p) in
      let m := nth k (free p) f0 in
      (MkPool (remove_nth k (free p)) (m :: held p) (next p), m)
  end.

(* Pool.ReleaseMessage: with [cap] = maxNumMessages messages in the pool the message is left to the collector,
   otherwise Reset, ctx = nil, Put.  Nothing is checked. *)
Definition release (cap : nat) (p : pool) (m : mid) : pool :=
  if cap <=? length (free p) then MkPool (free p) (remove_one m (held p)) (next p)
  else MkPool (m :: free p) (remove_one m (held p)) (next p).

(* the pool and the hands are disjoint and without repetition: nobody shares a message, the pool holds none twice *)
Definition good (p : pool) : Prop :=
  NoDup (free p ++ held p) /\ forall m, In m (free p ++ held p) -> m < next p.

(* ---- programs: the receive path ---- *)
Inductive slot := SReq | SResp.
Definition slot_eqb (a b : slot) : bool :=
  match a, b with SReq, SReq | SResp, SResp => true | _, _ => false end.
Inductive instr := IAcq (s : slot) | IRel (s : slot).
Definition regs := slot -> option mid.
Definition no_regs : regs := fun _ => None.
Definition upd {A} (r : slot -> A) (s : slot) (v : A) : slot -> A := fun x => if slot_eqb x s then v else r x.

(* [ok] stays true as long as every release was of a message the program held at that moment *)
Fixpoint exec (cap : nat) (pr : list instr) (cs : list nat) (r : regs) (p : pool) (ok : bool) : pool * bool :=
  match pr with
  | [] => (p, ok)
  | IAcq s :: pr' =>
      let pm := acquire p (hd 0 cs) in
      exec cap pr' (tl cs) (upd r s (Some (snd pm))) (fst pm) ok
  | IRel s :: pr' =>
      match r s with
      | Some m => exec cap pr' cs r (release cap p m) (ok && existsb (Nat.eqb m) (held p))
      | None => exec cap pr' cs r p false
      end
  end.

(* udp/client Conn.Process, by the way it leaves; SReq = req, SResp = the response writer's message *)
Inductive path :=
| PTooBig        (* longer than MaxMessageSize: error before anything is acquired *)
| PDecodeErr     (* AcquireMessage; UnmarshalWithDecoder fails; ReleaseMessage(req); return err *)
| PMonitorErr    (* requestMonitor returns an error: ReleaseMessage(req) *)
| PDropped       (* requestMonitor says drop: ReleaseMessage(req) *)
| PPing          (* handleSpecialMessages, ping: ProcessReceivedMessageWithHandler(req, handlePong) inline:
                    resp acquired, deferred ReleaseMessage(w.Message()), deferred ReleaseMessage(req); return true *)
| PAnswer        (* ACK/RST with the message ID of a pending message: resp acquired, handler, deferred release of
                    resp, return false: queued; the reader loop: ProcessReceivedMessageWithHandler as for PQueued *)
| PSeparate      (* empty ACK of a separate response: return true; req is neither queued nor released *)
| PCtxDone       (* the select takes cc.Context().Done(): req is neither queued nor released *)
| PQueued        (* queued; reader loop: ProcessReceivedMessageWithHandler(req, handleReq): resp acquired, handler,
                    release resp, release req *)
| PHijacked.     (* as PQueued, the handler hijacked req: only resp is released *)

Definition path_prog (x : path) : list instr :=
  match x with
  | PTooBig => []
  | PDecodeErr | PMonitorErr | PDropped => [IAcq SReq; IRel SReq]
  | PPing | PQueued => [IAcq SReq; IAcq SResp; IRel SResp; IRel SReq]
  | PAnswer => [IAcq SReq; IAcq SResp; IRel SResp; IAcq SResp; IRel SResp; IRel SReq]
  | PSeparate | PCtxDone => [IAcq SReq]
  | PHijacked => [IAcq SReq; IAcq SResp; IRel SResp]
  end.

(* NOT the code (contrast only): handleSpecialMessages releases req for a non-empty message with code 0.00 and goes
   on; the message is queued, handled and released again *)
Definition doubly_released_prog : list instr := [IAcq SReq; IRel SReq; IAcq SResp; IRel SResp; IRel SReq].

(* the syntactic discipline: a variable is released only while it holds a message acquired and not yet released *)
Fixpoint lin (own : slot -> bool) (pr : list instr) : bool :=
  match pr with
  | [] => true
  | IAcq s :: pr' => lin (upd own s true) pr'
  | IRel s :: pr' => own s && lin (upd own s false) pr'
  end.

(* datagram after datagram (one Serve iteration and the dispatch of what it queued = one step, as in Model.v) *)
Fixpoint run_paths (cap : nat) (l : list (path * list nat)) (p : pool) (ok : bool) : pool * bool :=
  match l with
  | [] => (p, ok)
  | (x, cs) :: l' => let po := exec cap (path_prog x) cs no_regs p ok in run_paths cap l' (fst po) (snd po)
  end.

(* any interleaving of the goroutines, at the level of the pool's two operations *)
Inductive pev := EvAcq (i : nat) | EvRel (m : mid).
Definition pstep (cap : nat) (p : pool) (e : pev) : pool :=
  match e with EvAcq i => fst (acquire p i) | EvRel m => release cap p m end.
(* the discipline on a trace: every release is of a message that is in somebody's hands at that moment *)
Fixpoint disciplined (cap : nat) (p : pool) (evs : list pev) : Prop :=
  match evs with
  | [] => True
  | e :: evs' => match e with EvRel m => In m (held p) | EvAcq _ => True end /\ disciplined cap (pstep cap p e) evs'
  end.

(* ================= proofs ================= *)

Lemma remove_nth_perm : forall (l : list mid) k d, k < length l -> Permutation l (nth k l d :: remove_nth k l).
Proof.
  induction l as [|h t IH]; intros k d Hk; cbn in Hk; [lia|].
  destruct k as [|k]; cbn; [reflexivity|].
  eapply perm_trans; [apply perm_skip, (IH k d); lia|]. apply perm_swap.
Qed.

Lemma remove_one_perm : forall l m, In m l -> Permutation l (m :: remove_one m l).
Proof.
  induction l as [|h t IH]; intros m Hin; [destruct Hin|]. cbn.
  destruct (Nat.eqb h m) eqn:E.
  - apply Nat.eqb_eq in E. subst. reflexivity.
  - destruct Hin as [->|Hin]; [rewrite Nat.eqb_refl in E; discriminate|].
    eapply perm_trans; [apply perm_skip, IH, Hin|]. apply perm_swap.
Qed.

Lemma good_perm : forall p q, good p -> next q = next p -> Permutation (free p ++ held p) (free q ++ held q) -> good q.
Proof.
  intros p q [Hn Hb] Hx Hp. split.
  - eapply Permutation_NoDup; eauto.
  - intros m Hm. rewrite Hx. apply Hb. eapply Permutation_in; [apply Permutation_sym, Hp|exact Hm].
Qed.

Lemma good_init : good pool_init.
Proof. split; cbn; [constructor|intros m []]. Qed.

(* what AcquireMessage hands out was in nobody's hands, is not in the pool any more, and nothing else changed hands *)
Lemma acquire_good : forall p i, good p ->
  good (fst (acquire p i))
  /\ held (fst (acquire p i)) = snd (acquire p i) :: held p
  /\ ~ In (snd (acquire p i)) (held p)
  /\ ~ In (snd (acquire p i)) (free (fst (acquire p i))).
Proof.
  intros p i Hg. unfold acquire. destruct (free p) as [|f0 ft] eqn:Ef.
  - cbn. destruct Hg as [Hn Hb]. rewrite Ef in *. cbn in *.
    assert (Hfresh : ~ In (next p) (held p)) by (intro H; apply Hb in H; lia).
    repeat split; auto.
    + constructor; auto.
    + intros m [Hm|Hm]; [cbn in *; lia|]. apply Hb in Hm. cbn in *. lia.
  - set (k := i mod length (f0 :: ft)). set (m := nth k (f0 :: ft) f0). cbn [fst snd held free].
    assert (Hk : k < length (f0 :: ft)) by (apply Nat.mod_upper_bound; cbn; lia).
    pose proof (remove_nth_perm (f0 :: ft) k f0 Hk) as Hp. fold m in Hp.
    assert (Hpp : Permutation (free p ++ held p) (m :: remove_nth k (f0 :: ft) ++ held p)).
    { rewrite Ef. change (m :: remove_nth k (f0 :: ft) ++ held p) with ((m :: remove_nth k (f0 :: ft)) ++ held p).
      apply Permutation_app_tail, Hp. }
    assert (Hnd : NoDup (m :: remove_nth k (f0 :: ft) ++ held p)).
    { eapply Permutation_NoDup; [exact Hpp|apply Hg]. }
    inversion Hnd as [|? ? Hnot Hrest]; subst.
    repeat split.
    + cbn. eapply Permutation_NoDup; [apply Permutation_middle|exact Hnd].
    + cbn. intros x Hx. apply Hg. eapply Permutation_in; [apply Permutation_sym, Hpp|].
      eapply Permutation_in; [apply Permutation_sym, Permutation_middle|exact Hx].
    + intro H. apply Hnot. apply in_or_app. right. exact H.
    + intro H. apply Hnot. apply in_or_app. left. exact H.
Qed.

Lemma remove_one_other : forall l m x, x <> m -> In x l -> In x (remove_one m l).
Proof.
  induction l as [|h t IH]; intros m x Hne Hin; [destruct Hin|]. cbn.
  destruct (Nat.eqb h m) eqn:E.
  - apply Nat.eqb_eq in E. subst. destruct Hin as [->|Hin]; [congruence|exact Hin].
  - destruct Hin as [->|Hin]; [left; reflexivity|right; apply IH; assumption].
Qed.

(* a release by the holder keeps the pool good, and the message is in nobody's hands afterwards *)
Lemma release_good : forall cap p m, good p -> In m (held p) ->
  good (release cap p m) /\ ~ In m (held (release cap p m)).
Proof.
  intros cap p m Hg Hin.
  pose proof (remove_one_perm _ _ Hin) as Hp.
  assert (Hpp : Permutation (free p ++ held p) (m :: free p ++ remove_one m (held p))).
  { eapply perm_trans; [apply Permutation_app_head, Hp|]. apply Permutation_sym, Permutation_middle. }
  assert (Hnd : NoDup (m :: free p ++ remove_one m (held p))).
  { eapply Permutation_NoDup; [exact Hpp|apply Hg]. }
  assert (Hb : forall x, In x (m :: free p ++ remove_one m (held p)) -> x < next p).
  { intros x Hx. apply Hg. eapply Permutation_in; [apply Permutation_sym, Hpp|exact Hx]. }
  inversion Hnd as [|? ? Hnot Hrest]; subst.
  unfold release. destruct (cap <=? length (free p)); cbn [held free next]; split.
  - split; cbn; [exact Hrest|intros x Hx; apply Hb; right; exact Hx].
  - intro H. apply Hnot, in_or_app. right. exact H.
  - split; cbn; [exact Hnd|exact Hb].
  - intro H. apply Hnot, in_or_app. right. exact H.
Qed.

Lemma release_keeps_others : forall cap p m x, x <> m -> In x (held p) -> In x (held (release cap p m)).
Proof.
  intros cap p m x Hne Hin. unfold release. destruct (cap <=? length (free p)); cbn; apply remove_one_other; assumption.
Qed.

(* the variables that own a message hold different messages, all of them in [held] *)
Definition owns (own : slot -> bool) (r : regs) (p : pool) : Prop :=
  (forall s, own s = true -> exists m, r s = Some m /\ In m (held p))
  /\ (forall s1 s2, own s1 = true -> own s2 = true -> s1 <> s2 -> r s1 <> r s2).

Lemma slot_eqb_eq : forall a b, slot_eqb a b = true <-> a = b.
Proof. intros [] []; cbn; split; intro H; try reflexivity; try discriminate. Qed.

Lemma existsb_eqb_in : forall m l, In m l -> existsb (Nat.eqb m) l = true.
Proof. intros m l H. apply existsb_exists. exists m. split; [exact H|apply Nat.eqb_refl]. Qed.

(* a program that obeys the syntactic discipline never releases a message it does not hold, from any good pool,
   whatever sync.Pool hands out, and leaves a good pool *)
Lemma exec_lin : forall cap pr cs own r p ok,
  lin own pr = true -> good p -> owns own r p ->
  snd (exec cap pr cs r p ok) = ok /\ good (fst (exec cap pr cs r p ok)).
Proof.
  intros cap pr. induction pr as [|[s|s] pr IH]; intros cs own r p ok Hl Hg Ho; cbn [exec].
  - cbn. split; [reflexivity|exact Hg].
  - cbn [lin] in Hl.
    destruct (acquire_good p (hd 0 cs) Hg) as (Hg' & Hh & Hnh & _).
    apply (IH (tl cs) (upd own s true)); [exact Hl|exact Hg'|].
    destruct Ho as [Ho1 Ho2]. split.
    + intros x Hx. unfold upd in *. destruct (slot_eqb x s) eqn:E.
      * eexists. split; [reflexivity|]. rewrite Hh. left. reflexivity.
      * destruct (Ho1 x Hx) as (m & Hm & Hin). exists m. split; [exact Hm|]. rewrite Hh. right. exact Hin.
    + intros s1 s2 H1 H2 Hne. unfold upd in *.
      destruct (slot_eqb s1 s) eqn:E1; destruct (slot_eqb s2 s) eqn:E2.
      * apply slot_eqb_eq in E1. apply slot_eqb_eq in E2. congruence.
      * destruct (Ho1 s2 H2) as (m & Hm & Hin). rewrite Hm. intro H. injection H as H. subst. contradiction.
      * destruct (Ho1 s1 H1) as (m & Hm & Hin). rewrite Hm. intro H. injection H as H. subst. contradiction.
      * apply Ho2; assumption.
  - cbn [lin] in Hl. apply andb_true_iff in Hl. destruct Hl as [Hown Hl].
    destruct Ho as [Ho1 Ho2]. destruct (Ho1 s Hown) as (m & Hm & Hin). rewrite Hm.
    destruct (release_good cap p m Hg Hin) as [Hg' Hgone].
    rewrite (existsb_eqb_in m (held p) Hin), andb_true_r.
    apply (IH cs (upd own s false)); [exact Hl|exact Hg'|]. split.
    + intros x Hx. unfold upd in Hx. destruct (slot_eqb x s) eqn:E; [discriminate|].
      destruct (Ho1 x Hx) as (mx & Hmx & Hinx). exists mx. split; [exact Hmx|].
      apply release_keeps_others; [|exact Hinx].
      intro Heq. subst mx. apply (Ho2 x s Hx Hown).
      * intro Hxs. subst. destruct s; discriminate.
      * congruence.
    + intros s1 s2 H1 H2 Hne. unfold upd in H1, H2.
      destruct (slot_eqb s1 s); [discriminate|]. destruct (slot_eqb s2 s); [discriminate|]. apply Ho2; assumption.
Qed.

Lemma owns_nothing : forall r p, owns (fun _ => false) r p.
Proof. intros r p. split; [intros s H; discriminate|intros s1 s2 H; discriminate]. Qed.

Lemma path_prog_lin : forall x, lin (fun _ => false) (path_prog x) = true.
Proof. destruct x; reflexivity. Qed.

(* every way through Conn.Process, from any good pool, whatever sync.Pool hands out *)
Theorem path_disciplined : forall cap x cs p ok, good p ->
  snd (exec cap (path_prog x) cs no_regs p ok) = ok /\ good (fst (exec cap (path_prog x) cs no_regs p ok)).
Proof.
  intros cap x cs p ok Hg. apply (exec_lin cap (path_prog x) cs (fun _ => false)).
  - apply path_prog_lin.
  - exact Hg.
  - apply owns_nothing.
Qed.

(* all sequences of datagrams of any peers, every kind of path, every choice of the pool *)
Theorem run_paths_good : forall cap l p, good p ->
  snd (run_paths cap l p true) = true /\ good (fst (run_paths cap l p true)).
Proof.
  intros cap l. induction l as [|[x cs] l IH]; intros p Hg; cbn [run_paths].
  - split; [reflexivity|exact Hg].
  - destruct (path_disciplined cap x cs p true Hg) as [Hok Hg']. rewrite Hok. apply IH. exact Hg'.
Qed.

(* any interleaving: as long as every release is by a holder, the pool stays good *)
Theorem disciplined_good : forall cap evs p, good p -> disciplined cap p evs -> good (fold_left (pstep cap) evs p).
Proof.
  intros cap evs. induction evs as [|e evs IH]; intros p Hg Hd; cbn; [exact Hg|].
  destruct Hd as [He Hd]. apply IH; [|exact Hd].
  destruct e as [i|m]; cbn.
  - apply acquire_good. exact Hg.
  - apply release_good; assumption.
Qed.

(* in a good pool two acquisitions in a row -- the read loop's for the datagram of one peer, a reader loop's for
   another -- never hand out the same message *)
Theorem good_two_acquires_differ : forall p i j, good p ->
  snd (acquire p i) <> snd (acquire (fst (acquire p i)) j).
Proof.
  intros p i j Hg.
  destruct (acquire_good p i Hg) as (Hg1 & Hh1 & _ & _).
  destruct (acquire_good (fst (acquire p i)) j Hg1) as (_ & _ & Hn2 & _).
  intro Heq. apply Hn2. rewrite Hh1. left. exact Heq.
Qed.

(* contrast, NOT the code: ONE datagram on the doubly releasing path, from the pool of a server that has just
   started: the last release is of a message the program does not hold, the pool then holds that message twice,
   and the next two acquisitions (two peers' datagrams) hand out the SAME message *)
Theorem double_release_shares :
  let po := exec 1024 doubly_released_prog [] no_regs pool_init true in
  snd po = false
  /\ free (fst po) = [0; 0]
  /\ ~ good (fst po)
  /\ snd (acquire (fst po) 0) = snd (acquire (fst (acquire (fst po) 0)) 0).
Proof.
  cbn. repeat split; try reflexivity.
  intros [Hn _]. cbn in Hn. inversion Hn as [|? ? Hnot _]. apply Hnot. left. reflexivity.
Qed.
