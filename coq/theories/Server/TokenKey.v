(* Server/TokenKey.v -- the KEY of the discovery tables.

   udp/server/server.go   multicastHandler *coapSync.Map[uint64, HandlerFunc]
   udp/server/discover.go DiscoveryRequest: LoadOrStore(token.Hash(), receiver) ... deferred LoadAndDelete(token.Hash())
   udp/server/server.go   cfg.Handler wrapper: multicastHandler.Load(r.Token().Hash()) -> receiver, else the application
   message/getToken.go    Token.Hash() = crc64.Checksum(t, crc64.MakeTable(crc64.ISO))      -> Observe.Model.crc64

   Server/Model.v writes the table as  token -> receiver  ([mhtab], [mh_lookup] compares the token bytes).  The code
   keys it by a 64-bit number computed from the token.  Here the table is as the code has it -- key -> receiver, the
   key function [hash] being a parameter -- next to the same four operations on the token-keyed table of Model.v
   ([tstep]); TokenKeyProofs.v shows that the two agree on every history whose tokens the key function tells apart,
   and that CRC-64 (the key function of the code) tells apart every two tokens that differ in the number of zero
   bytes in front of a common rest.

   [packed_key] is NOT the code: it is the what-if the contrast theorem is about -- the token bytes packed
   big-endian into the 64-bit key ("a token of up to 8 bytes fits into the key as it is"), which drops the length
   of the token from the key.

   No proofs here. *)
From Coq Require Import ZArith List Bool.
From GoCoap Require Import Base.Bytes Server.Model.
From GoCoap Require Observe.Model.
Import ListNotations.
Open Scope Z_scope.

Definition crc64 : list Z -> Z := GoCoap.Observe.Model.crc64.
Definition crc_bit : Z -> Z := GoCoap.Observe.Model.crc_bit.
Definition crc_byte : Z -> Z -> Z := GoCoap.Observe.Model.crc_byte.
Definition crc_poly : Z := GoCoap.Observe.Model.crc_poly.
Definition M64 : Z := GoCoap.Observe.Model.M64.

(* the running CRC register after the bytes of [l] (crc64.update from the inverted initial value) *)
Definition crc_state (l : list Z) : Z := fold_left crc_byte l M64.

(* coapSync.Map[uint64, HandlerFunc]: key -> receiver *)
Definition htab := list (Z * Z).
Fixpoint h_lookup (t : htab) (k : Z) : option Z :=
  match t with
  | [] => None
  | (k', r) :: rest => if k' =? k then Some r else h_lookup rest k
  end.
Fixpoint h_remove (t : htab) (k : Z) : htab :=
  match t with
  | [] => []
  | (k', r) :: rest => if k' =? k then h_remove rest k else (k', r) :: h_remove rest k
  end.

(* what happens to the discovery table, and what it decides *)
Inductive dev :=
| DvStart (tok : list Z) (rcv : Z)    (* DiscoveryRequest: LoadOrStore *)
| DvEnd (tok : list Z)                (* ... its deferred LoadAndDelete when the call returns *)
| DvFail (tok : list Z) (rcv : Z)     (* a DiscoveryRequest whose datagram cannot be sent: LoadOrStore, failed write, LoadAndDelete *)
| DvResp (tok : list Z).              (* a message with this token reaches the cfg.Handler wrapper of some connection *)
Inductive dout :=
| DoExists                            (* ErrKeyAlreadyExists *)
| DoSendErr
| DoDeliver (rcv : Z) (tok : list Z)  (* handed to the receiver of a discovery request *)
| DoApp (tok : list Z).               (* handed to the application's handler *)

Definition dev_tok (e : dev) : list Z :=
  match e with DvStart t _ | DvEnd t | DvFail t _ | DvResp t => t end.

Section Hashed.
  Variable hash : list Z -> Z.          (* Token.Hash *)

  Definition hstep (t : htab) (e : dev) : htab * list dout :=
    match e with
    | DvStart tok rcv =>
        match h_lookup t (hash tok) with
        | Some _ => (t, [DoExists])
        | None => ((hash tok, rcv) :: t, [])
        end
    | DvEnd tok => (h_remove t (hash tok), [])
    | DvFail tok rcv =>
        match h_lookup t (hash tok) with
        | Some _ => (t, [DoExists])
        | None => (h_remove ((hash tok, rcv) :: t) (hash tok), [DoSendErr])
        end
    | DvResp tok =>
        (t, [match h_lookup t (hash tok) with Some r => DoDeliver r tok | None => DoApp tok end])
    end.

  Fixpoint hrun (t : htab) (evs : list dev) : htab * list dout :=
    match evs with
    | [] => (t, [])
    | e :: r => let '(t1, o1) := hstep t e in let '(t2, o2) := hrun t1 r in (t2, o1 ++ o2)
    end.

  (* the key-table that corresponds to a token-table *)
  Definition hkeys (t : mhtab) : htab := map (fun x => (hash (fst x), snd x)) t.

  (* the key function tells these tokens apart *)
  Definition told_apart (toks : list (list Z)) : Prop :=
    forall a b, In a toks -> In b toks -> hash a = hash b -> a = b.
  Definition told_apart_b (toks : list (list Z)) : bool :=
    forallb (fun a => forallb (fun b => implb (hash a =? hash b) (bytes_eqb a b)) toks) toks.
End Hashed.

(* the same events on the table of Model.v (token -> receiver): the discovery branches of [Model.step]
   and the look-up of [Model.cstep] *)
Definition tstep (t : mhtab) (e : dev) : mhtab * list dout :=
  match e with
  | DvStart tok rcv =>
      match mh_lookup t tok with
      | Some _ => (t, [DoExists])
      | None => ((tok, rcv) :: t, [])
      end
  | DvEnd tok => (mh_remove t tok, [])
  | DvFail tok rcv =>
      match mh_lookup t tok with
      | Some _ => (t, [DoExists])
      | None => (mh_remove ((tok, rcv) :: t) tok, [DoSendErr])
      end
  | DvResp tok =>
      (t, [match mh_lookup t tok with Some r => DoDeliver r tok | None => DoApp tok end])
  end.
Fixpoint trun (t : mhtab) (evs : list dev) : mhtab * list dout :=
  match evs with
  | [] => (t, [])
  | e :: r => let '(t1, o1) := tstep t e in let '(t2, o2) := trun t1 r in (t2, o1 ++ o2)
  end.

(* the discovery events of a server history *)
Definition dev_of {D} (e : ev D) : list dev :=
  match e with
  | EDiscStart tok rcv => [DvStart tok rcv]
  | EDiscEnd tok => [DvEnd tok]
  | EDiscFail tok rcv => [DvFail tok rcv]
  | _ => []
  end.

(* NOT the code: the token bytes packed big-endian into the key, CRC only for over-long tokens *)
Definition packed_key (t : list Z) : Z := if 8 <? blen t then crc64 t else be t.
