(* C10, keep-alive level: a server configured with options.WithKeepAlive serving several connections.

   options/commonOptions.go (toUDPCreateInactivityMonitor / toTCPCreateInactivityMonitor) installs a FACTORY

     cfg.CreateInactivityMonitor = func() InactivityMonitor {
         keepalive := inactivity.NewKeepAlive(maxRetries, onInactive, sendPing)
         return inactivity.NewWithOnActive(timeout/(maxRetries+1), keepalive.OnInactive, keepalive.OnActive)
     }

   which the servers call once per connection they create (udp/server getOrCreateConn, tcp/server and dtls/server
   serveConnection): every connection owns one Monitor AND one KeepAlive -- the count of unanswered pings, the
   pong token and the pending-ping cancel function are per connection.  One connection is the machine of
   Monitor/Model.v (C18: [M.st], [M.step]); the server is a table of such machines:

   * KOpen i t    connection i is created at time t: the factory runs, fresh state [M.init t];
   * KConn i e    an event of connection i alone (a message or the answer to a ping arrives; the datagram path);
   * KSweep t bad the housekeeping round (udp: handleInactivityMonitors, tcp/dtls: connections.CheckExpirations):
                  every connection in the table is checked at t; sendPing fails for the connections in [bad].
   A connection whose context is done is skipped by every driver and receives nothing more.

   [kstep_shared] is NOT the code: it is the what-if the theorems are contrasted with -- the KeepAlive built once
   and captured by the factory, so that all connections share the counter, the pong token and the cancel slot
   (each connection still owns its Monitor, i.e. its activity stamp).

   No proofs here. *)
From Coq Require Import ZArith List Bool.
From GoCoap Require Monitor.Model.
Import ListNotations.
Open Scope Z_scope.

Module M := GoCoap.Monitor.Model.

(* what one connection was seen to do at one of its events *)
Definition item := (M.ev * list M.obs)%type.

Inductive kev :=
| KOpen (i : nat) (t : Z)
| KConn (i : nat) (e : M.ev)
| KSweep (t : Z) (bad : list nat).

Definition ktab := list (nat * M.st).

Fixpoint klookup (i : nat) (l : ktab) : option M.st :=
  match l with
  | [] => None
  | (k, s) :: r => if Nat.eqb k i then Some s else klookup i r
  end.
Fixpoint kupdate (i : nat) (s : M.st) (l : ktab) : ktab :=
  match l with
  | [] => []
  | (k, w) :: r => if Nat.eqb k i then (k, s) :: r else (k, w) :: kupdate i s r
  end.

Definition send_ok (bad : list nat) (i : nat) : bool := negb (existsb (Nat.eqb i) bad).

(* one event handed to one connection *)
Definition conn_event (c : M.cfg) (s : M.st) (e : M.ev) : M.st * list item :=
  if M.closed s then (s, []) else let '(s', o) := M.step c s e in (s', [(e, o)]).

Definition tag (i : nat) (l : list item) : list (nat * item) := map (pair i) l.

Fixpoint sweep (c : M.cfg) (t : Z) (bad : list nat) (l : ktab) : ktab * list (nat * item) :=
  match l with
  | [] => ([], [])
  | (i, s) :: r =>
      let '(s', o) := conn_event c s (M.Tick t (send_ok bad i)) in
      let '(r', os) := sweep c t bad r in
      ((i, s') :: r', tag i o ++ os)
  end.

Definition kstep (c : M.cfg) (tab : ktab) (e : kev) : ktab * list (nat * item) :=
  match e with
  | KOpen i t => match klookup i tab with Some _ => (tab, []) | None => ((i, M.init t) :: tab, []) end
  | KConn i e =>
      match klookup i tab with
      | Some s => let '(s', o) := conn_event c s e in (kupdate i s' tab, tag i o)
      | None => (tab, [])
      end
  | KSweep t bad => sweep c t bad tab
  end.

Fixpoint krun (c : M.cfg) (tab : ktab) (evs : list kev) : ktab * list (nat * item) :=
  match evs with
  | [] => (tab, [])
  | e :: r => let '(t1, o1) := kstep c tab e in let '(t2, o2) := krun c t1 r in (t2, o1 ++ o2)
  end.

(* what connection i was seen to do *)
Definition kproj (i : nat) (os : list (nat * item)) : list item :=
  map snd (filter (fun x => Nat.eqb (fst x) i) os).

(* the events that concern connection i: its own, and every housekeeping round *)
Definition kev_keep (i : nat) (e : kev) : bool :=
  match e with KOpen j _ | KConn j _ => Nat.eqb j i | KSweep _ _ => true end.
(* ... as events of the single-connection machine *)
Definition kev_of (i : nat) (e : kev) : list M.ev :=
  match e with
  | KOpen _ _ => []
  | KConn j e => if Nat.eqb j i then [e] else []
  | KSweep t bad => [M.Tick t (send_ok bad i)]
  end.

(* one connection on its own, up to and including the event at which it is closed *)
Fixpoint conn_run (c : M.cfg) (s : M.st) (h : list M.ev) : list item :=
  match h with
  | [] => []
  | e :: r => if M.closed s then [] else let '(s', o) := M.step c s e in (e, o) :: conn_run c s' r
  end.

(* ------------------------------------------------------------------ *)
(* NOT the code: one KeepAlive shared by all connections              *)
(* ------------------------------------------------------------------ *)
Record shared := { sh_fails : Z; sh_token : Z; sh_pending : option Z }.
Definition shared_init : shared := {| sh_fails := 0; sh_token := 0; sh_pending := None |}.
Definition with_shared (s : M.st) (sh : shared) : M.st :=
  {| M.last := M.last s; M.fails := sh_fails sh; M.token := sh_token sh; M.pending := sh_pending sh; M.closed := M.closed s |}.
Definition shared_of (s : M.st) : shared :=
  {| sh_fails := M.fails s; sh_token := M.token s; sh_pending := M.pending s |}.

Definition conn_event_shared (c : M.cfg) (s : M.st) (sh : shared) (e : M.ev) : M.st * shared * list item :=
  if M.closed s then (s, sh, [])
  else let '(s', o) := M.step c (with_shared s sh) e in (s', shared_of s', [(e, o)]).

Fixpoint sweep_shared (c : M.cfg) (t : Z) (bad : list nat) (l : ktab) (sh : shared) : ktab * shared * list (nat * item) :=
  match l with
  | [] => ([], sh, [])
  | (i, s) :: r =>
      let '(s', sh1, o) := conn_event_shared c s sh (M.Tick t (send_ok bad i)) in
      let '(r', sh2, os) := sweep_shared c t bad r sh1 in
      ((i, s') :: r', sh2, tag i o ++ os)
  end.

Definition kstep_shared (c : M.cfg) (st : ktab * shared) (e : kev) : (ktab * shared) * list (nat * item) :=
  let '(tab, sh) := st in
  match e with
  | KOpen i t => match klookup i tab with Some _ => (st, []) | None => (((i, M.init t) :: tab, sh), []) end
  | KConn i e =>
      match klookup i tab with
      | Some s => let '(s', sh', o) := conn_event_shared c s sh e in ((kupdate i s' tab, sh'), tag i o)
      | None => (st, [])
      end
  | KSweep t bad => let '(tab', sh', o) := sweep_shared c t bad tab sh in ((tab', sh'), o)
  end.

Fixpoint krun_shared (c : M.cfg) (st : ktab * shared) (evs : list kev) : (ktab * shared) * list (nat * item) :=
  match evs with
  | [] => (st, [])
  | e :: r => let '(t1, o1) := kstep_shared c st e in let '(t2, o2) := krun_shared c t1 r in (t2, o1 ++ o2)
  end.
