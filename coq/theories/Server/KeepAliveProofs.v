(* C10, keep-alive level (Server/KeepAlive.v): what a connection of a keep-alive server is seen to do is a
   function of ITS OWN events and the housekeeping rounds -- for every history of every number of connections,
   every interleaving, every configuration. *)
From Coq Require Import ZArith NArith List Bool Lia.
From GoCoap Require Monitor.Model Monitor.Spec Monitor.Proofs.
From GoCoap Require Import Server.KeepAlive.
Import ListNotations.
Open Scope Z_scope.

Module MS := GoCoap.Monitor.Spec.
Module MP := GoCoap.Monitor.Proofs.

(* ---- everything about connection i is a function of its own state and the event ---- *)
Definition local (c : M.cfg) (i : nat) (so : option M.st) (e : kev) : option M.st * list item :=
  match e with
  | KOpen j t =>
      if Nat.eqb j i then (match so with Some s => Some s | None => Some (M.init t) end, []) else (so, [])
  | KConn j ev =>
      if Nat.eqb j i
      then match so with Some s => let '(s', o) := conn_event c s ev in (Some s', o) | None => (None, []) end
      else (so, [])
  | KSweep t bad =>
      match so with
      | Some s => let '(s', o) := conn_event c s (M.Tick t (send_ok bad i)) in (Some s', o)
      | None => (None, [])
      end
  end.

Lemma kproj_app i a b : kproj i (a ++ b) = kproj i a ++ kproj i b.
Proof. unfold kproj. rewrite filter_app, map_app. reflexivity. Qed.
Lemma kproj_tag_same i l : kproj i (tag i l) = l.
Proof.
  unfold kproj, tag. induction l as [|x r IH]; cbn; [reflexivity|]. rewrite Nat.eqb_refl. cbn. rewrite IH. reflexivity.
Qed.
Lemma kproj_tag_other i j l : j <> i -> kproj i (tag j l) = [].
Proof.
  intros H. unfold kproj, tag. induction l as [|x r IH]; cbn; [reflexivity|].
  destruct (Nat.eqb_spec j i); [contradiction|]. exact IH.
Qed.

Lemma klookup_update_same i s l : klookup i l <> None -> klookup i (kupdate i s l) = Some s.
Proof.
  induction l as [|[k w] r IH]; cbn; [congruence|]. destruct (Nat.eqb k i) eqn:E; cbn; rewrite E; [reflexivity|]. exact IH.
Qed.
Lemma klookup_update_other i j s l : j <> i -> klookup i (kupdate j s l) = klookup i l.
Proof.
  intros H. induction l as [|[k w] r IH]; cbn; [reflexivity|].
  destruct (Nat.eqb_spec k j) as [->|Hk]; cbn.
  - destruct (Nat.eqb_spec j i); [contradiction|reflexivity].
  - destruct (Nat.eqb k i); [reflexivity|exact IH].
Qed.
Lemma keys_update j s l : map fst (kupdate j s l) = map fst l.
Proof. induction l as [|[k w] r IH]; cbn; [reflexivity|]. destruct (Nat.eqb k j); cbn; [reflexivity|]. rewrite IH. reflexivity. Qed.
Lemma klookup_none_notin i l : klookup i l = None -> ~ In i (map fst l).
Proof.
  induction l as [|[k w] r IH]; cbn; [tauto|]. destruct (Nat.eqb_spec k i); [discriminate|].
  intros H [Hk|Hin]; [contradiction|]. exact (IH H Hin).
Qed.
Lemma klookup_notin_none i l : ~ In i (map fst l) -> klookup i l = None.
Proof.
  induction l as [|[k w] r IH]; cbn; [reflexivity|]. intros H. destruct (Nat.eqb_spec k i) as [->|]; [tauto|]. apply IH. tauto.
Qed.

(* the housekeeping round, seen from connection i *)
Lemma sweep_local : forall c t bad i l l' o, NoDup (map fst l) -> sweep c t bad l = (l', o) ->
  map fst l' = map fst l /\
  klookup i l' = fst (local c i (klookup i l) (KSweep t bad)) /\ kproj i o = snd (local c i (klookup i l) (KSweep t bad)).
Proof.
  intros c t bad i. induction l as [|[k s] r IH]; intros l' o Hnd H; cbn [sweep] in H.
  - injection H as <- <-. cbn. auto.
  - destruct (conn_event c s (M.Tick t (send_ok bad k))) as [s' os] eqn:E.
    destruct (sweep c t bad r) as [r' ors] eqn:R. injection H as <- <-.
    cbn [map fst] in Hnd. apply NoDup_cons_iff in Hnd as [Hnotin Hnd].
    destruct (IH _ _ Hnd eq_refl) as [Hk [Hl Hp]].
    split; [cbn; rewrite Hk; reflexivity|].
    cbn [klookup]. destruct (Nat.eqb_spec k i) as [->|Hne].
    + (* this entry is connection i; it does not occur in the rest *)
      assert (Hn : klookup i r = None) by (apply klookup_notin_none; assumption).
      rewrite Hn in Hl, Hp. cbn [local fst snd] in Hl, Hp. cbn [local]. rewrite E. cbn [fst snd].
      split; [reflexivity|]. rewrite kproj_app, kproj_tag_same, Hp, app_nil_r. reflexivity.
    + split; [exact Hl|]. rewrite kproj_app, kproj_tag_other by assumption. exact Hp.
Qed.

Lemma kstep_local : forall c i tab e tab' o, NoDup (map fst tab) -> kstep c tab e = (tab', o) ->
  NoDup (map fst tab') /\
  klookup i tab' = fst (local c i (klookup i tab) e) /\ kproj i o = snd (local c i (klookup i tab) e).
Proof.
  intros c i tab e tab' o Hnd H. destruct e as [j t|j ev|t bad]; cbn [kstep] in H.
  - cbn [local]. destruct (klookup j tab) as [sj|] eqn:Ej.
    + injection H as <- <-. split; [assumption|]. destruct (Nat.eqb_spec j i) as [->|]; [rewrite Ej|]; auto.
    + injection H as <- <-. split; [cbn; constructor; [apply klookup_none_notin|]; assumption|].
      cbn [klookup]. destruct (Nat.eqb_spec j i) as [->|]; [rewrite Ej|]; auto.
  - cbn [local]. destruct (klookup j tab) as [sj|] eqn:Ej.
    + destruct (conn_event c sj ev) as [s' os] eqn:E. injection H as <- <-.
      split; [rewrite keys_update; assumption|].
      destruct (Nat.eqb_spec j i) as [->|Hne].
      * rewrite Ej, E. cbn [fst snd]. split; [apply klookup_update_same; congruence|apply kproj_tag_same].
      * split; [apply klookup_update_other; assumption|apply kproj_tag_other; assumption].
    + injection H as <- <-. split; [assumption|]. destruct (Nat.eqb_spec j i) as [->|]; [rewrite Ej|]; auto.
  - destruct (sweep_local c t bad i tab tab' o Hnd H) as [Hk [Hl Hp]]. split; [rewrite Hk; assumption|]. auto.
Qed.

Lemma local_other : forall c i so e, kev_keep i e = false -> local c i so e = (so, []).
Proof. intros c i so e H. destruct e as [j t|j ev|t bad]; cbn in *; try rewrite H; try reflexivity; discriminate. Qed.

(* ---- non-interference: the run in which only connection i's events and the housekeeping rounds happen ---- *)
Theorem keepalive_noninterference_gen : forall c i evs t1 t2,
  NoDup (map fst t1) -> NoDup (map fst t2) -> klookup i t1 = klookup i t2 ->
  kproj i (snd (krun c t1 evs)) = kproj i (snd (krun c t2 (filter (kev_keep i) evs))).
Proof.
  intros c i. induction evs as [|e r IH]; intros t1 t2 H1 H2 Hl; [reflexivity|].
  cbn [krun filter]. destruct (kstep c t1 e) as [u1 o1] eqn:E1.
  destruct (kstep_local c i _ _ _ _ H1 E1) as [Hu1 [Hl1 Hp1]].
  destruct (kev_keep i e) eqn:K.
  - cbn [krun]. destruct (kstep c t2 e) as [u2 o2] eqn:E2.
    destruct (kstep_local c i _ _ _ _ H2 E2) as [Hu2 [Hl2 Hp2]].
    specialize (IH u1 u2 Hu1 Hu2). rewrite Hl1, Hl2, Hl in IH. specialize (IH eq_refl).
    destruct (krun c u1 r) as [v1 p1]. destruct (krun c u2 (filter (kev_keep i) r)) as [v2 p2].
    cbn [snd] in *. rewrite !kproj_app, Hp1, Hp2, Hl, IH. reflexivity.
  - rewrite (local_other c i _ _ K) in Hl1, Hp1. cbn [fst snd] in Hl1, Hp1.
    specialize (IH u1 t2 Hu1 H2). rewrite Hl1 in IH. specialize (IH Hl).
    destruct (krun c u1 r) as [v1 p1]. cbn [snd] in *. rewrite kproj_app, Hp1. exact IH.
Qed.

Theorem keepalive_noninterference : forall c i evs,
  kproj i (snd (krun c [] evs)) = kproj i (snd (krun c [] (filter (kev_keep i) evs))).
Proof. intros c i evs. apply keepalive_noninterference_gen; [constructor|constructor|reflexivity]. Qed.

(* two histories with the same events of connection i and the same housekeeping rounds: whether the other
   connections exist at all, answer their pings, stall, are dropped by keep-alive or keep sending changes nothing *)
Theorem keepalive_other_peers_irrelevant : forall c i evs evs',
  filter (kev_keep i) evs = filter (kev_keep i) evs' ->
  kproj i (snd (krun c [] evs)) = kproj i (snd (krun c [] evs')).
Proof. intros c i evs evs' H. rewrite (keepalive_noninterference c i evs), (keepalive_noninterference c i evs'), H. reflexivity. Qed.

(* ---- a connection in a server is the single-connection machine of C18 on its own events ---- *)
Lemma conn_run_closed : forall c s h, M.closed s = true -> conn_run c s h = [].
Proof. intros c s h H. destruct h; cbn; [reflexivity|]. rewrite H. reflexivity. Qed.

Theorem keepalive_conn_is_monitor : forall c i evs tab s,
  NoDup (map fst tab) -> klookup i tab = Some s ->
  kproj i (snd (krun c tab evs)) = conn_run c s (flat_map (kev_of i) evs).
Proof.
  intros c i. induction evs as [|e r IH]; intros tab s Hnd Hl; [reflexivity|].
  cbn [krun flat_map]. destruct (kstep c tab e) as [u o] eqn:E.
  destruct (kstep_local c i _ _ _ _ Hnd E) as [Hu [Hlu Hp]]. rewrite Hl in Hlu, Hp.
  specialize (IH u). destruct (krun c u r) as [v p] eqn:R. cbn [snd] in *. rewrite kproj_app, Hp.
  destruct e as [j t|j ev|t bad]; cbn [local kev_of] in *.
  - destruct (Nat.eqb j i); cbn [fst snd] in *; cbn [app]; apply IH; assumption.
  - destruct (Nat.eqb j i); cbn [fst snd] in *; [|cbn [app]; apply IH; assumption].
    unfold conn_event in *. cbn [app conn_run]. destruct (M.closed s) eqn:Ec.
    + cbn [fst snd] in *. rewrite (IH s Hu Hlu). rewrite conn_run_closed by assumption. reflexivity.
    + destruct (M.step c s ev) as [s' ob]. cbn [fst snd] in *. rewrite (IH s' Hu Hlu). reflexivity.
  - unfold conn_event in *. cbn [app conn_run]. destruct (M.closed s) eqn:Ec.
    + cbn [fst snd] in *. rewrite (IH s Hu Hlu). rewrite conn_run_closed by assumption. reflexivity.
    + destruct (M.step c s (M.Tick t (send_ok bad i))) as [s' ob]. cbn [fst snd] in *. rewrite (IH s' Hu Hlu). reflexivity.
Qed.

(* conn_run is M.run cut after the closing event *)
Lemma conn_run_prefix : forall c h s, exists rest, M.run c s h = conn_run c s h ++ rest.
Proof.
  intros c. induction h as [|e r IH]; intros s; [exists []; reflexivity|].
  cbn [M.run conn_run]. destruct (M.closed s) eqn:Ec.
  - eexists. cbn [app]. reflexivity.
  - destruct (M.step c s e) as [s' o]. destruct (IH s') as [rest Hr]. exists rest. rewrite Hr. reflexivity.
Qed.

Lemma judge_all_prefix : forall P a past b, MS.judge_all P past (a ++ b) = 0%N -> MS.judge_all P past a = 0%N.
Proof.
  intros P. induction a as [|x a IH]; intros past b H; [reflexivity|].
  cbn [app MS.judge_all] in *. destruct (MS.judge P past x); [|exact H]. cbn [N.eqb] in *. eapply IH. exact H.
Qed.

(* the C18 judge (closed only after more than max consecutive unanswered pings of ITS OWN, pinged when idle for a
   full period, never while a message of its own lies within the period ...) holds of every connection of a
   keep-alive server, whatever the table of other connections is and does *)
Theorem keepalive_each_conn_judged_alone : forall c i t tab evs,
  MP.wf c -> NoDup (map fst tab) -> klookup i tab = Some (M.init t) ->
  MP.rx_ordered t (flat_map (kev_of i) evs) ->
  MS.spec_ok (MP.P_of c t) (kproj i (snd (krun c tab evs))) = true.
Proof.
  intros c i t tab evs W Hnd Hl Hord.
  rewrite (keepalive_conn_is_monitor c i evs tab _ Hnd Hl).
  pose proof (MP.spec_all c t _ W Hord) as S. unfold MS.spec_ok in *. apply N.eqb_eq in S. apply N.eqb_eq.
  destruct (conn_run_prefix c (flat_map (kev_of i) evs) (M.init t)) as [rest Hr]. rewrite Hr in S.
  eapply judge_all_prefix. exact S.
Qed.

(* a client that connects after ANY history (stalled peers dropped by keep-alive included) and then stays idle is
   PINGED at the first housekeeping round later than a period after its arrival -- not closed -- when maxRetries > 0 *)
Theorem keepalive_late_client_pinged : forall c evs i t tau,
  M.ka c = true -> M.period c <> 0 -> 0 < M.maxr c -> t + M.period c < tau ->
  klookup i (fst (krun c [] evs)) = None ->
  kproj i (snd (krun c (fst (krun c [] evs)) [KOpen i t; KSweep tau []])) = [(M.Tick tau true, [M.Ping 1])].
Proof.
  intros c evs i t tau Hka Hp Hm Ht Hn. cbn [krun kstep]. rewrite Hn.
  destruct (sweep c tau [] ((i, M.init t) :: fst (krun c [] evs))) as [l' o] eqn:E.
  assert (Hnd : NoDup (map fst ((i, M.init t) :: fst (krun c [] evs)))).
  { cbn. constructor; [apply klookup_none_notin; assumption|].
    assert (G : forall evs tab, NoDup (map fst tab) -> NoDup (map fst (fst (krun c tab evs)))).
    { induction evs0 as [|e r IH]; intros tab H; [exact H|]. cbn [krun]. destruct (kstep c tab e) as [u o1] eqn:E1.
      destruct (kstep_local c i _ _ _ _ H E1) as [Hu _]. specialize (IH u Hu). destruct (krun c u r). exact IH. }
    apply G. constructor. }
  destruct (sweep_local c tau [] i _ _ _ Hnd E) as [_ [_ Hpj]]. cbn [snd app]. rewrite app_nil_r, Hpj.
  cbn [klookup]. rewrite Nat.eqb_refl. cbn [local]. unfold conn_event. cbn [M.init M.closed].
  unfold send_ok. cbn [existsb negb]. cbn [M.step M.init M.closed].
  unfold M.check. cbn [M.init M.last].
  destruct (Z.eqb_spec (M.period c) 0); [contradiction|].
  replace (tau >? t + M.period c) with true by (symmetry; apply Z.gtb_lt; lia).
  unfold M.on_inactive. rewrite Hka. unfold M.ka_on_inactive, M.cancel_obs. cbn [M.init M.fails M.token M.pending M.last M.closed app].
  change ((0 + 1) mod 2 ^ 32) with 1. replace (1 >? M.maxr c) with false by (symmetry; rewrite Z.gtb_ltb; apply Z.ltb_ge; lia).
  change ((0 + 1) mod 2 ^ 64) with 1. reflexivity.
Qed.

(* ---- contrast (NOT the code): one KeepAlive shared by all connections loses the property ---- *)
Definition contrast_cfg : M.cfg := {| M.period := 10; M.maxr := 1; M.ka := true |}.
(* connection 0 connects and stalls; connection 1 connects later and is idle: at its first check it is closed
   instead of being pinged *)
Definition contrast_history : list kev :=
  [KOpen 0%nat 0; KSweep 11 []; KSweep 12 []; KOpen 1%nat 12; KSweep 23 []].

Theorem shared_keepalive_interferes :
  kproj 1%nat (snd (krun_shared contrast_cfg ([], shared_init) contrast_history)) <>
  kproj 1%nat (snd (krun_shared contrast_cfg ([], shared_init) (filter (kev_keep 1%nat) contrast_history))).
Proof. vm_compute. discriminate. Qed.

(* ... while the code's table of per-connection machines gives connection 1 a ping there *)
Example keepalive_contrast_code :
  kproj 1%nat (snd (krun contrast_cfg [] contrast_history)) =
  [(M.Tick 23 true, [M.Ping 1])].
Proof. vm_compute. reflexivity. Qed.
Example keepalive_contrast_shared :
  kproj 1%nat (snd (krun_shared contrast_cfg ([], shared_init) contrast_history)) =
  [(M.Tick 23 true, [M.Close])].
Proof. vm_compute. reflexivity. Qed.
