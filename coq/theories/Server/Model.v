(* Model of the datagram server's dispatch (udp/server/server.go): the peer
   table keyed by getConnKey, getOrCreateConn with its wildcard fallback,
   getConn's replace-if-closed, one iteration of Serve's read loop, the
   periodic handleInactivityMonitors sweep, Server.NewConn, the discovery table
   (multicastHandler) consulted by the cfg.Handler wrapper -- registered by
   DiscoveryRequest and removed when that call returns, also when it returns at
   once because its datagram could not be sent (EDiscFail) --, the decision
   table of checkAcceptError of the stream/DTLS servers, and (Part 5) their
   accept level: one goroutine per accepted connection, the handshake of a
   connection being an event of its own goroutine.

   The per-peer connection (udp/client.Conn) is an abstract deterministic state
   machine [peer_step] (Section variable).  Part 3 instantiates it with the
   datagram decoder + the request path of Dedup/Model.v + the router/handlers
   the harness registers; that instance is what the correspondence cases run.

   No proofs here. *)
From Coq Require Import ZArith List Bool.
From GoCoap Require Import Base.Bytes Gen.ServerConsts NoResp.Model Dedup.Model.
Import ListNotations.
Open Scope Z_scope.

(* ------------------------------------------------------------------ *)
(* Part 1: addresses and connection keys                               *)
(* ------------------------------------------------------------------ *)

(* net.IP abstracted to what getConnKey looks at: len(IP) = 0, IsUnspecified
   (0.0.0.0 or ::), IsMulticast, anything else; the payload is the printed
   identity (IP.String() is injective on each class).  The byte level -- net.IP as a slice of 0, 4 or 16
   bytes, the two representations of an IPv4 address, what String() prints -- is Server/Addr.v;
   AddrProofs.key_abs_faithful: the key below, on [Addr.abs_addr] of concrete addresses, is equal exactly
   when getConnKey's strings are. *)
Inductive ip := IPnone | IPunspec (six : bool) | IPmcast (g : Z) | IPhost (h : Z).

(* net.UDPAddr; zone 0 stands for "" *)
Record addr := { a_ip : ip; a_port : Z; a_zone : Z }.

Definition ip_nonempty (i : ip) : bool := match i with IPnone => false | _ => true end.
Definition ip_is_multicast (i : ip) : bool := match i with IPmcast _ => true | _ => false end.
Definition ip_is_unspecified (i : ip) : bool := match i with IPunspec _ => true | _ => false end.

Definition ip_eqb (a b : ip) : bool :=
  match a, b with
  | IPnone, IPnone => true
  | IPunspec x, IPunspec y => Bool.eqb x y
  | IPmcast x, IPmcast y => x =? y
  | IPhost x, IPhost y => x =? y
  | _, _ => false
  end.
Definition addr_eqb (a b : addr) : bool :=
  ip_eqb (a_ip a) (a_ip b) && (a_port a =? a_port b) && (a_zone a =? a_zone b).

Definition clear_ip (l : addr) : addr := {| a_ip := IPnone; a_port := a_port l; a_zone := 0 |}.

(* getConnKey: the two normalisations are sequential ifs on the same copy *)
Definition norm_local (l : addr) : addr :=
  let l1 := if ip_nonempty (a_ip l) && ip_is_multicast (a_ip l) then clear_ip l else l in
  if ip_nonempty (a_ip l1) && ip_is_unspecified (a_ip l1) then clear_ip l1 else l1.

(* the key string is raddr.String() + "-" + normalised.String(); UDPAddr.String
   is injective on (IP, zone, port), so a key is the pair *)
Definition key := (addr * addr)%type.
Definition conn_key (raddr laddr : addr) : key := (raddr, norm_local laddr).
Definition key_eqb (a b : key) : bool := addr_eqb (fst a) (fst b) && addr_eqb (snd a) (snd b).

(* localAddrCanFallbackToWildcard (laddr is never nil where it is called) *)
Definition can_fallback (l : addr) : bool :=
  if negb (ip_nonempty (a_ip l)) then false
  else if ip_is_multicast (a_ip l) || ip_is_unspecified (a_ip l) then false
  else true.
Definition to_wildcard (l : addr) : addr := clear_ip l.

(* ------------------------------------------------------------------ *)
(* Part 2: the server                                                  *)
(* ------------------------------------------------------------------ *)

(* multicastHandler: token -> receiver.  The code keys the table by Token.Hash() of the token; the table as
   the code has it and its agreement with this one (on every history whose tokens the key function tells
   apart) are in Server/TokenKey.v / TokenKeyProofs.v. *)
Definition mhtab := list (list Z * Z).
Fixpoint mh_lookup (t : mhtab) (tok : list Z) : option Z :=
  match t with
  | [] => None
  | (k, r) :: rest => if bytes_eqb k tok then Some r else mh_lookup rest tok
  end.
Fixpoint mh_remove (t : mhtab) (tok : list Z) : mhtab :=
  match t with
  | [] => []
  | (k, r) :: rest => if bytes_eqb k tok then mh_remove rest tok else (k, r) :: mh_remove rest tok
  end.

(* u16, u32, opts_t, wire, behaviour, CON/NON/ACK/RST come from Dedup.Model *)

Section Server.
  Variables pstate datagram pout : Type.

  (* result of cc.Process(cm, datagram) followed by the dispatch of what it queued:
     new state, what the connection emits, "Process returned an error", number of
     message.GetMID() calls (each cc.GetMessageID() also bumps the global counter) *)
  Inductive presult := POk (s : pstate) (o : list pout) (err : bool) (nmid : Z) | PPanic.

  Variable peer_init : Z -> pstate.                         (* NewConnWithOpts; argument = cfg.GetMID() *)
  Variable peer_step : mhtab -> pstate -> datagram -> presult.
  Variable recv_trunc : datagram -> datagram.               (* the read into a MaxMessageSize buffer *)

  Record conn := { c_id : Z; c_key : key; c_closed : bool; c_st : pstate }.
  (* s.conns as an association list (newest first); next_id names the connections
     in creation order (pointer identity); gmid is message.msgID *)
  Record sstate := { conns : list (key * conn); next_id : Z; gmid : Z; mh : mhtab }.

  Inductive ev :=
  | EDgram (raddr lst : addr) (dst : option ip) (d : datagram)  (* one iteration of Serve: datagram from raddr on
                                                                   listener lst, control message destination dst *)
  | ENewConn (raddr : addr) (laddr : option addr) (lst : addr)  (* Server.NewConn(raddr, laddr...) *)
  | EClose (k : key)                                            (* the connection stored under k is closed (cc.Close():
                                                                   application, inactivity monitor, own error path) *)
  | ETick                                                       (* handleInactivityMonitors *)
  | EDiscStart (tok : list Z) (rcv : Z)                         (* DiscoveryRequest registers its receiver *)
  | EDiscEnd (tok : list Z)                                     (* ... and removes it on return *)
  | EDiscFail (tok : list Z) (rcv : Z).                         (* a DiscoveryRequest whose datagram cannot be sent
                                                                   (WriteMulticast / WriteWithContext returns an error):
                                                                   LoadOrStore, the write fails, `return err` runs the
                                                                   deferred LoadAndDelete -- one call, start to return *)

  Inductive sout :=
  | SNew (raddr : addr) (id : Z)               (* cfg.OnNewConn(cc) *)
  | SOut (id : Z) (k : key) (o : pout)         (* emitted by connection id (stored under k) *)
  | SErrProcess (raddr : addr) (id : Z)        (* connection closed + cfg.Errors("cannot process packet") *)
  | SErrGetConn (raddr : addr)                 (* cfg.Errors("cannot get client connection"); datagram dropped *)
  | SConn (raddr : addr) (id : Z)              (* value returned by NewConn *)
  | SErrNewConn (raddr : addr)
  | SDiscExists                                (* ErrKeyAlreadyExists *)
  | SDiscSendErr.                              (* DiscoveryRequest returned the error of the write *)

  Inductive sresult := SOk (s : sstate) (o : list sout) | SPanic.

  Fixpoint lookup (l : list (key * conn)) (k : key) : option conn :=
    match l with
    | [] => None
    | (k', c) :: r => if key_eqb k k' then Some c else lookup r k
    end.
  Fixpoint remove (l : list (key * conn)) (k : key) : list (key * conn) :=
    match l with
    | [] => []
    | (k', c) :: r => if key_eqb k k' then remove r k else (k', c) :: remove r k
    end.
  Fixpoint update (l : list (key * conn)) (k : key) (f : conn -> conn) : list (key * conn) :=
    match l with
    | [] => []
    | (k', c) :: r => if key_eqb k k' then (k', f c) :: r else (k', c) :: update r k f
    end.

  Definition set_conns (s : sstate) (l : list (key * conn)) : sstate :=
    {| conns := l; next_id := next_id s; gmid := gmid s; mh := mh s |}.

  (* getOrCreateConn *)
  Definition get_or_create (s : sstate) (raddr laddr : addr) : sstate * conn * bool :=
    let k := conn_key raddr laddr in
    match lookup (conns s) k with
    | Some c => (s, c, false)
    | None =>
        match (if can_fallback laddr then lookup (conns s) (conn_key raddr (to_wildcard laddr)) else None) with
        | Some c => (s, c, false)
        | None =>
            let g := u32 (gmid s + 1) in          (* cfg.GetMID() inside NewConnWithOpts *)
            let c := {| c_id := next_id s; c_key := k; c_closed := false; c_st := peer_init (u16 g) |} in
            ({| conns := (k, c) :: conns s; next_id := next_id s + 1; gmid := g; mh := mh s |}, c, true)
        end
    end.

  (* the closeKey function: session.Close (idempotent) + session.shutdown, whose
     on-close hook deletes the table entry if it still is this connection *)
  Definition close_fn (s : sstate) (c : conn) : sstate :=
    match lookup (conns s) (c_key c) with
    | Some c' => if c_id c' =? c_id c then set_conns s (remove (conns s) (c_key c)) else s
    | None => s
    end.

  (* getConn(l, raddr, laddr, firstTime = true), recursion unfolded *)
  Definition get_conn (s : sstate) (raddr laddr : addr) : sstate * list sout * option conn :=
    let '(s1, c, created) := get_or_create s raddr laddr in
    let o1 := if created then [SNew raddr (c_id c)] else [] in
    if c_closed c then
      let s2 := close_fn s1 c in
      let '(s3, c', created') := get_or_create s2 raddr laddr in
      let o2 := if created' then [SNew raddr (c_id c')] else [] in
      if c_closed c' then (close_fn s3 c', o1 ++ o2, None)
      else (s3, o1 ++ o2, Some c')
    else (s1, o1, Some c).

  (* laddr of a received datagram: the listener's address, IP replaced by a
     non-empty, non-multicast control-message destination *)
  Definition dgram_laddr (lst : addr) (dst : option ip) : addr :=
    match dst with
    | Some i => if ip_nonempty i && negb (ip_is_multicast i)
                then {| a_ip := i; a_port := a_port lst; a_zone := a_zone lst |} else lst
    | None => lst
    end.

  Definition step (s : sstate) (e : ev) : sresult :=
    match e with
    | EDgram raddr lst dst d =>
        let laddr := dgram_laddr lst dst in
        match get_conn s raddr laddr with
        | (s1, o1, None) => SOk s1 (o1 ++ [SErrGetConn raddr])
        | (s1, o1, Some c) =>
            match peer_step (mh s1) (c_st c) (recv_trunc d) with
            | PPanic => SPanic
            | POk st' outs err n =>
                let upd := fun c0 : conn => {| c_id := c_id c0; c_key := c_key c0; c_closed := err; c_st := st' |} in
                SOk {| conns := update (conns s1) (c_key c) upd; next_id := next_id s1;
                       gmid := u32 (gmid s1 + n); mh := mh s1 |}
                    (o1 ++ map (SOut (c_id c) (c_key c)) outs ++ (if err then [SErrProcess raddr (c_id c)] else []))
            end
        end
    | ENewConn raddr laddr lst =>
        let la := match laddr with Some a => a | None => lst end in
        match get_conn s raddr la with
        | (s1, o1, None) => SOk s1 (o1 ++ [SErrNewConn raddr])
        | (s1, o1, Some c) => SOk s1 (o1 ++ [SConn raddr (c_id c)])
        end
    | EClose k =>
        SOk (set_conns s (update (conns s) k (fun c0 => {| c_id := c_id c0; c_key := c_key c0; c_closed := true; c_st := c_st c0 |}))) []
    | ETick =>
        (* every closed connection runs its closeKey function; each entry is stored under its own key *)
        SOk (set_conns s (filter (fun kc => negb (c_closed (snd kc))) (conns s))) []
    | EDiscStart tok rcv =>
        match mh_lookup (mh s) tok with
        | Some _ => SOk s [SDiscExists]
        | None => SOk {| conns := conns s; next_id := next_id s; gmid := gmid s; mh := (tok, rcv) :: mh s |} []
        end
    | EDiscEnd tok =>
        SOk {| conns := conns s; next_id := next_id s; gmid := gmid s; mh := mh_remove (mh s) tok |} []
    | EDiscFail tok rcv =>
        (* discover.go, statement by statement: LoadOrStore (loaded => ErrKeyAlreadyExists, nothing deferred yet);
           defer LoadAndDelete; the write returns an error; return err => the deferred LoadAndDelete runs *)
        match mh_lookup (mh s) tok with
        | Some _ => SOk s [SDiscExists]
        | None => SOk {| conns := conns s; next_id := next_id s; gmid := gmid s; mh := mh_remove ((tok, rcv) :: mh s) tok |}
                      [SDiscSendErr]
        end
    end.

  Fixpoint run (s : sstate) (evs : list ev) : option (sstate * list sout) :=
    match evs with
    | [] => Some (s, [])
    | e :: r =>
        match step s e with
        | SPanic => None
        | SOk s1 o => match run s1 r with Some (s2, os) => Some (s2, o ++ os) | None => None end
        end
    end.

  Definition init_state (g0 : Z) : sstate := {| conns := []; next_id := 0; gmid := g0; mh := [] |}.

  (* which remote address an event belongs to; None = shared (tick, discovery table) *)
  Definition ev_peer (e : ev) : option addr :=
    match e with
    | EDgram r _ _ _ => Some r
    | ENewConn r _ _ => Some r
    | EClose k => Some (fst k)
    | _ => None
    end.
  Definition out_peer (o : sout) : option addr :=
    match o with
    | SNew r _ => Some r
    | SOut _ k _ => Some (fst k)
    | SErrProcess r _ => Some r
    | SErrGetConn r => Some r
    | SConn r _ => Some r
    | SErrNewConn r => Some r
    | SDiscExists => None
    | SDiscSendErr => None
    end.
End Server.

Arguments POk {pstate pout}.
Arguments PPanic {pstate pout}.
Arguments SOk {pstate pout}.
Arguments SPanic {pstate pout}.
Arguments EDgram {datagram}.
Arguments ENewConn {datagram}.
Arguments EClose {datagram}.
Arguments ETick {datagram}.
Arguments EDiscStart {datagram}.
Arguments EDiscEnd {datagram}.
Arguments EDiscFail {datagram}.
Arguments SNew {pout}.
Arguments SOut {pout}.
Arguments SErrProcess {pout}.
Arguments SErrGetConn {pout}.
Arguments SConn {pout}.
Arguments SErrNewConn {pout}.
Arguments SDiscExists {pout}.
Arguments SDiscSendErr {pout}.
Arguments conns {pstate}.
Arguments next_id {pstate}.
Arguments gmid {pstate}.
Arguments mh {pstate}.
Arguments c_id {pstate}.
Arguments c_key {pstate}.
Arguments c_closed {pstate}.
Arguments c_st {pstate}.
Arguments init_state {pstate}.
Arguments lookup {pstate}.
Arguments remove {pstate}.
Arguments update {pstate}.
Arguments ev_peer {datagram}.
Arguments out_peer {pout}.

(* ------------------------------------------------------------------ *)
(* Part 3: the concrete connection used by the correspondence cases    *)
(* ------------------------------------------------------------------ *)

(* --- datagram decoder: udp/coder.Decode + message.Options.Unmarshal (the
   pooled retry enlarges the option capacity, so ErrOptionsTooSmall never
   surfaces).  Slices are bounds-checked: None of [slice_*] = Go would panic. *)
Inductive derr := ETrunc | EVersion | ETokenLen | EOptMarker | EOptTrunc | EOptNum.
Inductive dres (A : Type) := DOk (a : A) | DErr (e : derr) | DPanic.
Arguments DOk {A}. Arguments DErr {A}. Arguments DPanic {A}.

(* data[n:] and data[:n] *)
Definition slice_from (d : list Z) (n : Z) : option (list Z) :=
  if (0 <=? n) && (n <=? blen d) then Some (skipn (Z.to_nat n) d) else None.
Definition slice_to (d : list Z) (n : Z) : option (list Z) :=
  if (0 <=? n) && (n <=? blen d) then Some (firstn (Z.to_nat n) d) else None.

(* parseExtOpt: (processed, value) *)
Definition parse_ext (data : list Z) (v : Z) : dres (Z * Z) :=
  if v =? 13 then (if blen data <? 1 then DErr EOptTrunc else match data with b :: _ => DOk (1, b + 13) | [] => DPanic end)
  else if v =? 14 then (if blen data <? 2 then DErr EOptTrunc else match data with a :: b :: _ => DOk (2, a * 256 + b + 269) | _ => DPanic end)
  else DOk (0, v).

Fixpoint defs_lookup (t : list (Z * (bool * Z * Z))) (id : Z) : option (bool * Z * Z) :=
  match t with
  | [] => None
  | (i, d) :: r => if i =? id then Some d else defs_lookup r id
  end.

(* Option.Unmarshal: is the option kept (ID set)? *)
Definition opt_kept (id len : Z) : bool :=
  match defs_lookup coap_option_defs id with
  | Some (unknown, mn, mx) => if unknown then false else negb ((len <? mn) || (mx <? len))
  | None => true
  end.

Fixpoint unmarshal_opts (fuel : nat) (data : list Z) (prev : Z) (acc : opts_t) (processed : Z) : dres (Z * opts_t) :=
  match fuel with
  | O => DOk (processed, acc)
  | S f =>
    match data with
    | [] => DOk (processed, acc)
    | b :: rest =>
      if b =? 255 then DOk (processed + 1, acc)
      else
        let delta := b / 16 in let length := b mod 16 in
        if (delta =? extend_option_error) || (length =? extend_option_error) then DErr EOptMarker
        else match parse_ext rest delta with
        | DPanic => DPanic | DErr e => DErr e
        | DOk (p1, delta) =>
          match slice_from rest p1 with
          | None => DPanic
          | Some rest1 =>
            match parse_ext rest1 length with
            | DPanic => DPanic | DErr e => DErr e
            | DOk (p2, length) =>
              match slice_from rest1 p2 with
              | None => DPanic
              | Some rest2 =>
                if blen rest2 <? length then DErr EOptTrunc
                else
                  let oid := prev + delta in
                  if 65535 <? oid then DErr EOptNum
                  else match slice_to rest2 length, slice_from rest2 length with
                  | Some v, Some rest3 =>
                      let keep := opt_kept oid length && negb (oid =? 0) in
                      unmarshal_opts f rest3 oid (if keep then acc ++ [(oid, v)] else acc) (processed + 1 + p1 + p2 + length)
                  | _, _ => DPanic
                  end
              end
            end
          end
        end
    end
  end.

Record cmsg := { m_typ : Z; m_code : Z; m_mid : Z; m_tok : list Z; m_opts : opts_t; m_pay : list Z }.

Definition udp_decode (data : list Z) : dres cmsg :=
  if blen data <? 4 then DErr ETrunc
  else match data with
  | b0 :: b1 :: b2 :: b3 :: _ =>
    if negb (b0 / 64 =? 1) then DErr EVersion
    else
      let t := (b0 / 16) mod 4 in
      let tkl := b0 mod 16 in
      if max_token_size <? tkl then DErr ETokenLen
      else match slice_from data 4 with
      | None => DPanic
      | Some rest =>
        if blen rest <? tkl then DErr ETrunc
        else match slice_to rest tkl, slice_from rest tkl with
        | Some token, Some rest1 =>
          match unmarshal_opts (S (length rest1)) rest1 0 [] 0 with
          | DPanic => DPanic | DErr e => DErr e
          | DOk (proc, os) =>
            match slice_from rest1 proc with
            | None => DPanic
            | Some pay => DOk {| m_typ := t; m_code := b1; m_mid := b2 * 256 + b3; m_tok := token; m_opts := os; m_pay := pay |}
            end
          end
        | _, _ => DPanic
        end
      end
  | _ => DPanic
  end.

(* --- the application the harness installs: a mux router with three exact
   routes; every route handler answers with a method-dependent code and the
   payload  route-tag :: request payload *)
Definition uri_path (o : opts_t) : list (list Z) :=
  map snd (filter (fun x => fst x =? uri_path_id) o).

(* "a", "b"/"c", "echo" *)
Definition routes : list (list (list Z) * Z) :=
  [ ([[97]], 1); ([[98]; [99]], 2); ([[101; 99; 104; 111]], 3) ].

Fixpoint path_eqb (a b : list (list Z)) : bool :=
  match a, b with
  | [], [] => true
  | x :: a', y :: b' => bytes_eqb x y && path_eqb a' b'
  | _, _ => false
  end.
Fixpoint route_of (rs : list (list (list Z) * Z)) (p : list (list Z)) : option Z :=
  match rs with
  | [] => None
  | (q, tag) :: r => if path_eqb q p then Some tag else route_of r p
  end.

Definition resp_code (code : Z) : Z :=
  if code =? 1 then 69          (* GET -> 2.05 Content *)
  else if code =? 2 then 68     (* POST -> 2.04 Changed *)
  else if code =? 3 then 65     (* PUT -> 2.01 Created *)
  else if code =? 4 then 66     (* DELETE -> 2.02 Deleted *)
  else 128.                     (* anything else -> 4.00 *)

Definition app_behaviour (m : cmsg) : behaviour :=
  match route_of routes (uri_path (m_opts m)) with
  | Some tag => BResp (resp_code (m_code m)) [] (tag :: m_pay m)
  | None => BResp 132 [] []     (* router default handler: 4.04, no body *)
  end.

(* what the connection emits *)
Inductive cout :=
| CWire (w : wire)                               (* datagram written to the peer *)
| CHandled (tok : list Z) (code : Z) (pay : list Z)  (* application handler ran for this request *)
| CDeliver (rcv : Z) (tok : list Z) (code : Z) (pay : list Z).  (* discovery receiver rcv ran *)

Definition is_ping (m : cmsg) : bool :=
  (m_code m =? 0) && (m_typ m =? CON) && (blen (m_tok m) =? 0) && (blen (m_opts m) =? 0) && (blen (m_pay m) =? 0).
(* pool.Message.IsSeparateMessage *)
Definition is_separate (m : cmsg) : bool :=
  (m_code m =? 0) && (blen (m_tok m) =? 0) && (m_typ m =? ACK) && (blen (m_opts m) =? 0) && (blen (m_pay m) =? 0).

Definition cstate := Dedup.Model.st.
Definition cinit (getmid : Z) : cstate := Dedup.Model.init (u32 (getmid - 32767)).

Definition cstep (maxsize : Z) (t : mhtab) (s : cstate) (d : list Z) : presult cstate cout :=
  if negb (bytes_ok d) then POk s [] true 0    (* typing guard: a datagram is a string of bytes 0..255 *)
  else if maxsize <? blen d then POk s [] true 0
  else match udp_decode d with
  | DPanic => PPanic
  | DErr _ => POk s [] true 0
  | DOk m =>
      (* Process: checkMyMessageID *)
      let own1 := if m_typ m =? CON then check_my_mid 4 (m_mid m) (own s) else own s in
      if is_ping m then
        (* handleSpecialMessages -> sendPong: Reset with the ping's ID; writeMessageAsync draws one ID *)
        POk {| cache := cache s; own := u32 (own1 + 1) |}
            [CWire {| w_typ := RST; w_code := 0; w_mid := m_mid m; w_tok := []; w_opts := []; w_pay := [] |}] false 1
      else if is_separate m then
        POk {| cache := cache s; own := own1 |} [] false 0
      else
        (* cfg.Handler wrapper: a registered discovery receiver takes the message, else the application *)
        let '(b, note) := match mh_lookup t (m_tok m) with
                          | Some r => (BNone, CDeliver r (m_tok m) (m_code m) (m_pay m))
                          | None => (app_behaviour m, CHandled (m_tok m) (m_code m) (m_pay m))
                          end in
        let '(s', o) := Dedup.Model.step s (Req (m_typ m) (m_mid m) (m_tok m) (m_code m) (m_opts m) b) in
        POk s' ((if o_called o then [note] else []) ++ map CWire (o_out o)) false (u32 (own s' - own1))
  end.

Definition cserver_step (maxsize : Z) := step cstate (list Z) cout cinit (cstep maxsize) (firstn (Z.to_nat maxsize)).
Definition cserver_run (maxsize : Z) := run cstate (list Z) cout cinit (cstep maxsize) (firstn (Z.to_nat maxsize)).

(* ------------------------------------------------------------------ *)
(* Part 4: checkAcceptError of tcp/server and dtls/server              *)
(* ------------------------------------------------------------------ *)
Inductive accept_err :=
| AccNil                 (* err == nil *)
| AccListenerClosed      (* errors.Is(err, ErrListenerIsClosed) *)
| AccDeadline            (* errors.Is(err, context.DeadlineExceeded) *)
| AccCanceled            (* errors.Is(err, context.Canceled) *)
| AccOther.              (* anything else (e.g. a temporary network error, a failed TLS accept) *)

(* (continue accepting?, error reported to cfg.Errors?, Stop() called?) given whether s.ctx is done *)
Definition check_accept_error (e : accept_err) (ctx_done : bool) : bool * bool * bool :=
  match e with
  | AccNil => (true, false, false)
  | AccListenerClosed => (false, false, true)
  | AccDeadline | AccCanceled => if ctx_done then (false, false, false) else (true, true, false)
  | AccOther => (true, false, false)
  end.

(* the server wraps cfg.Errors: errors for which IsCancelOrCloseError holds (context.Canceled,
   io.EOF, net.ErrClosed) are not passed on to the application's callback *)
Definition user_visible (e : accept_err) : bool := match e with AccCanceled => false | _ => true end.

(* Serve's accept loop over a scripted listener: number of Accept calls made
   before Serve returns (None = still accepting when the script is exhausted),
   number of connections handed to serveConnection, number of errors the application's callback saw *)
Fixpoint accept_loop (script : list (accept_err * bool)) (calls served reported : Z) : option Z * Z * Z :=
  match script with
  | [] => (None, served, reported)
  | (e, ctx_done) :: r =>
      let '(cont, rep, _) := check_accept_error e ctx_done in
      let reported' := if rep && user_visible e then reported + 1 else reported in
      if cont then accept_loop r (calls + 1) (match e with AccNil => served + 1 | _ => served end) reported'
      else (Some (calls + 1), served, reported')
  end.

(* ------------------------------------------------------------------ *)
(* Part 5: the accept level of tcp/server and dtls/server              *)
(* ------------------------------------------------------------------ *)
(* Serve:  for { rw, err := l.AcceptWithContext(s.ctx); if !checkAcceptError(err) { return };
                 if err != nil || rw == nil { continue }; go serveConnection(rw) }

   The loop does nothing with an accepted connection but start its goroutine.  ACCEPTING NEVER
   WAITS FOR A HANDSHAKE: a TLS listener (net.TLSListener = tls.NewListener) hands out
   connections whose handshake has not begun -- crypto/tls runs it inside the first Read/Write,
   i.e. inside client.Conn.Run of that connection's goroutine --, and the DTLS server calls
   HandshakeContext (bounded by cfg.HandshakeTimeout) as the first statement of serveConnection,
   again in the connection's goroutine.  So the outcome of a connection's handshake is an EVENT
   OF THAT CONNECTION'S GOROUTINE, like every message it reads afterwards; a handshake that
   never ends is the absence of such an event (the connection stays in PhHandshake).

   tcp/server announces the connection (OnNewConn) when the goroutine starts, before any
   handshake ([early_announce] = true); dtls/server announces it after the handshake.
   When Serve returns, the deferred connections.Close() closes every connection.

   The per-connection machine [conn_step] (one message processed by the connection) is a Section
   variable, as [peer_step] is in Part 2. *)
Inductive hs_result := HsOk | HsErr.                      (* handshake completed / failed (garbage, peer gone, time-out) *)
Inductive cphase := PhHandshake | PhOpen | PhGone.

Section AcceptLevel.
  Variables CS D O : Type.
  Variable conn_init : CS.
  Variable conn_step : CS -> D -> CS * list O.
  Variable early_announce : bool.

  Inductive aev :=
  | AvAccept (c : nat)                               (* the listener returns connection c with a nil error *)
  | AvAcceptErr (e : accept_err) (ctx_done : bool)   (* the listener returns an error *)
  | AvHandshake (c : nat) (r : hs_result)            (* c's goroutine: its handshake ends *)
  | AvData (c : nat) (d : D)                         (* c's goroutine: one message read and processed *)
  | AvClose (c : nat).                               (* c's goroutine: the connection ends (peer closed it, read error) *)

  Inductive aout :=
  | AoSpawn (c : nat)          (* goroutine started *)
  | AoNew (c : nat)            (* OnNewConn *)
  | AoHsFailed (c : nat)       (* cfg.Errors: handshake failed *)
  | AoOut (c : nat) (o : O)    (* what c's machine emitted *)
  | AoClosed (c : nat)
  | AoAcceptErr                (* cfg.Errors: cannot accept connection *)
  | AoStopped.                 (* Serve returned *)

  Definition ctab := list (nat * (cphase * CS)).
  Record astate := AS { a_accepting : bool; a_conns : ctab }.
  Definition ainit : astate := AS true [].

  Fixpoint alookup (c : nat) (l : ctab) : option (cphase * CS) :=
    match l with
    | [] => None
    | (k, v) :: r => if Nat.eqb k c then Some v else alookup c r
    end.
  Fixpoint aupdate (c : nat) (v : cphase * CS) (l : ctab) : ctab :=
    match l with
    | [] => []
    | (k, w) :: r => if Nat.eqb k c then (k, v) :: r else (k, w) :: aupdate c v r
    end.
  Definition all_gone (l : ctab) : ctab := map (fun x => (fst x, (PhGone, snd (snd x)))) l.

  Definition astep (s : astate) (e : aev) : astate * list aout :=
    match e with
    | AvAccept c =>
        if a_accepting s then
          match alookup c (a_conns s) with
          | Some _ => (s, [])          (* a listener does not hand out one connection twice *)
          | None =>
              (* whatever the other connections are doing -- no look at their phases *)
              (AS true ((c, (PhHandshake, conn_init)) :: a_conns s),
               AoSpawn c :: (if early_announce then [AoNew c] else []))
          end
        else (s, [])                   (* Serve has returned: nobody calls Accept *)
    | AvAcceptErr e ctx_done =>
        if a_accepting s then
          let '(cont, rep, _) := check_accept_error e ctx_done in
          let outs := if rep && user_visible e then [AoAcceptErr] else [] in
          if cont then (s, outs) else (AS false (all_gone (a_conns s)), outs ++ [AoStopped])
        else (s, [])
    | AvHandshake c r =>
        match alookup c (a_conns s) with
        | Some (PhHandshake, cs) =>
            match r with
            | HsOk => (AS (a_accepting s) (aupdate c (PhOpen, cs) (a_conns s)), if early_announce then [] else [AoNew c])
            | HsErr => (AS (a_accepting s) (aupdate c (PhGone, cs) (a_conns s)), [AoHsFailed c])
            end
        | _ => (s, [])
        end
    | AvData c d =>
        match alookup c (a_conns s) with
        | Some (PhOpen, cs) =>
            let '(cs', os) := conn_step cs d in
            (AS (a_accepting s) (aupdate c (PhOpen, cs') (a_conns s)), map (AoOut c) os)
        | _ => (s, [])                 (* nothing is read as a message before the handshake is over *)
        end
    | AvClose c =>
        match alookup c (a_conns s) with
        | Some (PhHandshake, cs) | Some (PhOpen, cs) => (AS (a_accepting s) (aupdate c (PhGone, cs) (a_conns s)), [AoClosed c])
        | _ => (s, [])
        end
    end.

  Fixpoint arun (s : astate) (evs : list aev) : astate * list aout :=
    match evs with
    | [] => (s, [])
    | e :: r => let '(s1, o1) := astep s e in let '(s2, o2) := arun s1 r in (s2, o1 ++ o2)
    end.

  (* the events that concern connection c: its own, and what the listener reports as errors *)
  Definition aev_keep (c : nat) (e : aev) : bool :=
    match e with
    | AvAcceptErr _ _ => true
    | AvAccept k | AvHandshake k _ | AvData k _ | AvClose k => Nat.eqb k c
    end.
  (* the outputs that concern connection c *)
  Definition aout_of (c : nat) (o : aout) : bool :=
    match o with
    | AoSpawn k | AoNew k | AoHsFailed k | AoOut k _ | AoClosed k => Nat.eqb k c
    | AoAcceptErr | AoStopped => true
    end.

  (* NOT the code -- the what-if the theorems are contrasted with: an accept loop that finishes the
     handshake of the connection it has just accepted before it goes back to Accept.  While some
     connection is still in its handshake the loop is not in Accept, so the listener returns nothing. *)
  Definition hs_pending (l : ctab) : bool :=
    existsb (fun x => match fst (snd x) with PhHandshake => true | _ => false end) l.
  Definition astep_inline (s : astate) (e : aev) : astate * list aout :=
    match e with
    | AvAccept _ | AvAcceptErr _ _ => if hs_pending (a_conns s) then (s, []) else astep s e
    | _ => astep s e
    end.
  Fixpoint arun_inline (s : astate) (evs : list aev) : astate * list aout :=
    match evs with
    | [] => (s, [])
    | e :: r => let '(s1, o1) := astep_inline s e in let '(s2, o2) := arun_inline s1 r in (s2, o1 ++ o2)
    end.
End AcceptLevel.

Arguments AvAccept {D}. Arguments AvAcceptErr {D}. Arguments AvHandshake {D}. Arguments AvData {D}. Arguments AvClose {D}.
Arguments AoSpawn {O}. Arguments AoNew {O}. Arguments AoHsFailed {O}. Arguments AoOut {O}. Arguments AoClosed {O}.
Arguments AoAcceptErr {O}. Arguments AoStopped {O}.
Arguments AS {CS}. Arguments a_accepting {CS}. Arguments a_conns {CS}.
Arguments aout_of {O}. Arguments aev_keep {D}.
