(* Theorems about the key of the discovery tables (Server/TokenKey.v). *)
From Coq Require Import ZArith List Bool Lia.
From GoCoap Require Import Base.Bytes Server.Model Server.Proofs Server.TokenKey.
From GoCoap Require Observe.Model.
Import ListNotations.
Open Scope Z_scope.

Lemma bytes_eqb_iff a b : bytes_eqb a b = true <-> a = b.
Proof.
  unfold bytes_eqb. revert b. induction a as [|x a IH]; intros [|y b]; cbn [list_eqb]; split; intro H;
    try discriminate; try reflexivity.
  - apply andb_prop in H as [H1 H2]. apply Z.eqb_eq in H1. apply IH in H2. congruence.
  - injection H as -> ->. rewrite Z.eqb_refl. cbn. apply IH. reflexivity.
Qed.
Lemma bytes_eqb_same a : bytes_eqb a a = true. Proof. apply bytes_eqb_iff. reflexivity. Qed.
Lemma bytes_eqb_diff a b : a <> b -> bytes_eqb a b = false.
Proof. intro H. destruct (bytes_eqb a b) eqn:E; [apply bytes_eqb_iff in E; contradiction|reflexivity]. Qed.

(* ------------------------------------------------------------------ *)
(* 1. the key-table refines the token-table where the keys are apart   *)
(* ------------------------------------------------------------------ *)
Section Refinement.
  Variable hash : list Z -> Z.

  Lemma told_apart_incl l l' : incl l' l -> told_apart hash l -> told_apart hash l'.
  Proof. intros Hi H a b Ha Hb. apply H; apply Hi; assumption. Qed.

  Lemma h_lookup_keys : forall t tok, told_apart hash (tok :: map fst t) ->
    h_lookup (hkeys hash t) (hash tok) = mh_lookup t tok.
  Proof.
    induction t as [|[k r] rest IH]; intros tok H; [reflexivity|].
    cbn [hkeys map h_lookup mh_lookup fst snd].
    assert (Hrest : told_apart hash (tok :: map fst rest)).
    { apply (told_apart_incl (tok :: map fst ((k, r) :: rest))); [|exact H].
      intros x [Hx|Hx]; [left; exact Hx|right; right; exact Hx]. }
    destruct (bytes_eqb k tok) eqn:E.
    - apply bytes_eqb_iff in E. subst k. rewrite Z.eqb_refl. reflexivity.
    - destruct (hash k =? hash tok) eqn:Eh.
      + apply Z.eqb_eq in Eh. assert (k = tok) as ->.
        { apply H; [right; left; reflexivity|left; reflexivity|exact Eh]. }
        rewrite bytes_eqb_same in E. discriminate.
      + apply IH. exact Hrest.
  Qed.

  Lemma h_remove_keys : forall t tok, told_apart hash (tok :: map fst t) ->
    h_remove (hkeys hash t) (hash tok) = hkeys hash (mh_remove t tok).
  Proof.
    induction t as [|[k r] rest IH]; intros tok H; [reflexivity|].
    cbn [hkeys map h_remove mh_remove fst snd].
    assert (Hrest : told_apart hash (tok :: map fst rest)).
    { apply (told_apart_incl (tok :: map fst ((k, r) :: rest))); [|exact H].
      intros x [Hx|Hx]; [left; exact Hx|right; right; exact Hx]. }
    destruct (bytes_eqb k tok) eqn:E.
    - apply bytes_eqb_iff in E. subst k. rewrite Z.eqb_refl. apply IH. exact Hrest.
    - destruct (hash k =? hash tok) eqn:Eh.
      + apply Z.eqb_eq in Eh. assert (k = tok) as ->.
        { apply H; [right; left; reflexivity|left; reflexivity|exact Eh]. }
        rewrite bytes_eqb_same in E. discriminate.
      + cbn [map fst snd]. f_equal. apply IH. exact Hrest.
  Qed.

  (* the tokens of a token-table stay among the tokens seen so far *)
  Lemma mh_remove_incl : forall t tok, incl (map fst (mh_remove t tok)) (map fst t).
  Proof.
    induction t as [|[k r] rest IH]; intros tok x Hx; [exact Hx|]. cbn [mh_remove] in Hx.
    destruct (bytes_eqb k tok); [right; exact (IH tok x Hx)|].
    destruct Hx as [Hx|Hx]; [left; exact Hx|right; exact (IH tok x Hx)].
  Qed.

  Lemma tstep_tokens : forall t e, incl (map fst (fst (tstep t e))) (dev_tok e :: map fst t).
  Proof.
    intros t [tok rcv|tok|tok rcv|tok]; cbn [tstep dev_tok].
    - destruct (mh_lookup t tok); cbn [fst map]; intros x Hx; [right; exact Hx|exact Hx].
    - cbn [fst]. intros x Hx. right. exact (mh_remove_incl t tok x Hx).
    - destruct (mh_lookup t tok); cbn [fst]; intros x Hx; [right; exact Hx|].
      apply mh_remove_incl in Hx. exact Hx.
    - cbn [fst]. intros x Hx. right. exact Hx.
  Qed.

  Lemma hstep_refines : forall t e, told_apart hash (dev_tok e :: map fst t) ->
    hstep hash (hkeys hash t) e = (hkeys hash (fst (tstep t e)), snd (tstep t e)).
  Proof.
    intros t [tok rcv|tok|tok rcv|tok] H; cbn [hstep tstep dev_tok] in *.
    - rewrite (h_lookup_keys t tok H). destruct (mh_lookup t tok); reflexivity.
    - rewrite (h_remove_keys t tok H). reflexivity.
    - rewrite (h_lookup_keys t tok H). destruct (mh_lookup t tok); [reflexivity|]. cbn [fst snd].
      change ((hash tok, rcv) :: hkeys hash t) with (hkeys hash ((tok, rcv) :: t)).
      rewrite (h_remove_keys ((tok, rcv) :: t) tok); [reflexivity|].
      apply (told_apart_incl (tok :: map fst t)); [|exact H].
      intros x [Hx|[Hx|Hx]]; [left; exact Hx|left; exact Hx|right; exact Hx].
    - rewrite (h_lookup_keys t tok H). reflexivity.
  Qed.

  (* for ALL histories whose tokens (those in the table at the start included) the key function tells
     apart: the key-table does what the token-table does -- same refusals, same deliveries -- and stays
     the image of the token-table *)
  Theorem hrun_refines : forall evs t, told_apart hash (map dev_tok evs ++ map fst t) ->
    hrun hash (hkeys hash t) evs = (hkeys hash (fst (trun t evs)), snd (trun t evs)).
  Proof.
    induction evs as [|e r IH]; intros t H; [reflexivity|].
    cbn [hrun trun]. rewrite (hstep_refines t e).
    2:{ apply (told_apart_incl (map dev_tok (e :: r) ++ map fst t)); [|exact H].
        intros x [Hx|Hx]; [left; exact Hx|apply in_or_app; right; exact Hx]. }
    destruct (tstep t e) as [t1 o1] eqn:E1. cbn [fst snd].
    rewrite (IH t1).
    2:{ apply (told_apart_incl (map dev_tok (e :: r) ++ map fst t)); [|exact H].
        intros x Hx. apply in_app_or in Hx as [Hx|Hx].
        - apply in_or_app. left. right. exact Hx.
        - pose proof (tstep_tokens t e x) as Ht. rewrite E1 in Ht. cbn [fst] in Ht.
          destruct (Ht Hx) as [Hd|Hd]; [apply in_or_app; left; left; exact Hd|apply in_or_app; right; exact Hd]. }
    destruct (trun t1 r) as [t2 o2]. reflexivity.
  Qed.

  Corollary hrun_refines_init : forall evs, told_apart hash (map dev_tok evs) ->
    hrun hash [] evs = (hkeys hash (fst (trun [] evs)), snd (trun [] evs)).
  Proof. intros evs H. apply (hrun_refines evs []). cbn [map]. rewrite app_nil_r. exact H. Qed.

  Lemma told_apart_b_sound toks : told_apart_b hash toks = true -> told_apart hash toks.
  Proof.
    unfold told_apart_b. intros H a b Ha Hb Hh. rewrite forallb_forall in H. specialize (H a Ha).
    rewrite forallb_forall in H. specialize (H b Hb). rewrite Hh, Z.eqb_refl in H. cbn in H.
    apply bytes_eqb_iff. exact H.
  Qed.

  (* without any hypothesis on the key function: a response is handed to a receiver only if a request in
     progress registered that receiver under the KEY of the response's token *)
  Lemma h_lookup_in : forall t k r, h_lookup t k = Some r -> In (k, r) t.
  Proof.
    induction t as [|[k' r'] rest IH]; intros k r H; [discriminate|]. cbn [h_lookup] in H.
    destruct (k' =? k) eqn:E; [apply Z.eqb_eq in E; injection H as ->; subst; left; reflexivity|right; exact (IH k r H)].
  Qed.
End Refinement.

(* ------------------------------------------------------------------ *)
(* 2. the table of Model.v is [trun] of the history's discovery events *)
(* ------------------------------------------------------------------ *)
Lemma mh_remove_absent : forall t tok, mh_lookup t tok = None -> mh_remove t tok = t.
Proof.
  induction t as [|[k r] rest IH]; intros tok H; [reflexivity|]. cbn [mh_lookup mh_remove] in *.
  destruct (bytes_eqb k tok); [discriminate|]. f_equal. apply IH. exact H.
Qed.

Lemma tstep_fail_table t tok rcv : fst (tstep t (DvFail tok rcv)) = t.
Proof.
  cbn [tstep]. destruct (mh_lookup t tok) eqn:E; [reflexivity|]. cbn [fst mh_remove]. rewrite bytes_eqb_same.
  apply mh_remove_absent. exact E.
Qed.

Lemma in_progress_is_trun : forall (D : Type) (evs : list (ev D)) reg,
  in_progress D reg evs = fst (trun reg (flat_map dev_of evs)).
Proof.
  induction evs as [|e r IH]; intros reg; [reflexivity|].
  destruct e as [ra lst dst d|ra la lst|k| |tok rcv|tok|tok rcv]; cbn [in_progress flat_map dev_of app]; try apply IH.
  - cbn [trun tstep]. destruct (mh_lookup reg tok); rewrite IH; destruct (trun _ (flat_map dev_of r)); reflexivity.
  - cbn [trun tstep]. rewrite IH. destruct (trun _ (flat_map dev_of r)); reflexivity.
  - cbn [trun]. pose proof (tstep_fail_table reg tok rcv) as Hf. destruct (tstep reg (DvFail tok rcv)) as [t1 o1].
    cbn [fst] in Hf. subst t1. rewrite IH. destruct (trun reg (flat_map dev_of r)); reflexivity.
Qed.

(* ------------------------------------------------------------------ *)
(* 3. CRC-64: one more zero byte in front is a different key           *)
(* ------------------------------------------------------------------ *)
Definition in64 (c : Z) : Prop := 0 <= c < 2 ^ 64.

Lemma lxor_range n a b : 0 < n -> 0 <= a < 2 ^ n -> 0 <= b < 2 ^ n -> 0 <= Z.lxor a b < 2 ^ n.
Proof.
  intros Hn [Ha Ha'] [Hb Hb'].
  assert (H0 : 0 <= Z.lxor a b) by (apply Z.lxor_nonneg; tauto).
  split; [exact H0|].
  destruct (Z.eq_dec (Z.lxor a b) 0) as [E|E]; [rewrite E; apply Z.pow_pos_nonneg; lia|].
  apply Z.log2_lt_pow2; [lia|].
  pose proof (Z.log2_lxor a b Ha Hb) as Hl.
  assert (Hla : Z.log2 a < n).
  { destruct (Z.eq_dec a 0) as [->|Na]; [cbn; lia|apply Z.log2_lt_pow2; lia]. }
  assert (Hlb : Z.log2 b < n).
  { destruct (Z.eq_dec b 0) as [->|Nb]; [cbn; lia|apply Z.log2_lt_pow2; lia]. }
  lia.
Qed.

Lemma lxor_cancel_r a b c : Z.lxor a c = Z.lxor b c -> a = b.
Proof.
  intro H. apply (f_equal (fun z => Z.lxor z c)) in H.
  rewrite !Z.lxor_assoc, !Z.lxor_nilpotent, !Z.lxor_0_r in H. exact H.
Qed.

Lemma half_range c : in64 c -> 0 <= Z.shiftr c 1 < 2 ^ 63.
Proof.
  unfold in64. intros [H0 H1]. rewrite Z.shiftr_div_pow2 by lia. change (2 ^ 1) with 2.
  split; [apply Z.div_pos; lia|]. apply Z.div_lt_upper_bound; [lia|]. change (2 * 2 ^ 63) with (2 ^ 64). exact H1.
Qed.

Lemma poly_range : 0 <= TokenKey.crc_poly < 2 ^ 64.
Proof. vm_compute. split; [discriminate|reflexivity]. Qed.

Lemma crc_bit_range c : in64 c -> in64 (TokenKey.crc_bit c).
Proof.
  intro H. pose proof (half_range c H) as Hh. unfold TokenKey.crc_bit, Observe.Model.crc_bit, in64.
  destruct (Z.odd c).
  - apply lxor_range; [lia| |exact poly_range]. change (2 ^ 64) with (2 * 2 ^ 63). lia.
  - change (2 ^ 64) with (2 * 2 ^ 63). lia.
Qed.

Lemma bit63_half c : in64 c -> Z.testbit (Z.shiftr c 1) 63 = false.
Proof.
  intro H. pose proof (half_range c H) as [H0 H1].
  destruct (Z.eq_dec (Z.shiftr c 1) 0) as [->|N]; [apply Z.bits_0|].
  apply Z.bits_above_log2; [exact H0|]. apply Z.log2_lt_pow2; lia.
Qed.

Lemma bit63_poly : Z.testbit TokenKey.crc_poly 63 = true.
Proof. vm_compute. reflexivity. Qed.

Lemma half_parity a b : Z.shiftr a 1 = Z.shiftr b 1 -> Z.odd a = Z.odd b -> a = b.
Proof.
  intros Hs Ho. rewrite !Z.shiftr_div_pow2 in Hs by lia. change (2 ^ 1) with 2 in Hs.
  rewrite (Z.div_mod a 2), (Z.div_mod b 2) by lia. rewrite !Zmod_odd, Hs, Ho. reflexivity.
Qed.

Lemma crc_bit_inj a b : in64 a -> in64 b -> TokenKey.crc_bit a = TokenKey.crc_bit b -> a = b.
Proof.
  intros Ha Hb H. unfold TokenKey.crc_bit, Observe.Model.crc_bit in H.
  change Observe.Model.crc_poly with TokenKey.crc_poly in H.
  destruct (Z.odd a) eqn:Oa; destruct (Z.odd b) eqn:Ob.
  - apply lxor_cancel_r in H. apply half_parity; congruence.
  - exfalso. apply (f_equal (fun z => Z.testbit z 63)) in H.
    rewrite Z.lxor_spec, bit63_poly, (bit63_half a Ha), (bit63_half b Hb) in H. discriminate.
  - exfalso. apply (f_equal (fun z => Z.testbit z 63)) in H.
    rewrite Z.lxor_spec, bit63_poly, (bit63_half a Ha), (bit63_half b Hb) in H. discriminate.
  - apply half_parity; congruence.
Qed.

Lemma byte_in64 b : 0 <= b < 256 -> 0 <= b < 2 ^ 64.
Proof. intro H. assert (256 < 2 ^ 64) by (vm_compute; reflexivity). lia. Qed.

Lemma crc_byte_range c b : in64 c -> 0 <= b < 256 -> in64 (TokenKey.crc_byte c b).
Proof.
  intros Hc Hb. unfold TokenKey.crc_byte, Observe.Model.crc_byte.
  change Observe.Model.crc_bit with TokenKey.crc_bit.
  do 8 apply crc_bit_range. apply lxor_range; [lia|exact Hc|apply byte_in64; exact Hb].
Qed.

Lemma crc_byte_inj c c' b : in64 c -> in64 c' -> 0 <= b < 256 ->
  TokenKey.crc_byte c b = TokenKey.crc_byte c' b -> c = c'.
Proof.
  intros Hc Hc' Hb H. unfold TokenKey.crc_byte, Observe.Model.crc_byte in H.
  change Observe.Model.crc_bit with TokenKey.crc_bit in H.
  assert (Hx : in64 (Z.lxor c b)) by (apply lxor_range; [lia|exact Hc|apply byte_in64; exact Hb]).
  assert (Hx' : in64 (Z.lxor c' b)) by (apply lxor_range; [lia|exact Hc'|apply byte_in64; exact Hb]).
  do 8 (apply crc_bit_inj in H; [|repeat apply crc_bit_range; assumption|repeat apply crc_bit_range; assumption]).
  apply lxor_cancel_r in H. exact H.
Qed.

Lemma bytes_ok_cons b r : bytes_ok (b :: r) = true -> 0 <= b < 256 /\ bytes_ok r = true.
Proof. unfold bytes_ok. cbn [forallb]. unfold byte_ok. intro H. apply andb_prop in H as [H1 H2]. split; [lia|exact H2]. Qed.

Lemma fold_crc_range : forall t s, bytes_ok t = true -> in64 s -> in64 (fold_left TokenKey.crc_byte t s).
Proof.
  induction t as [|b r IH]; intros s Hb Hs; [exact Hs|]. apply bytes_ok_cons in Hb as [Hb Hr].
  cbn [fold_left]. apply IH; [exact Hr|]. apply crc_byte_range; assumption.
Qed.

(* the same bytes fed into two different registers leave two different registers *)
Lemma fold_crc_inj : forall t s1 s2, bytes_ok t = true -> in64 s1 -> in64 s2 ->
  fold_left TokenKey.crc_byte t s1 = fold_left TokenKey.crc_byte t s2 -> s1 = s2.
Proof.
  induction t as [|b r IH]; intros s1 s2 Hb H1 H2 H; [exact H|]. apply bytes_ok_cons in Hb as [Hb Hr].
  cbn [fold_left] in H. apply IH in H; [|exact Hr|apply crc_byte_range; assumption|apply crc_byte_range; assumption].
  apply (crc_byte_inj s1 s2 b); assumption.
Qed.

Lemma m64_range : in64 TokenKey.M64.
Proof. unfold in64. vm_compute. split; [discriminate|reflexivity]. Qed.

Lemma crc64_app p t : TokenKey.crc64 (p ++ t) = Z.lxor (fold_left TokenKey.crc_byte t (crc_state p)) TokenKey.M64.
Proof. unfold TokenKey.crc64, Observe.Model.crc64, crc_state. rewrite fold_left_app. reflexivity. Qed.

(* two tokens with a common rest and different registers in front of it have different keys *)
Theorem crc64_common_rest : forall p q t, bytes_ok p = true -> bytes_ok q = true -> bytes_ok t = true ->
  TokenKey.crc64 (p ++ t) = TokenKey.crc64 (q ++ t) -> crc_state p = crc_state q.
Proof.
  intros p q t Hp Hq Ht H. rewrite !crc64_app in H. apply lxor_cancel_r in H.
  apply (fold_crc_inj t); [exact Ht| | |exact H]; unfold crc_state; apply fold_crc_range; try assumption; exact m64_range.
Qed.

Lemma bytes_ok_zeros k : bytes_ok (repeat 0 k) = true.
Proof. induction k as [|k IH]; [reflexivity|]. cbn [repeat]. unfold bytes_ok in *. cbn [forallb]. rewrite IH. reflexivity. Qed.

(* the registers after 0, 1, ..., 8 zero bytes are nine different numbers *)
Lemma zero_states_distinct : forall i j, (i <= 8)%nat -> (j <= 8)%nat ->
  crc_state (repeat 0 i) = crc_state (repeat 0 j) -> i = j.
Proof.
  intros i j Hi Hj.
  do 9 (destruct i as [|i]; [do 9 (destruct j as [|j]; [vm_compute; intro H; first [reflexivity|discriminate H]|]); exfalso; lia|]).
  exfalso; lia.
Qed.

(* Token.Hash = CRC-64: for every rest [t], the tokens 0^i t (i = 0..8) have pairwise different keys *)
Theorem crc64_zero_padding_apart : forall t i j, bytes_ok t = true -> (i <= 8)%nat -> (j <= 8)%nat ->
  TokenKey.crc64 (repeat 0 i ++ t) = TokenKey.crc64 (repeat 0 j ++ t) -> i = j.
Proof.
  intros t i j Ht Hi Hj H. apply zero_states_distinct; [exact Hi|exact Hj|].
  apply (crc64_common_rest _ _ t); [apply bytes_ok_zeros|apply bytes_ok_zeros|exact Ht|exact H].
Qed.

Corollary crc64_tells_zero_paddings_apart : forall t toks, bytes_ok t = true ->
  (forall x, In x toks -> exists i, (i <= 8)%nat /\ x = repeat 0 i ++ t) ->
  told_apart TokenKey.crc64 toks.
Proof.
  intros t toks Ht Hall a b Ha Hb Hh. destruct (Hall a Ha) as [i [Hi ->]]. destruct (Hall b Hb) as [j [Hj ->]].
  rewrite (crc64_zero_padding_apart t i j Ht Hi Hj Hh). reflexivity.
Qed.

(* ------------------------------------------------------------------ *)
(* 4. contrast: the packed key drops the zero bytes in front            *)
(* ------------------------------------------------------------------ *)
Lemma be_zero_front t : be (0 :: t) = be t.
Proof. unfold be. cbn [fold_left]. reflexivity. Qed.

Lemma packed_key_zero_front t : blen t < 8 -> packed_key (0 :: t) = packed_key t.
Proof.
  intro H. unfold packed_key. replace (8 <? blen (0 :: t)) with false.
  2:{ symmetry. apply Z.ltb_ge. unfold blen in *. cbn [length]. lia. }
  replace (8 <? blen t) with false by (symmetry; apply Z.ltb_ge; lia). apply be_zero_front.
Qed.

(* ------------------------------------------------------------------ *)
(* 5. head statements                                                  *)
(* ------------------------------------------------------------------ *)

(* the discovery table of the server model, seen as the table the code keeps: for every history of the server whose
   discovery tokens the key function tells apart, the key-table run on the history's discovery events is the image
   of the model's table *)
Theorem model_table_as_keys :
  forall (pstate datagram pout : Type) (peer_init : Z -> pstate)
         (peer_step : mhtab -> pstate -> datagram -> presult pstate pout) (recv_trunc : datagram -> datagram)
         (hash : list Z -> Z) (evs : list (ev datagram)) g s o,
  run pstate datagram pout peer_init peer_step recv_trunc (init_state g) evs = Some (s, o) ->
  told_apart hash (map dev_tok (flat_map dev_of evs)) ->
  fst (hrun hash [] (flat_map dev_of evs)) = hkeys hash (mh s).
Proof.
  intros pstate datagram pout peer_init peer_step recv_trunc hash evs g s o Hr Ht.
  rewrite (hrun_refines_init hash _ Ht). cbn [fst].
  rewrite (disc_table_in_progress_init pstate datagram pout peer_init peer_step recv_trunc evs g s o Hr).
  rewrite in_progress_is_trun. reflexivity.
Qed.

(* whatever the key function: a message is handed to receiver r only if some request registered r under the KEY of
   the message's token *)
Lemma h_remove_in : forall t k x, In x (h_remove t k) -> In x t /\ fst x <> k.
Proof.
  induction t as [|[k' r'] rest IH]; intros k x H; [contradiction|]. cbn [h_remove] in H.
  destruct (k' =? k) eqn:E.
  - destruct (IH k x H) as [H1 H2]. split; [right; exact H1|exact H2].
  - destruct H as [H|H].
    + subst x. split; [left; reflexivity|]. cbn [fst]. apply Z.eqb_neq. exact E.
    + destruct (IH k x H) as [H1 H2]. split; [right; exact H1|exact H2].
Qed.

Theorem delivery_by_key : forall hash all evs t0,
  incl evs all ->
  (forall k r, In (k, r) t0 -> exists tok', In (DvStart tok' r) all /\ hash tok' = k) ->
  forall r tok, In (DoDeliver r tok) (snd (hrun hash t0 evs)) ->
  exists tok', In (DvStart tok' r) all /\ hash tok' = hash tok.
Proof.
  intros hash all. induction evs as [|e rest IH]; intros t0 Hi Hinv r tok Hin; [contradiction|].
  cbn [hrun] in Hin. destruct (hstep hash t0 e) as [t1 o1] eqn:E1. destruct (hrun hash t1 rest) as [t2 o2] eqn:E2.
  cbn [snd] in Hin. apply in_app_or in Hin as [Hin|Hin].
  - destruct e as [tk rc|tk|tk rc|tk]; cbn [hstep] in E1.
    + destruct (h_lookup t0 (hash tk)); injection E1 as <- <-; cbn [In] in Hin; intuition discriminate.
    + injection E1 as <- <-. contradiction.
    + destruct (h_lookup t0 (hash tk)); injection E1 as <- <-; cbn [In] in Hin; intuition discriminate.
    + injection E1 as <- <-. destruct Hin as [Hin|[]]. destruct (h_lookup t0 (hash tk)) as [r0|] eqn:EL; [|discriminate].
      injection Hin as -> ->. apply Hinv. apply h_lookup_in. exact EL.
  - assert (Hi' : incl rest all) by (intros x Hx; apply Hi; right; exact Hx).
    assert (He : In e all) by (apply Hi; left; reflexivity).
    apply (IH t1 Hi'); [|rewrite E2; exact Hin].
    intros k r0 Hk. destruct e as [tk rc|tk|tk rc|tk]; cbn [hstep] in E1.
    + destruct (h_lookup t0 (hash tk)); injection E1 as <- _; [apply Hinv; exact Hk|].
      destruct Hk as [Hk|Hk]; [injection Hk as <- <-; exists tk; split; [exact He|reflexivity]|apply Hinv; exact Hk].
    + injection E1 as <- _. apply h_remove_in in Hk as [Hk _]. apply Hinv. exact Hk.
    + destruct (h_lookup t0 (hash tk)); injection E1 as <- _; [apply Hinv; exact Hk|].
      cbn [h_remove] in Hk. rewrite Z.eqb_refl in Hk. apply h_remove_in in Hk as [Hk _]. apply Hinv. exact Hk.
    + injection E1 as <- _. apply Hinv. exact Hk.
Qed.

(* Token.Hash = CRC-64: a request in progress with token 0^i t, a message with token 0^j t *)
Theorem crc64_zero_padded_response : forall t rcv i j, bytes_ok t = true -> (i <= 8)%nat -> (j <= 8)%nat ->
  snd (hrun TokenKey.crc64 [] [DvStart (repeat 0 i ++ t) rcv; DvResp (repeat 0 j ++ t)]) =
  [if Nat.eqb i j then DoDeliver rcv (repeat 0 j ++ t) else DoApp (repeat 0 j ++ t)].
Proof.
  intros t rcv i j Ht Hi Hj. cbn [hrun hstep h_lookup snd app].
  destruct (Nat.eqb i j) eqn:E.
  - apply Nat.eqb_eq in E. subst j. rewrite Z.eqb_refl. reflexivity.
  - destruct (TokenKey.crc64 (repeat 0 i ++ t) =? TokenKey.crc64 (repeat 0 j ++ t)) eqn:Eh; [|reflexivity].
    apply Z.eqb_eq in Eh. apply (crc64_zero_padding_apart t i j Ht Hi Hj) in Eh. subst j.
    rewrite Nat.eqb_refl in E. discriminate.
Qed.

(* for ALL histories over the tokens 0^i t (i = 0..8): the table keyed by CRC-64 is the table keyed by the token *)
Theorem crc64_zero_padded_histories : forall t evs, bytes_ok t = true ->
  (forall e, In e evs -> exists i, (i <= 8)%nat /\ dev_tok e = repeat 0 i ++ t) ->
  hrun TokenKey.crc64 [] evs = (hkeys TokenKey.crc64 (fst (trun [] evs)), snd (trun [] evs)).
Proof.
  intros t evs Ht Hall. apply hrun_refines_init. apply (crc64_tells_zero_paddings_apart t); [exact Ht|].
  intros x Hx. apply in_map_iff in Hx as [e [<- He]]. exact (Hall e He).
Qed.

(* contrast (NOT the code): with the token bytes packed into the key, a message whose token is the registered
   token with one more zero byte in front -- a different token -- is handed to that request's receiver *)
Theorem packed_key_misdelivers : forall t rcv, blen t < 8 ->
  0 :: t <> t /\
  snd (hrun packed_key [] [DvStart t rcv; DvResp (0 :: t)]) = [DoDeliver rcv (0 :: t)] /\
  snd (trun [] [DvStart t rcv; DvResp (0 :: t)]) = [DoApp (0 :: t)].
Proof.
  intros t rcv H. split; [|split].
  - intro E. apply (f_equal (@length Z)) in E. cbn [length] in E. lia.
  - cbn [hrun hstep h_lookup snd app]. rewrite (packed_key_zero_front t H), Z.eqb_refl. reflexivity.
  - cbn [trun tstep mh_lookup snd app]. rewrite bytes_eqb_diff; [reflexivity|].
    intro E. apply (f_equal (@length Z)) in E. cbn [length] in E. lia.
Qed.
