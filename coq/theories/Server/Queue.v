(* C10, round 4: the path of the datagrams of ONE remote address between the socket and the application:

     Serve's read loop -> getConn -> cc.Process (decode, dedup) -> cc.receivedMessageReader.C() <- req
                                                                    (a channel of cfg.ReceivedMessageQueueSize slots)
     loopOverReceivedMessageQueue: req := <-C(); handler(req)         (one reader loop per connection)

   Process ends with a BLOCKING send (select with the connection's context only): when the channel is full the read
   loop waits.  Server/Model.v treats one Serve iteration including the dispatch as one atomic step; here the queue in
   between is modelled and "in arrival order" is proved for every schedule of the two loops.  Model and proofs in one
   file (they are a page). *)
From Coq Require Import ZArith List Bool Lia.
Import ListNotations.

Record qstate := QS { q_sock : list Z;    (* datagrams of this peer not yet taken off the socket, in arrival order *)
                      q_chan : list Z;    (* the channel, head = next to be received *)
                      q_done : list Z }.  (* handed to the handler so far, in that order *)

Inductive qev :=
| QRead       (* the read loop takes the next datagram through Process; with a full channel the send does not
                 complete: the event is not enabled (the state does not change) *)
| QHandle.    (* the reader loop of the connection receives the head of the channel and runs the handler on it *)

Definition qstep (size : nat) (s : qstate) (e : qev) : qstate :=
  match e with
  | QRead =>
      match q_sock s with
      | [] => s
      | m :: r => if (length (q_chan s) <? size)%nat then QS r (q_chan s ++ [m]) (q_done s) else s
      end
  | QHandle =>
      match q_chan s with
      | [] => s
      | m :: r => QS (q_sock s) r (q_done s ++ [m])
      end
  end.

Definition qinit (arrivals : list Z) : qstate := QS arrivals [] [].
Definition qrun (size : nat) (arrivals : list Z) (evs : list qev) : qstate := fold_left (qstep size) evs (qinit arrivals).

(* for ALL schedules of the two loops: handled ++ queued ++ unread is the arrival sequence *)
Lemma qstep_inv size s e : q_done (qstep size s e) ++ q_chan (qstep size s e) ++ q_sock (qstep size s e)
                           = q_done s ++ q_chan s ++ q_sock s.
Proof.
  destruct s as [sock chan done]. destruct e; cbn [qstep q_sock q_chan q_done].
  - destruct sock as [|m r]; [reflexivity|]. destruct (length chan <? size)%nat; [|reflexivity].
    cbn [q_sock q_chan q_done]. rewrite <- !app_assoc. reflexivity.
  - destruct chan as [|m r]; [reflexivity|]. cbn [q_sock q_chan q_done]. rewrite <- !app_assoc. reflexivity.
Qed.

Theorem queue_in_order : forall size arrivals evs,
  let s := qrun size arrivals evs in q_done s ++ q_chan s ++ q_sock s = arrivals.
Proof.
  intros size arrivals evs. unfold qrun.
  assert (G : forall s, q_done (fold_left (qstep size) evs s) ++ q_chan (fold_left (qstep size) evs s)
                        ++ q_sock (fold_left (qstep size) evs s) = q_done s ++ q_chan s ++ q_sock s).
  { induction evs as [|e evs IH]; intro s; [reflexivity|]. cbn [fold_left]. rewrite IH. apply qstep_inv. }
  cbn zeta. rewrite G. reflexivity.
Qed.

(* what the application has seen is a prefix of the arrival sequence, at every moment of every schedule *)
Corollary queue_handled_prefix : forall size arrivals evs,
  exists rest, arrivals = q_done (qrun size arrivals evs) ++ rest.
Proof. intros. eexists. symmetry. apply queue_in_order. Qed.

(* ... and all of it once nothing is left in the socket and in the channel *)
Corollary queue_complete : forall size arrivals evs,
  q_sock (qrun size arrivals evs) = [] -> q_chan (qrun size arrivals evs) = [] -> q_done (qrun size arrivals evs) = arrivals.
Proof.
  intros size arrivals evs Hs Hc. pose proof (queue_in_order size arrivals evs) as H. cbn zeta in H.
  rewrite Hs, Hc, !app_nil_r in H. exact H.
Qed.

(* no deadlock between the two loops: while something is left, one of them can move (the channel has a slot) *)
Theorem queue_progress : forall size s, (0 < size)%nat -> q_sock s <> [] \/ q_chan s <> [] ->
  qstep size s QHandle <> s \/ qstep size s QRead <> s.
Proof.
  intros size [sock chan done] Hsz H. cbn [q_sock q_chan] in H.
  destruct chan as [|m r].
  - right. destruct sock as [|x sock].
    + destruct H as [H|H]; congruence.
    + cbn [qstep q_sock q_chan q_done length]. destruct (Nat.ltb_spec 0 size) as [_|Hn]; [|lia].
      intro E. apply (f_equal q_sock) in E. cbn [q_sock] in E.
      apply (f_equal (@length Z)) in E. cbn [length] in E. lia.
  - left. cbn [qstep q_sock q_chan q_done]. intro E. apply (f_equal q_chan) in E. cbn [q_chan] in E.
    apply (f_equal (@length Z)) in E. cbn [length] in E. lia.
Qed.

(* ------------------------------------------------------------------ *)
(* contrast (NOT the code): a read loop that never waits -- when the channel is full the message is handed to a
   goroutine of its own, which sends it when there is room; the goroutines reach the channel in scheduler order *)
Record spill_state := SPS { sp_sock : list Z; sp_chan : list Z; sp_spill : list Z; sp_done : list Z }.
Inductive spill_ev := SRead | SHandle | SSpill (i : nat).   (* the i-th waiting goroutine's send completes *)

Fixpoint take_nth (i : nat) (l : list Z) : option (Z * list Z) :=
  match l, i with
  | [], _ => None
  | x :: r, O => Some (x, r)
  | x :: r, S j => match take_nth j r with Some (y, r') => Some (y, x :: r') | None => None end
  end.

Definition spill_step (size : nat) (s : spill_state) (e : spill_ev) : spill_state :=
  match e with
  | SRead =>
      match sp_sock s with
      | [] => s
      | m :: r => if (length (sp_chan s) <? size)%nat then SPS r (sp_chan s ++ [m]) (sp_spill s) (sp_done s)
                  else SPS r (sp_chan s) (sp_spill s ++ [m]) (sp_done s)
      end
  | SHandle =>
      match sp_chan s with
      | [] => s
      | m :: r => SPS (sp_sock s) r (sp_spill s) (sp_done s ++ [m])
      end
  | SSpill i =>
      if (length (sp_chan s) <? size)%nat then
        match take_nth i (sp_spill s) with
        | Some (m, rest) => SPS (sp_sock s) (sp_chan s ++ [m]) rest (sp_done s)
        | None => s
        end
      else s
  end.
Definition spill_run (size : nat) (arrivals : list Z) (evs : list spill_ev) : spill_state :=
  fold_left (spill_step size) evs (SPS arrivals [] [] []).

Theorem spilling_read_loop_reorders :
  exists evs, let s := spill_run 1 [0; 1; 2]%Z evs in
    sp_sock s = [] /\ sp_chan s = [] /\ sp_spill s = [] /\ sp_done s = [0; 2; 1]%Z.
Proof.
  exists [SRead; SRead; SRead; SHandle; SSpill 1; SHandle; SSpill 0; SHandle]. vm_compute. repeat split; reflexivity.
Qed.
