(* Server/Addr.v -- addresses as the code holds them, and the key of the peer table computed from them.

   Server/Model.v abstracts net.IP to the classes getConnKey distinguishes plus "the printed identity".  A net.IP is
   a byte slice, and ONE IPv4 address has TWO representations: 4 bytes (what the kernel reports for the peer of an
   AF_INET socket, what IP.To4 returns) and 16 bytes ::ffff:a.b.c.d (what net.IPv4(), net.ParseIP and
   net.ResolveUDPAddr hand to the application).  Both reach the peer table: datagrams read from the socket on one
   side, Server.NewConn(raddr[, laddr]) with an address the application made on the other.  Here the byte level:

     net/ip.go        IP.To4, IP.Equal, IP.IsUnspecified, IP.IsMulticast, IP.String      -> to4, ip_equal, ...
     net/udpsock.go   UDPAddr.String  (ipEmptyString, JoinHostPort, zone)                -> addr_text
     udp/server/server.go  getConnKey, localAddrCanFallbackToWildcard, toWildcardLocalAddr -> key_c, ...

   The text IP.String produces is not spelled out: [ptext] records what it is computed FROM -- nothing for an empty
   slice, the four bytes To4 returns (dotted notation), the sixteen bytes otherwise (netip text form), "?"+hex for
   any other length -- and the formatting of different byte strings is taken to differ (trusted, as before:
   "UDPAddr.String is injective on what it prints").

   [abs_ip]/[abs_addr] map a concrete address to the abstract one of Model.v; AddrProofs.v shows that the abstract
   key of Model.v is equal exactly when the concrete keys are, so everything proved about the abstract peer table
   holds of concrete addresses in any representation.

   [raw_key] is NOT the code: the what-if of the contrast theorem -- the key made from the raw bytes of the two
   addresses ("the keys are only compared, never shown").

   No proofs here. *)
From Coq Require Import ZArith List Bool.
From GoCoap Require Import Base.Bytes Server.Model.
Import ListNotations.
Open Scope Z_scope.

Definition nip := list Z.                                    (* net.IP *)
Record naddr := NA { n_ip : nip; n_port : Z; n_zone : Z }.   (* net.UDPAddr; zone 0 stands for "" *)

Definition v4_in_v6_prefix : list Z := [0; 0; 0; 0; 0; 0; 0; 0; 0; 0; 255; 255].

(* IP.To4: len 4 -> ip; len 16 && isZeros(ip[0:10]) && ip[10] == 0xff && ip[11] == 0xff -> ip[12:16]; else nil *)
Definition to4 (ip : nip) : option nip :=
  if blen ip =? 4 then Some ip
  else if (blen ip =? 16) && bytes_eqb (firstn 12 ip) v4_in_v6_prefix then Some (skipn 12 ip)
  else None.

(* IP.Equal *)
Definition ip_equal (ip x : nip) : bool :=
  if blen ip =? blen x then bytes_eqb ip x
  else if (blen ip =? 4) && (blen x =? 16) then bytes_eqb (firstn 12 x) v4_in_v6_prefix && bytes_eqb ip (skipn 12 x)
  else if (blen ip =? 16) && (blen x =? 4) then bytes_eqb (firstn 12 ip) v4_in_v6_prefix && bytes_eqb (skipn 12 ip) x
  else false.

Definition ipv4zero : nip := v4_in_v6_prefix ++ [0; 0; 0; 0].      (* net.IPv4zero = IPv4(0, 0, 0, 0) *)
Definition ipv6unspecified : nip := repeat 0 16.                   (* net.IPv6unspecified *)

(* IP.IsUnspecified: ip.Equal(IPv4zero) || ip.Equal(IPv6unspecified) *)
Definition is_unspecified_c (ip : nip) : bool := ip_equal ip ipv4zero || ip_equal ip ipv6unspecified.

(* IP.IsMulticast: if ip4 := ip.To4(); ip4 != nil { return ip4[0]&0xf0 == 0xe0 }; return len(ip) == 16 && ip[0] == 0xff *)
Definition is_multicast_c (ip : nip) : bool :=
  match to4 ip with
  | Some p => match p with b :: _ => b / 16 =? 14 | [] => false end
  | None => (blen ip =? 16) && match ip with b :: _ => b =? 255 | [] => false end
  end.

(* what IP.String / ipEmptyString print, by what it is computed from *)
Inductive ptext := TEmpty | TV4 (p : nip) | TV6 (p : nip) | TBad (p : nip).
Definition ip_text (ip : nip) : ptext :=
  if blen ip =? 0 then TEmpty
  else if negb (blen ip =? 4) && negb (blen ip =? 16) then TBad ip
  else match to4 ip with Some p => TV4 p | None => TV6 ip end.

(* UDPAddr.String: JoinHostPort(ip [+ "%" + zone], port) *)
Definition addr_text (a : naddr) : ptext * Z * Z := (ip_text (n_ip a), n_port a, n_zone a).

(* getConnKey *)
Definition clear_ip_c (l : naddr) : naddr := NA [] (n_port l) 0.
Definition norm_local_c (l : naddr) : naddr :=
  let l1 := if (0 <? blen (n_ip l)) && is_multicast_c (n_ip l) then clear_ip_c l else l in
  if (0 <? blen (n_ip l1)) && is_unspecified_c (n_ip l1) then clear_ip_c l1 else l1.
Definition key_c (r l : naddr) : (ptext * Z * Z) * (ptext * Z * Z) := (addr_text r, addr_text (norm_local_c l)).

(* localAddrCanFallbackToWildcard / toWildcardLocalAddr *)
Definition can_fallback_c (l : naddr) : bool :=
  if negb (0 <? blen (n_ip l)) then false
  else if is_multicast_c (n_ip l) || is_unspecified_c (n_ip l) then false
  else true.
Definition to_wildcard_c (l : naddr) : naddr := clear_ip_c l.

(* ---- abstraction to Model.addr ---- *)
(* the bytes the text is computed from *)
Definition canon (ip : nip) : nip := match to4 ip with Some p => p | None => ip end.
(* an injective numbering of byte strings (a leading 1 keeps the length) *)
Fixpoint num_r (l : list Z) : Z := match l with [] => 1 | b :: r => num_r r * 256 + b end.
Definition ip_num (ip : nip) : Z := num_r (rev (canon ip)).

Definition abs_ip (x : nip) : Model.ip :=
  if blen x =? 0 then IPnone
  else if is_unspecified_c x then IPunspec (match to4 x with Some _ => false | None => true end)
  else if is_multicast_c x then IPmcast (ip_num x)
  else IPhost (ip_num x).
Definition abs_addr (a : naddr) : addr := {| a_ip := abs_ip (n_ip a); a_port := n_port a; a_zone := n_zone a |}.

(* a net.IP the net package produces: empty, 4 or 16 bytes *)
Definition valid_ip (ip : nip) : bool := bytes_ok ip && ((blen ip =? 0) || (blen ip =? 4) || (blen ip =? 16)).
Definition valid_addr (a : naddr) : bool := valid_ip (n_ip a).

(* the 16-byte form of the IPv4 address whose 4-byte form is [p] *)
Definition v4_as_16 (p : nip) : nip := v4_in_v6_prefix ++ p.

(* NOT the code: the key made of the raw bytes of the two addresses *)
Definition raw_addr (a : naddr) : nip * Z * Z := (n_ip a, n_port a, n_zone a).
Definition raw_key (r l : naddr) : (nip * Z * Z) * (nip * Z * Z) := (raw_addr r, raw_addr (norm_local_c l)).
