(* Evaluators used by the correspondence shards of C10. *)
From Coq Require Import ZArith NArith List Bool.
From GoCoap Require Import Base.Cases Base.Bytes Gen.ServerConsts NoResp.Model Dedup.Model Dedup.Spec Server.Model Server.Spec.
From GoCoap Require Monitor.Model Server.KeepAlive.
From GoCoap Require Import Server.Addr Server.TokenKey Server.OptGrow Server.Queue.
From GoCoap Require Server.Pool.
Import ListNotations.
Open Scope Z_scope.

(* a datagram as the harness sent it: literal, or prefix ++ gen_body salt n (oversize ones) *)
Inductive dg := DLit (b : list Z) | DGen (pre : list Z) (salt : Z) (n : Z)
              | DRep (pre : list Z) (b : Z) (n : Z) (post : list Z).     (* pre ++ n times the byte b ++ post *)
Definition dg_bytes (d : dg) : list Z :=
  match d with
  | DLit b => b
  | DGen p s n => p ++ gen_body s (Z.to_nat n)
  | DRep p b n q => p ++ repeat b (Z.to_nat n) ++ q
  end.

(* one datagram sent by a peer: bytes, (well-behaved clients) the request it encodes, the answer observed *)
Record send := SD { s_dg : dg; s_req : option greq; s_obs : option owire }.

Record peer_obs := PO { p_addr : addr; p_good : bool; p_sends : list send;
                        p_newconn : Z;      (* OnNewConn calls with this remote address *)
                        p_errs : Z;         (* cfg.Errors "cannot process packet" with this remote address *)
                        p_pongs : Z;        (* adversaries: Reset replies to their pings (flow control) *)
                        p_hlog : list hcall (* application log for this remote address *) }.

(* one connection of a run against a listener with a handshake, in the order the listener saw them *)
Inductive ckind :=
| CkGood            (* proper handshake, then the scripted requests one at a time *)
| CkSilent          (* TLS: connects and sends nothing *)
| CkPartialHello    (* TLS: 3 bytes of a ClientHello record, then nothing; DTLS: a ClientHello, never answers the HelloVerifyRequest *)
| CkGarbage         (* random bytes instead of a handshake (DTLS: behind a handshake record header) *)
| CkCloseNow        (* TLS: connects and closes; DTLS: a ClientHello, then the socket is closed *)
| CkHsThenStall     (* proper handshake, then nothing *)
| CkFiltered.       (* DTLS: a datagram that is not a handshake record: the listener's accept filter drops it *)
Record cobs := CO { co_kind : ckind;
                    co_hs : bool;                            (* the peer saw its handshake complete within the watchdog *)
                    co_xs : list (greq * option owire);      (* CkGood: requests and observed answers *)
                    co_new : Z; co_errs : Z;                 (* OnNewConn calls / errors reported for its address *)
                    co_hlog : list hcall }.

(* one peer of a keep-alive run: creation time of its connection, (trace, request answered?) with the others / alone *)
Record kpeer := KP { kp_open : Z; kp_together : list kitem; kp_ans_together : list bool;
                     kp_alone : list kitem; kp_ans_alone : list bool }.

(* one step of a RepRun *)
Inductive rstep :=
| RDgram (r : naddr) (d : list Z) (o_id : Z) (o_ans : bool)        (* the peer at r sends the request d; observed: the
                                                                      connection the handler was given, answer received *)
| RNewConn (r : naddr) (l : option naddr) (o_id : Z)               (* Server.NewConn(r[, l]); observed: the connection returned *)
| RSrvReq (r : naddr) (l : option naddr) (o_id : Z) (o_ans o_stray : bool).
                                                                   (* NewConn(r[, l]) and a request over it, which the peer
                                                                      answers; observed: the connection, the answer came back
                                                                      to the request, the answer reached the application *)

(* one message handed to pool.Message.UnmarshalWithDecoder; the harness's decoder counts the attempts of the
   loop in Message.decode, records cap(m.Options) at each of them, and ends the loop with an error of its own
   at attempt number limit + 1 *)
Record pdstep := PD { pd_fresh : bool;       (* a new pooled message (pool.NewMessage) is used from this message on *)
                      pd_hdr : Z;            (* tcp: length of the frame header (the options start there) *)
                      pd_dg : dg; pd_limit : Z;
                      pd_caps : list Z;      (* observed: capacity of the option table at each attempt *)
                      pd_ret : bool;         (* observed: the call returned without the cut-off *)
                      pd_res : Z;            (* observed: 0 = decoded, 1.. = error class (derr_num), 98 = another error, 99 = panic *)
                      pd_nopts : Z; pd_plen : Z (* observed when decoded: options kept, payload length *) }.

(* one peer of a burst run: it sent the requests 0 .. n-1 back to back; observed: the order the application saw them in *)
Record bpeer := BP { bp_n : Z; bp_order : list Z }.

(* the lifecycle hook of message/pool on one datagram connection: a new datagram is handed to Conn.Process (OMark),
   ReleaseMessage is called for message number k (ORel; bar = the message carries the token of the harness' barrier
   requests), AcquireMessage hands out the pooled message number k (OAcq); numbers in order of first appearance *)
Inductive pobs := OMark | ORel (k : Z) (bar : bool) | OAcq (k : Z).

(* which way through Conn.Process a datagram goes (Pool.path), by the decode model and the tests of cstep; the
   connection of these runs has nothing pending, so an ACK/RST never matches a message ID (no PAnswer) *)
Definition path_of (maxsize : Z) (d : list Z) : Pool.path :=
  if maxsize <? blen d then Pool.PTooBig
  else match udp_decode d with
       | DPanic => Pool.PDecodeErr
       | DErr _ => Pool.PDecodeErr
       | DOk m => if is_ping m then Pool.PPing else if is_separate m then Pool.PSeparate else Pool.PQueued
       end.
Fixpoint count_rel (pr : list Pool.instr) : Z :=
  match pr with [] => 0 | Pool.IRel _ :: t => 1 + count_rel t | Pool.IAcq _ :: t => count_rel t end.
(* releases of messages that are not barrier messages, per datagram *)
Fixpoint rel_counts (tr : list pobs) (started : bool) (cur : Z) : list Z :=
  match tr with
  | [] => if started then [cur] else []
  | OMark :: t => if started then cur :: rel_counts t true 0 else rel_counts t true 0
  | ORel _ false :: t => rel_counts t started (cur + 1)
  | _ :: t => rel_counts t started cur
  end.
Fixpoint zremove_one (k : Z) (l : list Z) : list Z :=
  match l with [] => [] | h :: t => if h =? k then t else h :: zremove_one k t end.
(* Pool.disciplined on the observed trace: a message that is released is not in the pool at that moment (it is in
   somebody's hands: every message was handed out by the pool or newly made), one that is handed out was in the pool *)
Fixpoint obs_disciplined (tr : list pobs) (inpool : list Z) : bool :=
  match tr with
  | [] => true
  | OMark :: t => obs_disciplined t inpool
  | ORel k _ :: t => negb (existsb (Z.eqb k) inpool) && obs_disciplined t (k :: inpool)
  | OAcq k :: t => existsb (Z.eqb k) inpool && obs_disciplined t (zremove_one k inpool)
  end.

Inductive case :=
(* a live udp server with ReceivedMessageQueueSize = qsize; the handler of the first request is held while the peers
   send their bursts; witness: 1 = the read loop was seen waiting in Conn.Process for a slot, 2 = the socket was seen
   empty with the read loop back in its read, 0 = neither within the watchdog *)
| BurstRun (qsize : Z) (peers : list bpeer) (witness : Z) (alive probe stopped : bool) (panics : Z)
(* a sequence of received messages decoded by ONE pooled message (NewMessage, then Reset before each, as
   Pool.ReleaseMessage / AcquireMessage do), udp coder or tcp coder *)
| PoolSeq (tcp : bool) (steps : list pdstep)
| UdpRun (maxsize : Z) (lst : addr) (dst : option ip) (peers : list peer_obs) (sched : list nat)
         (alive probe stopped : bool) (panics : Z)
(* a udp run whose server lived in a process of its own, and that process ended before the run was over: the
   datagrams written so far (number of the peer, datagram; the last 60), how it ended (Spec.c10_crash_class) *)
| ProcCrash (maxsize : Z) (sent : list (nat * dg)) (reason : Z)
(* one datagram connection (in-memory session, MaxMessageSize = maxsize), the datagrams handed to Conn.Process one
   after the other (each followed by two barrier requests), the trace of the pool's lifecycle hook; complete = false:
   the barrier behind the datagram after the last of [dgs] did not come back, the trace goes on into its window *)
| PoolPath (maxsize : Z) (complete : bool) (dgs : list dg) (trace : list pobs)
(* getConnKey(r1,l1) == getConnKey(r2,l2) ?  and the two fallback helpers on l1 *)
| KeyEq (r1 l1 r2 l2 : addr) (o_eq : bool) (o_fallback : bool) (o_wild_eq_l2 : bool)
(* Server.NewConn / Conn.Close / tick sequences on a live server: observed connection identities *)
| TableRun (lst : addr) (ops : list (ev (list Z) * Z))   (* event, observed: id of the returned connection (creation
                                                            order), -1 = error, -2 = nothing to observe (datagram
                                                            answered), -3 = datagram reported as dropped *)
           (o_newconns : Z)
(* scripted listener for tcp/dtls Serve: (error class, ctx cancelled before the call) ; observed:
   accept calls until Serve returned (-1 = did not return), connections served, errors reported *)
| AcceptRun (dtls : bool) (script : list (accept_err * bool)) (o_calls o_served o_reported : Z)
(* stream server over loopback: per well-behaved client (request, observed (code, token, plen, pcs)) *)
| TcpRun (goods : list (list (greq * option owire) * Z * Z * list hcall)) (alive probe stopped : bool) (panics : Z)
(* a peer alternates a refused datagram and a ping while the housekeeping sweep runs concurrently:
   observed connections announced, errors, Resets received, datagrams dropped with
   "cannot get client connection" *)
| RaceRun (lst : addr) (a : addr) (pairs : nat) (garbage ping : list Z) (o_news o_errs o_pongs o_dropped : Z)
(* discovery on a live server: steps (Spec.dstep) with, for responses, the sender's address and the datagram *)
| DiscRun (lst : addr) (dst : option ip) (steps : list (dstep * addr * list Z))
(* tcp server on a TLS listener / dtls server with PSK, over loopback: well-behaved clients that connected before
   and after peers which stall, garble or abandon their handshake *)
| TlsRun (dtls : bool) (conns : list cobs) (alive probe stopped : bool) (panics : Z)
(* udp / tcp server with options.WithKeepAlive(mx, timeout) (Monitor period per) and several peers, on a virtual
   clock: the events in the order they were executed, and per peer what it saw in this run and in the run in which
   it was alone *)
| KaRun (tcp : bool) (per mx : Z) (evs : list KeepAlive.kev) (peers : list kpeer) (alive stopped : bool) (panics : Z)
(* getConnKey on addresses given byte by byte (both representations of IPv4 addresses):
   getConnKey(r1,l1) == getConnKey(r2,l2) ?  and the two fallback helpers on l1 *)
| KeyRep (r1 l1 r2 l2 : naddr) (o_eq : bool) (o_fallback : bool) (o_wild_eq_l2 : bool)
(* a live udp server bound to ONE address; peers send requests from IPv4 sockets, the application asks for the
   connection of a peer by an address it built itself (4-byte or 16-byte IP, with or without the local address in
   either form) and sends requests over it *)
| RepRun (lst : naddr) (dst : option nip) (steps : list rstep) (o_news : Z)
(* Token.Hash() of some tokens *)
| TokKey (toks : list (list Z * Z)).

(* ---- building the event list of a run from the send order ---- *)
Fixpoint pop_nth {A} (i : nat) (qs : list (list A)) : option A * list (list A) :=
  match qs, i with
  | [], _ => (None, [])
  | q :: r, O => match q with [] => (None, q :: r) | x :: q' => (Some x, q' :: r) end
  | q :: r, S i' => let '(x, r') := pop_nth i' r in (x, q :: r')
  end.

Fixpoint build_events (lst : addr) (dst : option ip) (addrs : list addr) (qs : list (list dg)) (sched : list nat)
  : list (ev (list Z)) :=
  match sched with
  | [] => []
  | i :: r =>
      match pop_nth i qs with
      | (Some d, qs') => EDgram (nth i addrs lst) lst dst (dg_bytes d) :: build_events lst dst addrs qs' r
      | (None, qs') => build_events lst dst addrs qs' r
      end
  end.

Definition sout_c := sout cout.

(* server-chosen message IDs (confirmable replies carry the connection's own counter) are not compared *)
Definition wire_agrees_erased (w : wire) (o : owire) : bool :=
  (w_typ w =? ow_typ o) && (w_code w =? ow_code o) && ((w_typ w =? CON) || (w_mid w =? ow_mid o))
  && bytes_eqb (w_tok w) (ow_tok o) && opts_eqb (w_opts w) (ow_opts o)
  && (blen (w_pay w) =? ow_plen o) && (csum (w_pay w) =? ow_pcs o).

Definition wires_to (a : addr) (outs : list sout_c) : list wire :=
  flat_map (fun o => match o with SOut _ k (CWire w) => if addr_eqb (fst k) a then [w] else [] | _ => [] end) outs.
Definition handled_of (a : addr) (outs : list sout_c) : list hcall :=
  flat_map (fun o => match o with
                     | SOut _ k (CHandled tok code pay) =>
                         if addr_eqb (fst k) a then [{| hc_tok := tok; hc_code := code; hc_plen := blen pay; hc_pcs := csum pay |}] else []
                     | _ => [] end) outs.
Definition count_new (a : addr) (outs : list sout_c) : Z :=
  blen (filter (fun o => match o with SNew r _ => addr_eqb r a | _ => false end) outs).
Definition count_err (a : addr) (outs : list sout_c) : Z :=
  blen (filter (fun o => match o with SErrProcess r _ => addr_eqb r a | _ => false end) outs).
Definition is_pong (w : wire) : bool := (w_typ w =? RST) && (w_code w =? 0).

Definition obs_list (p : peer_obs) : list owire :=
  flat_map (fun s => match s_obs s with Some o => [o] | None => [] end) (p_sends p).

(* the bytes of a well-behaved client's request decode (by the model decoder) to the request it claims *)
Definition req_matches (s : send) : bool :=
  match s_req s with
  | None => true
  | Some q =>
      match udp_decode (dg_bytes (s_dg s)) with
      | DOk m => (m_typ m =? q_typ q) && (m_code m =? q_code q) && (m_mid m =? q_mid q) && bytes_eqb (m_tok m) (q_tok q)
                 && (match route_of routes (uri_path (m_opts m)) with Some t => t | None => 0 end =? q_route q)
                 && bytes_eqb (m_pay m) (q_pay q)
      | _ => false
      end
  end.

Definition peer_agrees (maxsize : Z) (lst : addr) (dst : option ip) (outs : list sout_c) (p : peer_obs) : bool :=
  (count_new (p_addr p) outs =? p_newconn p) && (count_err (p_addr p) outs =? p_errs p)
  && (if p_good p then
        forallb req_matches (p_sends p)
        && list_rel wire_agrees_erased (wires_to (p_addr p) outs) (obs_list p)
        && list_eqb hcall_eqb (handled_of (p_addr p) outs) (p_hlog p)
        (* non-interference, evaluated: the same client ALONE gets the same answers *)
        && match cserver_run maxsize (init_state 0)
                   (map (fun s => EDgram (p_addr p) lst dst (dg_bytes (s_dg s))) (p_sends p)) with
           | Some (_, alone) => list_rel wire_agrees_erased (wires_to (p_addr p) alone) (obs_list p)
                                && list_eqb hcall_eqb (handled_of (p_addr p) alone) (p_hlog p)
           | None => false
           end
      else blen (filter is_pong (wires_to (p_addr p) outs)) =? p_pongs p).

(* ---- peer table runs ---- *)
Fixpoint table_agrees (s : sstate cstate) (ops : list (ev (list Z) * Z)) (news : Z) : option Z :=
  match ops with
  | [] => Some news
  | (e, o) :: r =>
      match cserver_step 65536 s e with
      | SPanic => None
      | SOk s1 outs =>
          let n := blen (filter (fun x => match x with SNew _ _ => true | _ => false end) outs) in
          let res := fold_left (fun acc x => match x with SConn _ id => id | SErrNewConn _ => -1 | SErrGetConn _ => -3 | _ => acc end) outs (-2) in
          if res =? o then table_agrees s1 r (news + n) else None
      end
  end.

Definition is_ping_bytes (d : list Z) : bool :=
  match d with [b0; b1; _; _] => (b0 =? 64) && (b1 =? 0) | _ => false end.

Definition goods_of (peers : list peer_obs) : list (list (greq * option owire) * Z * Z * list hcall) :=
  flat_map (fun p => if p_good p then
     [(flat_map (fun s => match s_req s with Some q => [(q, s_obs s)] | None => [] end) (p_sends p), p_newconn p, p_errs p, p_hlog p)]
     else []) peers.

(* ---- stream server: expected answer from the application model ---- *)
Fixpoint path_of_tag (rs : list (list (list Z) * Z)) (tag : Z) : list (list Z) :=
  match rs with [] => [[122; 122]] | (p, t) :: r => if t =? tag then p else path_of_tag r tag end.
Definition tcp_resp_agrees (q : greq) (o : owire) : bool :=
  match app_behaviour {| m_typ := 0; m_code := q_code q; m_mid := 0; m_tok := q_tok q;
                         m_opts := map (fun seg => (uri_path_id, seg)) (path_of_tag routes (q_route q)); m_pay := q_pay q |} with
  | BResp code _ pay => (ow_code o =? code) && bytes_eqb (ow_tok o) (q_tok q) && (ow_plen o =? blen pay) && (ow_pcs o =? csum pay)
  | _ => false
  end.

(* ---- accept level (Model.v Part 5) instantiated: one stream/DTLS connection = the application applied to each
   request, in order ---- *)
Definition sconn_step (_ : unit) (q : greq) : unit * list (greq * Z * list Z) :=
  match app_behaviour {| m_typ := 0; m_code := q_code q; m_mid := 0; m_tok := q_tok q;
                         m_opts := map (fun seg => (uri_path_id, seg)) (path_of_tag routes (q_route q)); m_pay := q_pay q |} with
  | BResp code _ pay => (tt, [(q, code, pay)])
  | _ => (tt, [])
  end.
Definition reaches_listener (k : ckind) : bool := match k with CkFiltered => false | _ => true end.
(* the goroutine events of connection i.  A failed handshake of the DTLS server is reported only when its
   time-out expires, which the run does not wait for: whether that event is in the history makes no difference to
   the other connections (stalled_handshake_isolated), and the adversaries' own outputs are not compared. *)
Definition conn_events (dtls : bool) (i : nat) (c : cobs) : list (aev greq) :=
  match co_kind c with
  | CkGood => AvHandshake i HsOk :: map (fun x => AvData i (fst x)) (co_xs c)
  | CkHsThenStall => [AvHandshake i HsOk]
  | CkGarbage | CkCloseNow => if dtls then [] else [AvHandshake i HsErr]
  | CkSilent | CkPartialHello | CkFiltered => []
  end.
Definition tls_events (dtls : bool) (conns : list cobs) : list (aev greq) :=
  let ics := combine (seq 0 (length conns)) conns in
  flat_map (fun ic => if reaches_listener (co_kind (snd ic)) then [AvAccept (fst ic)] else []) ics
  ++ flat_map (fun ic => conn_events dtls (fst ic) (snd ic)) ics.
Fixpoint resp_rel (outs : list (aout (greq * Z * list Z))) (xs : list (greq * option owire)) : bool :=
  match outs, xs with
  | [], [] => true
  | AoOut _ (q, code, pay) :: r, (_, Some o) :: xs' =>
      (ow_code o =? code) && bytes_eqb (ow_tok o) (q_tok q) && (ow_plen o =? blen pay) && (ow_pcs o =? csum pay) && resp_rel r xs'
  | _, _ => false
  end.
Definition conn_agrees (st : astate unit) (outs : list (aout (greq * Z * list Z))) (i : nat) (c : cobs) : bool :=
  match co_kind c with
  | CkGood =>
      co_hs c && (co_new c =? 1) && (co_errs c =? 0)
      && list_eqb hcall_eqb (map (fun x => hcall_of (fst x)) (co_xs c)) (co_hlog c)
      && match filter (@aout_of _ i) outs with
         | AoSpawn _ :: AoNew _ :: rest => resp_rel rest (co_xs c)
         | _ => false
         end
  | CkHsThenStall =>
      co_hs c && (co_new c =? 1)
      && match alookup unit i (a_conns st) with Some (PhOpen, _) => true | _ => false end
  | CkFiltered => (co_new c =? 0) && match alookup unit i (a_conns st) with None => true | _ => false end
  | _ => true
  end.

(* ---- discovery ---- *)
Definition first_byte (l : list Z) : Z := match l with b :: _ => b | [] => -1 end.
Fixpoint disc_agrees (lst : addr) (dst : option ip) (s : sstate cstate) (steps : list (dstep * addr * list Z)) : bool :=
  match steps with
  | [] => true
  | (st, a, d) :: r =>
      let e := match st with
               | DS_Start tok rcv _ => EDiscStart tok rcv
               | DS_End tok => EDiscEnd tok
               | DS_StartFail tok rcv _ => EDiscFail tok rcv
               | DS_Resp _ _ _ _ _ | DS_Ping => EDgram a lst dst d
               end in
      match cserver_step 65536 s e with
      | SPanic => false
      | SOk s1 outs =>
          (match st with
           | DS_Start _ _ ex => Bool.eqb ex (existsb (fun o => match o with SDiscExists => true | _ => false end) outs)
           | DS_End _ | DS_Ping => true
           | DS_StartFail _ _ res =>
               res =? (if existsb (fun o => match o with SDiscExists => true | _ => false end) outs then 1
                       else if existsb (fun o => match o with SDiscSendErr => true | _ => false end) outs then 2 else 0)
           | DS_Resp sender _ _ od oa =>
               (sender =? a_port a)
               && list_eqb deliv_eqb od
                    (flat_map (fun o => match o with SOut _ k (CDeliver rcv _ _ pay) => [(rcv, a_port (fst k), first_byte pay)] | _ => [] end) outs)
               && Bool.eqb oa (existsb (fun o => match o with SOut _ _ (CHandled _ _ _) => true | _ => false end) outs)
           end) && disc_agrees lst dst s1 r
      end
  end.

(* ---- keep-alive level (Server/KeepAlive.v); the cancel of a superseded ping is not visible on the wire ---- *)
Definition kvisible (o : KM.obs) : bool := match o with KM.Cancel _ => false | _ => true end.
Definition kstrip (l : list kitem) : list kitem := map (fun it => (fst it, filter kvisible (snd it))) l.
Definition ka_agrees (per mx : Z) (evs : list KeepAlive.kev) (peers : list kpeer) : bool :=
  let c := {| KM.period := per; KM.maxr := mx; KM.ka := true |} in
  let outs := snd (KeepAlive.krun c [] evs) in
  forallb (fun ip =>
     let '(i, p) := ip in
     list_eqb kitem_eqb (kstrip (KeepAlive.kproj i outs)) (kp_together p)
     && list_eqb kitem_eqb (kstrip (KeepAlive.conn_run c (KM.init (kp_open p)) (map fst (kp_alone p)))) (kp_alone p)
     && forallb (fun b => b) (kp_ans_together p) && forallb (fun b => b) (kp_ans_alone p))
    (combine (seq 0 (length peers)) peers).

(* ---- addresses byte by byte ---- *)
Definition ptext_eqb (a b : ptext) : bool :=
  match a, b with
  | TEmpty, TEmpty => true
  | TV4 x, TV4 y | TV6 x, TV6 y | TBad x, TBad y => bytes_eqb x y
  | _, _ => false
  end.
Definition atext_eqb (a b : ptext * Z * Z) : bool :=
  ptext_eqb (fst (fst a)) (fst (fst b)) && (snd (fst a) =? snd (fst b)) && (snd a =? snd b).
Definition key_c_eqb (a b : (ptext * Z * Z) * (ptext * Z * Z)) : bool := atext_eqb (fst a) (fst b) && atext_eqb (snd a) (snd b).
Definition sp_of (a : naddr) : sp_addr := (n_ip a, n_port a, n_zone a).

(* the peer table of Model.v on the abstracted addresses (Addr.abs_addr; AddrProofs.key_abs_faithful) *)
Fixpoint rep_agrees (lst : naddr) (dst : option nip) (s : sstate cstate) (steps : list rstep) (news : Z) : option Z :=
  match steps with
  | [] => Some news
  | st :: r =>
      let e := match st with
               | RDgram ra d _ _ => EDgram (abs_addr ra) (abs_addr lst) (option_map abs_ip dst) d
               | RNewConn ra la _ | RSrvReq ra la _ _ _ => ENewConn (abs_addr ra) (option_map abs_addr la) (abs_addr lst)
               end in
      match cserver_step 65536 s e with
      | SPanic => None
      | SOk s1 outs =>
          let n := blen (filter (fun x => match x with SNew _ _ => true | _ => false end) outs) in
          let ok := match st with
                    | RDgram _ _ oid oans =>
                        oans && existsb (fun o => match o with SOut id _ (CHandled _ _ _) => id =? oid | _ => false end) outs
                             && existsb (fun o => match o with SOut _ _ (CWire _) => true | _ => false end) outs
                    | RNewConn _ _ oid =>
                        (fold_left (fun acc x => match x with SConn _ id => id | SErrNewConn _ => -1 | _ => acc end) outs (-2) =? oid)
                    | RSrvReq _ _ oid oans ostray =>
                        (fold_left (fun acc x => match x with SConn _ id => id | SErrNewConn _ => -1 | _ => acc end) outs (-2) =? oid)
                        && oans && negb ostray
                    end in
          if ok then rep_agrees lst dst s1 r (news + n) else None
      end
  end.
Definition rep_valid (st : rstep) : bool :=
  match st with
  | RDgram r _ _ _ => valid_addr r
  | RNewConn r l _ | RSrvReq r l _ _ _ => valid_addr r && match l with Some a => valid_addr a | None => true end
  end.
Definition rep_obs (st : rstep) : sp_addr * Z * Z :=
  match st with
  | RDgram r _ id ans => (sp_of r, id, if ans then 0 else 1)
  | RNewConn r _ id => (sp_of r, id, 0)
  | RSrvReq r _ id ans stray => (sp_of r, id, if stray then 2 else if ans then 0 else 1)
  end.

Definition disc_tokens (steps : list (dstep * addr * list Z)) : list (list Z) :=
  flat_map (fun x => match fst (fst x) with
                     | DS_Start t _ _ | DS_StartFail t _ _ | DS_End t | DS_Resp _ t _ _ _ => [t]
                     | DS_Ping => [] end) steps.

(* ---- the decode loop of a pooled message ---- *)
Definition derr_num (e : derr) : Z :=
  match e with ETrunc => 1 | EVersion => 2 | ETokenLen => 3 | EOptMarker => 4 | EOptTrunc => 5 | EOptNum => 6 end.
(* projection of a decode result: (class, options kept, payload length) *)
Definition pd_proj_udp (r : dres cmsg) : dres (Z * Z * Z) :=
  match r with
  | DOk m => DOk (0, blen (m_opts m), blen (m_pay m))
  | DErr e => DOk (derr_num e, 0, 0)
  | DPanic => DPanic
  end.
(* tcp/coder.DecodeWithHeader on a frame with a request code: Options.Unmarshal over data[hdr:], the rest is payload *)
Definition pd_proj_tcp (total : Z) (r : dres (Z * opts_t)) : dres (Z * Z * Z) :=
  match r with
  | DOk (proc, os) => DOk (0, blen os, total - proc)
  | DErr e => DOk (derr_num e, 0, 0)
  | DPanic => DPanic
  end.
Definition pd_dec (tcp : bool) (hdr : Z) (data : list Z) (cap : Z) : cres (Z * Z * Z) :=
  if tcp then
    let rest := skipn (Z.to_nat hdr) data in
    match unmarshal_opts_cap cap (S (length rest)) rest 0 [] 0 with
    | CTooSmall => CTooSmall
    | CR r => CR (pd_proj_tcp (blen rest) r)
    end
  else match udp_decode_cap cap data with
       | CTooSmall => CTooSmall
       | CR r => CR (pd_proj_udp r)
       end.
(* the harness writes the capacities of the first 40 attempts into the case *)
Definition pool_caps_kept : nat := 40.
Fixpoint pool_seq_agrees (tcp : bool) (cap : Z) (steps : list pdstep) : bool :=
  match steps with
  | [] => true
  | s :: r =>
    let data := dg_bytes (pd_dg s) in
    let cap := if pd_fresh s then 16 else cap in
    let '(t, res) := retry_loop grow (pd_dec tcp (pd_hdr s) data) (Z.to_nat (pd_limit s)) cap in
    list_eqb Z.eqb (firstn pool_caps_kept t) (pd_caps s)
    && match res with
       | Some (DOk (c, n, p)) => pd_ret s && (c =? pd_res s) && ((negb (c =? 0)) || ((n =? pd_nopts s) && (p =? pd_plen s)))
       | Some _ => false                 (* the model's decoder never slices out of range (udp_decode_no_panic) *)
       | None => negb (pd_ret s)
       end
    && pool_seq_agrees tcp (last t cap) r
  end.

(* the queue model on a schedule that lets both loops run until nothing is left (by Queue.queue_complete every such
   schedule gives the arrival sequence) *)
Definition burst_model_order (qsize n : Z) : list Z :=
  q_done (qrun (Z.to_nat qsize) (map Z.of_nat (seq 0 (Z.to_nat n)))
               (concat (repeat [QRead; QHandle] (Z.to_nat n)))).

Definition agrees (c : case) : bool :=
  match c with
  | BurstRun qsize peers _ alive probe stopped panics =>
      alive && probe && stopped && (panics =? 0) && (0 <? qsize)
      && forallb (fun p => list_eqb Z.eqb (bp_order p) (burst_model_order qsize (bp_n p))) peers
  | PoolSeq tcp steps => pool_seq_agrees tcp 16 steps
  | KeyRep r1 l1 r2 l2 oe of ow =>
      valid_addr r1 && valid_addr l1 && valid_addr r2 && valid_addr l2
      && Bool.eqb (key_c_eqb (key_c r1 l1) (key_c r2 l2)) oe
      && Bool.eqb (key_eqb (conn_key (abs_addr r1) (abs_addr l1)) (conn_key (abs_addr r2) (abs_addr l2))) oe
      && Bool.eqb (can_fallback_c l1) of && Bool.eqb (can_fallback (abs_addr l1)) of
      && Bool.eqb (atext_eqb (addr_text (to_wildcard_c l1)) (addr_text l2)) ow
  | RepRun lst dst steps news =>
      valid_addr lst && forallb rep_valid steps
      && match rep_agrees lst dst (init_state 0) steps 0 with Some n => n =? news | None => false end
  | TokKey toks => forallb (fun x => crc64 (fst x) =? snd x) toks
  | KaRun _ per mx evs peers alive stopped panics =>
      alive && stopped && (panics =? 0) && ka_agrees per mx evs peers
  (* the model never ends: cstep is total (C10_concrete_total), the decode loop returns (C10_decode_loop_terminates),
     no path of Conn.Process gives a pooled message to two holders (the C10_pool theorems) *)
  | ProcCrash _ _ _ => false
  (* per datagram as many releases as the program of its path has (Pool.path_prog), and every release by a holder *)
  | PoolPath maxsize complete dgs trace =>
      (blen (rel_counts trace false 0) =? blen dgs + (if complete then 0 else 1))
      && list_eqb Z.eqb (firstn (length dgs) (rel_counts trace false 0)) (map (fun d => count_rel (Pool.path_prog (path_of maxsize (dg_bytes d)))) dgs)
      && obs_disciplined trace []
  | UdpRun maxsize lst dst peers sched alive probe stopped panics =>
      alive && probe && stopped && (panics =? 0) &&
      match cserver_run maxsize (init_state 0)
              (build_events lst dst (map p_addr peers) (map (fun p => map s_dg (p_sends p)) peers) sched) with
      | Some (_, outs) => forallb (peer_agrees maxsize lst dst outs) peers
      | None => false
      end
  | KeyEq r1 l1 r2 l2 oe of ow =>
      Bool.eqb (key_eqb (conn_key r1 l1) (conn_key r2 l2)) oe && Bool.eqb (can_fallback l1) of
      && Bool.eqb (addr_eqb (to_wildcard l1) l2) ow
  | TableRun lst ops news =>
      match table_agrees (init_state 0) ops 0 with Some n => n =? news | None => false end
  | AcceptRun _ script oc os orp =>
      let '(calls, served, reported) := accept_loop script 0 0 0 in
      (match calls with Some n => n | None => -1 end =? oc) && (served =? os) && (reported =? orp)
  | TcpRun goods alive probe stopped panics =>
      (* structural isolation: each accepted connection is its own machine; the model of a client's
         exchange is the application applied to each of its requests, on one connection, in order *)
      alive && probe && stopped && (panics =? 0)
      && forallb (fun g => let '(xs, nc, ne, log) := g in
                   (nc =? 1) && (ne =? 0) && list_eqb hcall_eqb (map (fun x => hcall_of (fst x)) xs) log
                   && forallb (fun x => match snd x with Some o => tcp_resp_agrees (fst x) o | None => false end) xs) goods
  | DiscRun lst dst steps =>
      (* the key function of the code tells the tokens of this run apart (TokenKeyProofs.hrun_refines applies) *)
      told_apart_b crc64 (disc_tokens steps) && disc_agrees lst dst (init_state 0) steps
  | TlsRun dtls conns alive probe stopped panics =>
      (* the model (accepting never waits for a handshake) on the listener's order: every well-behaved
         connection is spawned, announced once and served as if it were alone, whatever the others do *)
      alive && probe && stopped && (panics =? 0)
      && let '(st, outs) := arun unit greq (greq * Z * list Z) tt sconn_step (negb dtls) (ainit unit) (tls_events dtls conns) in
         forallb (fun ic => conn_agrees st outs (fst ic) (snd ic)) (combine (seq 0 (length conns)) conns)
  | RaceRun lst a pairs g p on oe op od =>
      match cserver_run 65536 (init_state 0)
              (flat_map (fun _ => [EDgram a lst None g; ETick; EDgram a lst None p]) (seq 0 pairs)) with
      | Some (_, outs) =>
          (count_new a outs =? on) && (count_err a outs =? oe) && (blen (filter is_pong (wires_to a outs)) =? op) && (od =? 0)
      | None => false
      end
  end.

Definition pclass (c : case) : N :=
  match c with
  | BurstRun _ peers _ alive probe stopped panics =>
      c10_burst_class alive probe stopped panics (map (fun p => (bp_n p, bp_order p)) peers)
  | PoolSeq _ steps => c10_decode_class (map pd_ret steps) (map (fun s => pd_res s =? 99) steps)
  | ProcCrash _ _ reason => c10_crash_class reason
  | PoolPath _ _ _ _ => 0%N   (* correspondence of Pool.v only; a server that dies is a ProcCrash case *)
  | UdpRun _ _ _ peers _ alive probe stopped panics =>
      let c := c10_run_class alive probe stopped panics (goods_of peers) in
      if negb (N.eqb c 0) then c
      (* the server keeps serving every peer: each well-formed ping of an adversarial peer is answered too *)
      else if forallb (fun p => p_good p || (p_pongs p =? blen (filter (fun s => is_ping_bytes (dg_bytes (s_dg s))) (p_sends p)))) peers
           then 0%N else 8%N
  | TcpRun goods alive probe stopped panics => c10_run_class alive probe stopped panics goods
  | TlsRun _ conns alive probe stopped panics =>
      let h := c10_handshake_class (flat_map (fun c => match co_kind c with CkGood | CkHsThenStall => [co_hs c] | _ => [] end) conns) in
      if negb (N.eqb h 0) then h
      else c10_run_class alive probe stopped panics
             (flat_map (fun c => match co_kind c with CkGood => [(co_xs c, co_new c, co_errs c, co_hlog c)] | _ => [] end) conns)
  | DiscRun _ _ steps => disc_class [] (map (fun x => fst (fst x)) steps)
  | KaRun _ _ _ _ peers alive stopped panics =>
      if negb (alive && stopped) then 1%N
      else if negb (panics =? 0) then 2%N
      else c10_keepalive_class (map (fun p => ((kp_together p, kp_ans_together p), (kp_alone p, kp_ans_alone p))) peers)
  (* every ping must be answered: a datagram for a key whose connection was closed is served by a replacement, not dropped *)
  | RaceRun _ _ pairs _ _ _ _ op od => if (od =? 0) && (op =? Z.of_nat pairs) then 0%N else 8%N
  (* "never stops accepting": Serve may return only after the listener was closed or after its own context ended *)
  | AcceptRun _ script oc _ _ =>
      if oc <=? 0 then 0%N
      else match nth_error script (Z.to_nat (oc - 1)) with
           | Some (AccListenerClosed, _) | Some (AccDeadline, true) | Some (AccCanceled, true) => 0%N
           | _ => 9%N
           end
  | KeyRep r1 l1 r2 l2 oe _ _ => key_pair_class (sp_of r1) (sp_of l1) (sp_of r2) (sp_of l2) oe
  | RepRun _ _ steps _ => rep_class [] (map rep_obs steps)
  | _ => 0%N
  end.

Definition mismatches (cs : list case) : list N := bad_indices (fun c => negb (agrees c)) cs.
Definition property_failures (cs : list case) : list (N * N) := classes pclass cs.
