(* C10, round 4: the decode loop of message/pool (Message.decode), i.e. what stands between a received
   datagram / frame and [udp_decode] of Model.v.

     func (r *Message) decode(decoder Decoder) (int, error) {
         for {
             n, err = decoder.Decode(r.bufferUnmarshal, &r.msg)
             if errors.Is(err, message.ErrOptionsTooSmall) {
                 r.msg.Options = make(message.Options, 0, max(16, cap(r.msg.Options)*2))
                 continue
             }
             return n, err
         }
     }

   Model.v's [udp_decode] keeps the options in an unbounded list ("the pooled retry enlarges the option
   capacity, so ErrOptionsTooSmall never surfaces").  Here that sentence is modelled and proved: the
   option table has a CAPACITY, Options.Unmarshal reports ErrOptionsTooSmall when the table is full
   ([unmarshal_opts_cap], [udp_decode_cap]), and the loop retries with the capacity the code computes
   ([grow], [retry_loop], [pool_decode]).  The loop runs inside the one read loop of the udp server
   (Serve -> cc.Process -> UnmarshalWithDecoder), so its termination is part of "never deadlocks or stops
   accepting".  No proofs here. *)
From Coq Require Import ZArith List Bool Lia.
From GoCoap Require Import Base.Bytes Gen.ServerConsts NoResp.Model Dedup.Model Server.Model.
Import ListNotations.
Open Scope Z_scope.

(* the result of one Decode with a bounded option table *)
Inductive cres (A : Type) := CR (r : dres A) | CTooSmall.
Arguments CR {A}. Arguments CTooSmall {A}.

(* message.Options.Unmarshal with cap(options) = cap; [acc] = the options so far.  The capacity test
   comes after every error of the option itself (extension, truncation, option number) and BEFORE the
   "option.ID != 0" test: a skipped option needs a free slot too.  append never reallocates (len < cap),
   so the capacity is constant during one Decode. *)
Fixpoint unmarshal_opts_cap (cap : Z) (fuel : nat) (data : list Z) (prev : Z) (acc : opts_t) (processed : Z)
  : cres (Z * opts_t) :=
  match fuel with
  | O => CR (DOk (processed, acc))
  | S f =>
    match data with
    | [] => CR (DOk (processed, acc))
    | b :: rest =>
      if b =? 255 then CR (DOk (processed + 1, acc))
      else
        let delta := b / 16 in let length := b mod 16 in
        if (delta =? extend_option_error) || (length =? extend_option_error) then CR (DErr EOptMarker)
        else match parse_ext rest delta with
        | DPanic => CR DPanic | DErr e => CR (DErr e)
        | DOk (p1, delta) =>
          match slice_from rest p1 with
          | None => CR DPanic
          | Some rest1 =>
            match parse_ext rest1 length with
            | DPanic => CR DPanic | DErr e => CR (DErr e)
            | DOk (p2, length) =>
              match slice_from rest1 p2 with
              | None => CR DPanic
              | Some rest2 =>
                if blen rest2 <? length then CR (DErr EOptTrunc)
                else
                  let oid := prev + delta in
                  if 65535 <? oid then CR (DErr EOptNum)
                  else match slice_to rest2 length, slice_from rest2 length with
                  | Some v, Some rest3 =>
                      if blen acc =? cap then CTooSmall
                      else
                        let keep := opt_kept oid length && negb (oid =? 0) in
                        unmarshal_opts_cap cap f rest3 oid (if keep then acc ++ [(oid, v)] else acc)
                                           (processed + 1 + p1 + p2 + length)
                  | _, _ => CR DPanic
                  end
              end
            end
          end
        end
    end
  end.

(* udp/coder.Decode into a message whose option table is empty with capacity [cap] *)
Definition udp_decode_cap (cap : Z) (data : list Z) : cres cmsg :=
  if blen data <? 4 then CR (DErr ETrunc)
  else match data with
  | b0 :: b1 :: b2 :: b3 :: _ =>
    if negb (b0 / 64 =? 1) then CR (DErr EVersion)
    else
      let t := (b0 / 16) mod 4 in
      let tkl := b0 mod 16 in
      if max_token_size <? tkl then CR (DErr ETokenLen)
      else match slice_from data 4 with
      | None => CR DPanic
      | Some rest =>
        if blen rest <? tkl then CR (DErr ETrunc)
        else match slice_to rest tkl, slice_from rest tkl with
        | Some token, Some rest1 =>
          match unmarshal_opts_cap cap (S (length rest1)) rest1 0 [] 0 with
          | CTooSmall => CTooSmall
          | CR DPanic => CR DPanic | CR (DErr e) => CR (DErr e)
          | CR (DOk (proc, os)) =>
            match slice_from rest1 proc with
            | None => CR DPanic
            | Some pay => CR (DOk {| m_typ := t; m_code := b1; m_mid := b2 * 256 + b3; m_tok := token; m_opts := os; m_pay := pay |})
            end
          end
        | _, _ => CR DPanic
        end
      end
  | _ => CR DPanic
  end.

(* make(message.Options, 0, max(16, cap(r.msg.Options)*2)) *)
Definition grow (cap : Z) : Z := Z.max 16 (cap * 2).

(* the loop of Message.decode over ANY decoder [dec : capacity -> result]: the capacities of the
   attempts in order, and the result (None = the fuel ran out: the loop is still running) *)
Section Loop.
  Variable A : Type.
  Variable next : Z -> Z.
  Variable dec : Z -> cres A.

  Fixpoint retry_loop (fuel : nat) (cap : Z) : list Z * option (dres A) :=
    match fuel with
    | O => ([], None)
    | S f =>
      match dec cap with
      | CTooSmall => let '(t, r) := retry_loop f (next cap) in (cap :: t, r)
      | CR r => ([cap], Some r)
      end
    end.
End Loop.
Arguments retry_loop {A}.

(* Message.decode with the udp coder, on a pooled message whose option table has capacity [cap0] *)
Definition pool_decode (fuel : nat) (cap0 : Z) (data : list Z) : list Z * option (dres cmsg) :=
  retry_loop grow (fun cap => udp_decode_cap cap data) fuel cap0.

(* the number of attempts the theorems allow for [n] bytes behind the header: the first attempt with
   whatever capacity the pooled message has, then 16, 32, ... *)
Definition attempts_bound (n : Z) : nat := S (S (Z.to_nat (Z.log2_up n))).

(* NOT the code: growth with a ceiling but the same unconditional retry, used only for the contrast
   theorem (a ceiling needs an exit) *)
Definition grow_capped (ceiling : Z) (cap : Z) : Z := Z.min ceiling (grow cap).
