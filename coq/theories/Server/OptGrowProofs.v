(* C10, round 4: the decode loop of message/pool terminates, returns what the unbounded decoder of
   Model.v returns, and never asks for more than twice the datagram's length in option slots. *)
From Coq Require Import ZArith List Bool Lia.
From GoCoap Require Import Base.Bytes Gen.ServerConsts NoResp.Model Dedup.Model Server.Model Server.OptGrow.
Import ListNotations.
Open Scope Z_scope.

(* ------------------------------------------------------------------ *)
(* the loop over any decoder that honours the contract                 *)
(* ------------------------------------------------------------------ *)
Section LoopProofs.
  Variable A : Type.
  Variable dec : Z -> cres A.
  Variable full : dres A.          (* what the decoder returns when the table is large enough *)
  Variable need : Z.               (* a capacity that is large enough *)
  Hypothesis dec_enough : forall cap, need <= cap -> dec cap = CR full.
  Hypothesis dec_sound : forall cap r, dec cap = CR r -> r = full.

  Lemma too_small_below cap : dec cap = CTooSmall -> cap < need.
  Proof.
    intro H. destruct (Z_lt_le_dec cap need) as [Hlt|Hle]; [exact Hlt|].
    rewrite (dec_enough cap Hle) in H. discriminate.
  Qed.

  Lemma grow_double cap : 2 * cap <= grow cap /\ 16 <= grow cap.
  Proof. unfold grow. lia. Qed.

  Lemma loop_from : forall (f : nat) cap, 0 < cap -> need <= cap * 2 ^ Z.of_nat f ->
    forall fuel, (f < fuel)%nat -> snd (retry_loop grow dec fuel cap) = Some full.
  Proof.
    induction f as [|f IH]; intros cap Hpos Hneed fuel Hfuel.
    - destruct fuel as [|fuel]; [lia|]. cbn [retry_loop].
      rewrite dec_enough by (cbn in Hneed; lia). reflexivity.
    - destruct fuel as [|fuel]; [lia|]. cbn [retry_loop].
      destruct (dec cap) as [r|] eqn:Hd.
      + cbn [snd]. f_equal. exact (dec_sound cap r Hd).
      + pose proof (grow_double cap) as [Hg _].
        assert (Hn : need <= grow cap * 2 ^ Z.of_nat f).
        { rewrite Nat2Z.inj_succ, Z.pow_succ_r in Hneed by lia.
          assert (0 < 2 ^ Z.of_nat f) by (apply Z.pow_pos_nonneg; lia). nia. }
        specialize (IH (grow cap) ltac:(lia) Hn fuel ltac:(lia)).
        destruct (retry_loop grow dec fuel (grow cap)) as [t r]. exact IH.
  Qed.

  Lemma pow_log2_up_ge n : n <= 2 ^ Z.log2_up n.
  Proof.
    destruct (Z_le_gt_dec n 1) as [H|H].
    - assert (0 < 2 ^ Z.log2_up n) by (apply Z.pow_pos_nonneg; [lia|apply Z.log2_up_nonneg]). lia.
    - pose proof (Z.log2_up_spec n ltac:(lia)). lia.
  Qed.

  (* termination within the logarithmic bound, with the result of the unbounded decoder *)
  Theorem retry_loop_terminates cap0 fuel : 0 <= cap0 -> (attempts_bound need <= fuel)%nat ->
    snd (retry_loop grow dec fuel cap0) = Some full.
  Proof.
    intros H0 Hfuel. unfold attempts_bound in Hfuel.
    destruct fuel as [|fuel]; [lia|]. cbn [retry_loop].
    destruct (dec cap0) as [r|] eqn:Hd.
    - cbn [snd]. f_equal. exact (dec_sound cap0 r Hd).
    - pose proof (grow_double cap0) as [_ Hg].
      assert (Hn : need <= grow cap0 * 2 ^ Z.of_nat (Z.to_nat (Z.log2_up need))).
      { rewrite Z2Nat.id by apply Z.log2_up_nonneg. pose proof (pow_log2_up_ge need).
        assert (0 < 2 ^ Z.log2_up need) by (apply Z.pow_pos_nonneg; [lia|apply Z.log2_up_nonneg]). nia. }
      pose proof (loop_from _ (grow cap0) ltac:(lia) Hn fuel ltac:(lia)) as L.
      destruct (retry_loop grow dec fuel (grow cap0)) as [t r]. exact L.
  Qed.

  (* every capacity the loop ever allocates *)
  Theorem retry_loop_caps_bounded B : 16 <= B -> 2 * need <= B ->
    forall fuel cap, cap <= B -> Forall (fun c => c <= B) (fst (retry_loop grow dec fuel cap)).
  Proof.
    intros HB1 HB2. induction fuel as [|fuel IH]; intros cap Hc; cbn [retry_loop]; [constructor|].
    destruct (dec cap) as [r|] eqn:Hd.
    - cbn [fst]. constructor; [exact Hc|constructor].
    - pose proof (too_small_below cap Hd) as Hlt.
      assert (Hg : grow cap <= B) by (unfold grow; lia).
      specialize (IH (grow cap) Hg).
      destruct (retry_loop grow dec fuel (grow cap)) as [t r]. cbn [fst] in *. constructor; assumption.
  Qed.

  (* the number of attempts *)
  Theorem retry_loop_attempts cap0 fuel : 0 <= cap0 ->
    (length (fst (retry_loop grow dec fuel cap0)) <= attempts_bound need)%nat.
  Proof.
    intros H0.
    (* a run with more fuel than the bound stops within the bound; a run with less has a shorter trace *)
    assert (Hlen : forall fuel cap, (length (fst (retry_loop grow dec fuel cap)) <= fuel)%nat).
    { induction fuel0 as [|fuel0 IH]; intro cap; cbn [retry_loop]; [cbn; lia|].
      destruct (dec cap); [cbn; lia|]. specialize (IH (grow cap)).
      destruct (retry_loop grow dec fuel0 (grow cap)) as [t r]. cbn [fst length] in *. lia. }
    assert (Hmono : forall fuel cap r, snd (retry_loop grow dec fuel cap) = Some r ->
              forall k, retry_loop grow dec (fuel + k) cap = retry_loop grow dec fuel cap).
    { induction fuel0 as [|fuel0 IH]; intros cap r Hr k; cbn [retry_loop] in Hr; [discriminate|].
      cbn [Nat.add retry_loop]. destruct (dec cap) as [r'|]; [reflexivity|].
      destruct (retry_loop grow dec fuel0 (grow cap)) as [t r''] eqn:E. cbn [snd] in Hr. subst r''.
      rewrite (IH (grow cap) r ltac:(rewrite E; reflexivity) k), E. reflexivity. }
    destruct (le_lt_dec fuel (attempts_bound need)) as [Hle|Hgt].
    - specialize (Hlen fuel cap0). lia.
    - pose proof (retry_loop_terminates cap0 (attempts_bound need) H0 (le_n _)) as T.
      replace fuel with (attempts_bound need + (fuel - attempts_bound need))%nat by lia.
      rewrite (Hmono _ _ _ T). apply Hlen.
  Qed.
End LoopProofs.

(* ------------------------------------------------------------------ *)
(* the udp coder honours the contract with need = the datagram's length *)
(* ------------------------------------------------------------------ *)
Lemma slice_from_len (d : list Z) n r : slice_from d n = Some r -> blen r <= blen d.
Proof.
  unfold slice_from. destruct ((0 <=? n) && (n <=? blen d)); [|discriminate].
  intro H. inversion H. unfold blen. rewrite skipn_length. lia.
Qed.

Ltac step_both :=
  match goal with
  | |- context [match ?x with _ => _ end] =>
      match type of x with
      | _ => destruct x eqn:?
      end
  end.

Lemma unmarshal_cap_enough : forall fuel data prev acc processed cap,
  blen acc + blen data <= cap ->
  unmarshal_opts_cap cap fuel data prev acc processed = CR (unmarshal_opts fuel data prev acc processed).
Proof.
  induction fuel as [|fuel IH]; intros data prev acc processed cap Hc; [reflexivity|].
  cbn [unmarshal_opts_cap unmarshal_opts].
  destruct data as [|b rest]; [reflexivity|].
  destruct (b =? 255); [reflexivity|].
  destruct ((b / 16 =? extend_option_error) || (b mod 16 =? extend_option_error)); [reflexivity|].
  destruct (parse_ext rest (b / 16)) as [[p1 delta]|e|]; [|reflexivity|reflexivity].
  destruct (slice_from rest p1) as [rest1|] eqn:S1; [|reflexivity].
  destruct (parse_ext rest1 (b mod 16)) as [[p2 len]|e|]; [|reflexivity|reflexivity].
  destruct (slice_from rest1 p2) as [rest2|] eqn:S2; [|reflexivity].
  destruct (blen rest2 <? len); [reflexivity|].
  destruct (65535 <? prev + delta); [reflexivity|].
  destruct (slice_to rest2 len) as [v|]; [|reflexivity].
  destruct (slice_from rest2 len) as [rest3|] eqn:S3; [|reflexivity].
  pose proof (slice_from_len _ _ _ S1). pose proof (slice_from_len _ _ _ S2). pose proof (slice_from_len _ _ _ S3).
  assert (Hb : blen (b :: rest) = blen rest + 1) by (unfold blen; cbn [length]; lia).
  assert (Hacc : 0 <= blen acc) by (unfold blen; lia).
  assert (Hrest : 0 <= blen rest3) by (unfold blen; lia).
  destruct (Z.eqb_spec (blen acc) cap) as [Heq|_]; [lia|].
  apply IH.
  destruct (opt_kept (prev + delta) len && negb (prev + delta =? 0)).
  - unfold blen in *. rewrite app_length. cbn [length]. lia.
  - lia.
Qed.

Lemma unmarshal_cap_sound : forall fuel data prev acc processed cap r,
  unmarshal_opts_cap cap fuel data prev acc processed = CR r ->
  unmarshal_opts fuel data prev acc processed = r.
Proof.
  induction fuel as [|fuel IH]; intros data prev acc processed cap r H; [cbn in H |- *; congruence|].
  cbn [unmarshal_opts_cap] in H. cbn [unmarshal_opts].
  destruct data as [|b rest]; [congruence|].
  destruct (b =? 255); [congruence|].
  destruct ((b / 16 =? extend_option_error) || (b mod 16 =? extend_option_error)); [congruence|].
  destruct (parse_ext rest (b / 16)) as [[p1 delta]|e|]; [|congruence|congruence].
  destruct (slice_from rest p1) as [rest1|]; [|congruence].
  destruct (parse_ext rest1 (b mod 16)) as [[p2 len]|e|]; [|congruence|congruence].
  destruct (slice_from rest1 p2) as [rest2|]; [|congruence].
  destruct (blen rest2 <? len); [congruence|].
  destruct (65535 <? prev + delta); [congruence|].
  destruct (slice_to rest2 len) as [v|]; [|congruence].
  destruct (slice_from rest2 len) as [rest3|]; [|congruence].
  destruct (blen acc =? cap); [discriminate|].
  exact (IH _ _ _ _ _ _ H).
Qed.

Lemma udp_decode_cap_enough data cap : blen data <= cap -> udp_decode_cap cap data = CR (udp_decode data).
Proof.
  intro Hc. unfold udp_decode_cap, udp_decode.
  destruct (blen data <? 4); [reflexivity|].
  destruct data as [|b0 [|b1 [|b2 [|b3 r]]]]; try reflexivity.
  destruct (negb (b0 / 64 =? 1)); [reflexivity|].
  destruct (max_token_size <? b0 mod 16); [reflexivity|].
  destruct (slice_from (b0 :: b1 :: b2 :: b3 :: r) 4) as [rest|] eqn:S1; [|reflexivity].
  destruct (blen rest <? b0 mod 16); [reflexivity|].
  destruct (slice_to rest (b0 mod 16)) as [token|]; [|reflexivity].
  destruct (slice_from rest (b0 mod 16)) as [rest1|] eqn:S2; [|reflexivity].
  pose proof (slice_from_len _ _ _ S1). pose proof (slice_from_len _ _ _ S2).
  rewrite unmarshal_cap_enough by (change (blen (@nil (Z * list Z))) with 0; lia).
  destruct (unmarshal_opts (S (length rest1)) rest1 0 [] 0) as [[proc os]|e|]; try reflexivity.
  destruct (slice_from rest1 proc); reflexivity.
Qed.

Lemma udp_decode_cap_sound data cap r : udp_decode_cap cap data = CR r -> r = udp_decode data.
Proof.
  unfold udp_decode_cap, udp_decode.
  destruct (blen data <? 4); [congruence|].
  destruct data as [|b0 [|b1 [|b2 [|b3 r']]]]; try congruence.
  destruct (negb (b0 / 64 =? 1)); [congruence|].
  destruct (max_token_size <? b0 mod 16); [congruence|].
  destruct (slice_from (b0 :: b1 :: b2 :: b3 :: r') 4) as [rest|]; [|congruence].
  destruct (blen rest <? b0 mod 16); [congruence|].
  destruct (slice_to rest (b0 mod 16)) as [token|]; [|congruence].
  destruct (slice_from rest (b0 mod 16)) as [rest1|]; [|congruence].
  destruct (unmarshal_opts_cap cap (S (length rest1)) rest1 0 [] 0) as [u|] eqn:U; [|discriminate].
  rewrite (unmarshal_cap_sound _ _ _ _ _ _ _ U).
  destruct u as [[proc os]|e|]; try congruence.
  destruct (slice_from rest1 proc); congruence.
Qed.

(* Message.decode with the udp coder: for EVERY datagram and every capacity the pooled message
   starts with, the loop ends within 2 + ceil(log2 len) attempts with the result of Model.udp_decode
   (so ErrOptionsTooSmall never reaches Conn.Process) *)
Theorem pool_decode_terminates data cap0 fuel : 0 <= cap0 -> (attempts_bound (blen data) <= fuel)%nat ->
  snd (pool_decode fuel cap0 data) = Some (udp_decode data).
Proof.
  intros H0 Hf. unfold pool_decode.
  apply (retry_loop_terminates cmsg (fun cap => udp_decode_cap cap data) (udp_decode data) (blen data)
           (udp_decode_cap_enough data) (udp_decode_cap_sound data) cap0 fuel H0 Hf).
Qed.

Theorem pool_decode_attempts data cap0 fuel : 0 <= cap0 ->
  (length (fst (pool_decode fuel cap0 data)) <= attempts_bound (blen data))%nat.
Proof.
  intros H0. unfold pool_decode.
  apply (retry_loop_attempts cmsg (fun cap => udp_decode_cap cap data) (udp_decode data) (blen data)
           (udp_decode_cap_enough data) (udp_decode_cap_sound data) cap0 fuel H0).
Qed.

(* ... and no table it allocates has more slots than max(16, 2 * len(datagram)) (or than the pooled
   message already had): the memory a peer can make the server allocate is linear in the datagram,
   whose length MaxMessageSize bounds *)
Theorem pool_decode_caps_bounded data cap0 fuel :
  Forall (fun c => c <= Z.max cap0 (Z.max 16 (2 * blen data))) (fst (pool_decode fuel cap0 data)).
Proof.
  unfold pool_decode.
  apply (retry_loop_caps_bounded cmsg (fun cap => udp_decode_cap cap data) (udp_decode data) (blen data)
           (udp_decode_cap_enough data)); lia.
Qed.

(* ------------------------------------------------------------------ *)
(* contrast (NOT the code): a ceiling on the growth with the same unconditional retry *)
(* ------------------------------------------------------------------ *)
(* NON GET, no token, n empty options with delta 1 (a few of them, e.g. numbers 3, 4, 35, 39, have an illegal length 0 and are skipped) *)
Definition flood (n : nat) : list Z := [80; 1; 18; 52] ++ repeat 16 n.

Lemma flood_1100_too_small_at_1024 : udp_decode_cap 1024 (flood 1100) = CTooSmall.
Proof. vm_compute. reflexivity. Qed.

Lemma capped_spins_from_ceiling : forall fuel,
  snd (retry_loop (grow_capped 1024) (fun cap => udp_decode_cap cap (flood 1100)) fuel 1024) = None.
Proof.
  induction fuel as [|fuel IH]; [reflexivity|].
  cbn [retry_loop]. rewrite flood_1100_too_small_at_1024.
  change (grow_capped 1024 1024) with 1024.
  destruct (retry_loop (grow_capped 1024) (fun cap => udp_decode_cap cap (flood 1100)) fuel 1024) as [t r].
  exact IH.
Qed.

(* from a fresh pooled message (capacity 0): 0, 16, 32, ..., 512, 1024, 1024, 1024, ... *)
Theorem capped_growth_spins : forall fuel,
  snd (retry_loop (grow_capped 1024) (fun cap => udp_decode_cap cap (flood 1100)) fuel 0) = None.
Proof.
  intro fuel.
  assert (T : forall c, In c [0; 16; 32; 64; 128; 256; 512] -> udp_decode_cap c (flood 1100) = CTooSmall).
  { intros c Hc. cbn [In] in Hc. repeat (destruct Hc as [<-|Hc]; [vm_compute; reflexivity|]). contradiction. }
  do 7 (destruct fuel as [|fuel]; [reflexivity|]; cbn [retry_loop]; rewrite T by (cbn [In]; tauto);
        match goal with |- context [grow_capped 1024 ?c] =>
          let v := eval vm_compute in (grow_capped 1024 c) in change (grow_capped 1024 c) with v end).
  pose proof (capped_spins_from_ceiling fuel) as L.
  destruct (retry_loop (grow_capped 1024) (fun cap => udp_decode_cap cap (flood 1100)) fuel 1024) as [t r].
  exact L.
Qed.

(* while the code's loop decodes the same datagram in 9 attempts: 0, 16, ..., 1024, 2048 *)
Example flood_1100_decoded :
  pool_decode 20 0 (flood 1100) = ([0; 16; 32; 64; 128; 256; 512; 1024; 2048], Some (udp_decode (flood 1100))).
Proof. vm_compute. reflexivity. Qed.
