(* Theorems about the accept level of the stream/DTLS servers (Server/Model.v, Part 5). *)
From Coq Require Import ZArith List Bool Lia.
From GoCoap Require Import Server.Model.
Import ListNotations.

(* ------------------------------------------------------------------ *)
(* the accept level (Model.v Part 5)                                   *)
(* ------------------------------------------------------------------ *)
Section AcceptProofs.
  Variables CS D O : Type.
  Variable conn_init : CS.
  Variable conn_step : CS -> D -> CS * list O.
  Variable early : bool.

  Notation step := (astep CS D O conn_init conn_step early).
  Notation run := (arun CS D O conn_init conn_step early).
  Notation lookup := (alookup CS).
  Notation update := (aupdate CS).
  Notation keep := (@aev_keep D).
  Notation mine := (@aout_of O).
  Notation tab := (ctab CS).

  Lemma alookup_update_same : forall c v (l : tab),
    lookup c (update c v l) = match lookup c l with Some _ => Some v | None => None end.
  Proof.
    intros c v l. induction l as [|[k w] r IH]; cbn; [reflexivity|].
    destruct (Nat.eqb k c) eqn:E; cbn; rewrite E; [reflexivity|exact IH].
  Qed.

  Lemma alookup_update_other : forall c c' v (l : tab), c' <> c -> lookup c (update c' v l) = lookup c l.
  Proof.
    intros c c' v l Hne. induction l as [|[k w] r IH]; cbn; [reflexivity|].
    destruct (Nat.eqb k c') eqn:E; cbn.
    - apply Nat.eqb_eq in E. subst k.
      destruct (Nat.eqb c' c) eqn:E2; [apply Nat.eqb_eq in E2; contradiction|reflexivity].
    - rewrite IH. reflexivity.
  Qed.

  Lemma alookup_all_gone : forall c (l : tab),
    lookup c (all_gone CS l) = match lookup c l with Some (_, cs) => Some (PhGone, cs) | None => None end.
  Proof.
    intros c l. induction l as [|[k [p cs]] r IH]; cbn; [reflexivity|].
    destruct (Nat.eqb k c); [reflexivity|exact IH].
  Qed.

  Lemma mine_out_other : forall c c' (os : list O), c' <> c -> filter (mine c) (map (AoOut c') os) = [].
  Proof.
    intros c c' os Hne. induction os as [|o r IH]; cbn; [reflexivity|].
    destruct (Nat.eqb c' c) eqn:E; [apply Nat.eqb_eq in E; contradiction|exact IH].
  Qed.

  (* THE MODELLED FACT: with the loop running, Accept's result is turned into a goroutine whatever the
     connections accepted earlier are doing -- in particular when every one of them is still in its handshake *)
  Lemma accept_never_waits : forall (s : astate CS) c,
    a_accepting s = true -> lookup c (a_conns s) = None ->
    step s (AvAccept c) =
      (AS true ((c, (PhHandshake, conn_init)) :: a_conns s), AoSpawn c :: (if early then [AoNew c] else [])).
  Proof. intros s c Ha Hl. cbn. rewrite Ha, Hl. reflexivity. Qed.

  (* two states look alike to connection c *)
  Definition asim (c : nat) (s s' : astate CS) : Prop :=
    a_accepting s = a_accepting s' /\ lookup c (a_conns s) = lookup c (a_conns s').

  Ltac fin := cbn; repeat split; congruence.

  Lemma astep_kept : forall c e (s s' : astate CS), keep c e = true -> asim c s s' ->
    asim c (fst (step s e)) (fst (step s' e)) /\ snd (step s e) = snd (step s' e).
  Proof.
    intros c e s s' Hk [Ha Hl]. unfold asim.
    destruct e as [k|ae d|k r|k d|k]; cbn [aev_keep] in Hk; try (apply Nat.eqb_eq in Hk; subst k); cbn.
    - rewrite <- Ha, <- Hl. destruct (a_accepting s) eqn:Ea; [|fin].
      destruct (lookup c (a_conns s)) eqn:El; [fin|].
      cbn. rewrite Nat.eqb_refl. fin.
    - rewrite <- Ha. destruct (a_accepting s) eqn:Ea; [|fin].
      destruct (check_accept_error ae d) as [[cont rep] st]. destruct cont; [fin|].
      cbn. rewrite !alookup_all_gone, Hl. fin.
    - rewrite <- Hl. destruct (lookup c (a_conns s)) as [[[| |] cs]|] eqn:El; try solve [fin].
      destruct r; cbn; rewrite !alookup_update_same, <- Hl, El; fin.
    - rewrite <- Hl. destruct (lookup c (a_conns s)) as [[[| |] cs]|] eqn:El; try solve [fin].
      destruct (conn_step cs d) as [cs' os]. cbn. rewrite !alookup_update_same, <- Hl, El. fin.
    - rewrite <- Hl. destruct (lookup c (a_conns s)) as [[[| |] cs]|] eqn:El; try solve [fin];
        cbn; rewrite !alookup_update_same, <- Hl, El; fin.
  Qed.

  Lemma astep_dropped : forall c e (s s' : astate CS), keep c e = false -> asim c s s' ->
    asim c (fst (step s e)) s' /\ filter (mine c) (snd (step s e)) = [].
  Proof.
    intros c e s s' Hk [Ha Hl]. unfold asim.
    destruct e as [k|ae d|k r|k d|k]; cbn [aev_keep] in Hk; try discriminate;
      assert (Hne : k <> c) by (intro; subst k; rewrite Nat.eqb_refl in Hk; discriminate); cbn.
    - destruct (a_accepting s) eqn:Ea; [|fin].
      destruct (lookup k (a_conns s)) eqn:El; [fin|].
      cbn. rewrite Hk. destruct early; cbn; rewrite ?Hk; fin.
    - destruct (lookup k (a_conns s)) as [[[| |] cs]|] eqn:El; try solve [fin].
      destruct r; cbn; rewrite alookup_update_other by exact Hne; destruct early; cbn; rewrite ?Hk; fin.
    - destruct (lookup k (a_conns s)) as [[[| |] cs]|] eqn:El; try solve [fin].
      destruct (conn_step cs d) as [cs' os]. cbn. rewrite alookup_update_other by exact Hne.
      rewrite mine_out_other by exact Hne. fin.
    - destruct (lookup k (a_conns s)) as [[[| |] cs]|] eqn:El; try solve [fin];
        cbn; rewrite alookup_update_other by exact Hne; rewrite Hk; fin.
  Qed.

  Lemma arun_sim : forall c evs (s s' : astate CS), asim c s s' ->
    filter (mine c) (snd (run s evs)) = filter (mine c) (snd (run s' (filter (keep c) evs))).
  Proof.
    intros c evs. induction evs as [|e r IH]; intros s s' Hs; [reflexivity|].
    cbn [filter]. destruct (keep c e) eqn:Hk.
    - destruct (astep_kept c e s s' Hk Hs) as [Hs1 Ho]. cbn [arun].
      destruct (step s e) as [s1 o1]. destruct (step s' e) as [s1' o1']. cbn [fst snd] in Hs1, Ho. subst o1'.
      specialize (IH s1 s1' Hs1).
      destruct (run s1 r) as [s2 o2]. destruct (run s1' (filter (keep c) r)) as [s2' o2']. cbn [snd] in *.
      rewrite !filter_app, IH. reflexivity.
    - destruct (astep_dropped c e s s' Hk Hs) as [Hs1 Ho]. cbn [arun].
      destruct (step s e) as [s1 o1]. cbn [fst snd] in Hs1, Ho.
      specialize (IH s1 s' Hs1). destruct (run s1 r) as [s2 o2]. cbn [snd] in *.
      rewrite filter_app, Ho, IH. reflexivity.
  Qed.

  Lemma asim_refl : forall c (s : astate CS), asim c s s. Proof. intros c s. split; reflexivity. Qed.

  (* non-interference at the accept level: what connection c gets (goroutine, announcement, outputs, errors) in
     ANY interleaving of the listener's results and all connections' goroutine events is what it gets when
     only the listener's errors and its own events happen *)
  Theorem accept_noninterference : forall c evs (s : astate CS),
    filter (mine c) (snd (run s evs)) = filter (mine c) (snd (run s (filter (keep c) evs))).
  Proof. intros c evs s. apply arun_sim. apply asim_refl. Qed.

  (* ... hence two histories that differ only in what OTHER connections do -- accepted or not, handshake
     completed, failed, or never finished (no AvHandshake event at all), whatever they sent -- give c the same *)
  Theorem stalled_handshake_isolated : forall c evs evs' (s : astate CS),
    filter (keep c) evs = filter (keep c) evs' ->
    filter (mine c) (snd (run s evs)) = filter (mine c) (snd (run s evs')).
  Proof.
    intros c evs evs' s H. rewrite (accept_noninterference c evs), (accept_noninterference c evs'), H. reflexivity.
  Qed.

  (* the loop keeps accepting through any history whose listener errors are of the continuing kind: handshake
     events (or their absence) have no influence on that *)
  Lemma arun_accepting : forall evs (s : astate CS), a_accepting s = true ->
    (forall e d, In (AvAcceptErr e d) evs -> fst (fst (check_accept_error e d)) = true) ->
    a_accepting (fst (run s evs)) = true.
  Proof.
    induction evs as [|e r IH]; intros s Ha Hok; [exact Ha|].
    cbn [arun]. destruct (step s e) as [s1 o1] eqn:Es.
    assert (Ha1 : a_accepting s1 = true).
    { destruct e as [k|ae d|k hr|k d|k]; cbn in Es.
      - rewrite Ha in Es. destruct (lookup k (a_conns s)); inversion Es; subst; [exact Ha|reflexivity].
      - rewrite Ha in Es. specialize (Hok ae d (or_introl eq_refl)).
        destruct (check_accept_error ae d) as [[cont rep] st]. cbn in Hok. subst cont. inversion Es; subst. exact Ha.
      - destruct (lookup k (a_conns s)) as [[[| |] cs]|]; try (inversion Es; subst; exact Ha).
        destruct hr; inversion Es; subst; exact Ha.
      - destruct (lookup k (a_conns s)) as [[[| |] cs]|]; try (inversion Es; subst; exact Ha).
        destruct (conn_step cs d); inversion Es; subst; exact Ha.
      - destruct (lookup k (a_conns s)) as [[[| |] cs]|]; inversion Es; subst; exact Ha. }
    specialize (IH s1 Ha1). destruct (run s1 r) as [s2 o2]. cbn [fst]. apply IH.
    intros e' d' Hin. apply Hok. right. exact Hin.
  Qed.

  (* a client that connects AFTER any history (stalled peers included) which left the loop running is
     accepted, announced and served exactly as if it were alone *)
  Theorem late_client_served : forall evs c d,
    (forall e x, In (AvAcceptErr e x) evs -> fst (fst (check_accept_error e x)) = true) ->
    lookup c (a_conns (fst (run (ainit CS) evs))) = None ->
    filter (mine c) (snd (run (fst (run (ainit CS) evs)) [AvAccept c; AvHandshake c HsOk; AvData c d])) =
      AoSpawn c :: AoNew c :: map (AoOut c) (snd (conn_step conn_init d)).
  Proof.
    intros evs c d Hok Hfresh.
    assert (Ha : a_accepting (fst (run (ainit CS) evs)) = true) by (apply arun_accepting; [reflexivity|exact Hok]).
    destruct (fst (run (ainit CS) evs)) as [acc conns]. cbn in Ha, Hfresh. subst acc.
    cbn. rewrite Hfresh. cbn. rewrite Nat.eqb_refl. cbn. rewrite Nat.eqb_refl. cbn.
    destruct (conn_step conn_init d) as [cs' os]. cbn.
    assert (Hf : filter (mine c) (map (AoOut c) os ++ []) = map (AoOut c) os).
    { rewrite app_nil_r. induction os as [|o r IH]; cbn; [reflexivity|]. rewrite Nat.eqb_refl, IH. reflexivity. }
    destruct early; cbn; rewrite ?Nat.eqb_refl; cbn; rewrite ?Nat.eqb_refl; rewrite Hf; reflexivity.
  Qed.
End AcceptProofs.

(* the what-if loop (handshake finished inside the accept loop) does NOT have the property: one connection that
   never finishes its handshake takes everything from a later one *)
Lemma inline_handshake_starves :
  exists (evs : list (@aev nat)) c,
    filter (@aout_of nat c) (snd (arun_inline unit nat nat tt (fun s d => (s, [d])) true (ainit unit) evs)) <>
    filter (@aout_of nat c) (snd (arun_inline unit nat nat tt (fun s d => (s, [d])) true (ainit unit) (filter (@aev_keep nat c) evs))).
Proof.
  exists [AvAccept 0%nat; AvAccept 1%nat; AvHandshake 1%nat HsOk; AvData 1%nat 7%nat], 1%nat.
  vm_compute. discriminate.
Qed.
