(* Theorems about the server dispatch model (Server/Model.v). *)
From Coq Require Import ZArith List Bool Lia.
From GoCoap Require Import Base.Bytes Gen.ServerConsts NoResp.Model Dedup.Model Server.Model.
Import ListNotations.
Open Scope Z_scope.

(* ---------- checkAcceptError ---------- *)
Lemma accept_stops_iff : forall e ctx_done,
  fst (fst (check_accept_error e ctx_done)) = false <->
  (e = AccListenerClosed \/ (e = AccDeadlineOrCanceled /\ ctx_done = true)).
Proof.
  intros e d; destruct e, d; cbn; split; intro H; try discriminate; auto;
    destruct H as [H | [H1 H2]]; try discriminate; auto.
Qed.
