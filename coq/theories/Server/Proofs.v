(* Theorems about the server dispatch model (Server/Model.v). *)
From Coq Require Import ZArith List Bool Lia.
From GoCoap Require Import Base.Bytes Gen.ServerConsts NoResp.Model Dedup.Model Server.Model.
Import ListNotations.
Open Scope Z_scope.

(* ---------- checkAcceptError ---------- *)
Lemma accept_stops_iff : forall e ctx_done,
  fst (fst (check_accept_error e ctx_done)) = false <->
  (e = AccListenerClosed \/ ((e = AccDeadline \/ e = AccCanceled) /\ ctx_done = true)).
Proof.
  intros e d; destruct e, d; cbn; split; intro H; try discriminate; auto;
    destruct H as [H | [[H1|H1] H2]]; try discriminate; auto.
Qed.

(* the accept loop never stops on nil / other errors while the context is live *)
Lemma accept_loop_continues : forall script calls served reported,
  (forall e d, In (e, d) script -> e <> AccListenerClosed /\ (e = AccDeadline \/ e = AccCanceled -> d = false)) ->
  fst (fst (accept_loop script calls served reported)) = None.
Proof.
  induction script as [|[e d] r IH]; intros calls served reported H; cbn [accept_loop]; [reflexivity|].
  destruct (H e d (or_introl eq_refl)) as [H1 H2].
  destruct e; cbn; try (apply IH; intros; apply H; right; assumption).
  - congruence.
  - rewrite (H2 (or_introl eq_refl)). cbn. apply IH; intros; apply H; right; assumption.
  - rewrite (H2 (or_intror eq_refl)). cbn. apply IH; intros; apply H; right; assumption.
Qed.

(* ---------- keys ---------- *)
Lemma ip_eqb_eq a b : ip_eqb a b = true <-> a = b.
Proof.
  destruct a, b; cbn; split; intro H; try discriminate; try reflexivity.
  - apply Bool.eqb_prop in H. congruence.
  - injection H as ->. apply Bool.eqb_reflx.
  - apply Z.eqb_eq in H. congruence.
  - injection H as ->. apply Z.eqb_refl.
  - apply Z.eqb_eq in H. congruence.
  - injection H as ->. apply Z.eqb_refl.
Qed.

Lemma addr_eqb_eq a b : addr_eqb a b = true <-> a = b.
Proof.
  destruct a as [i p z], b as [i' p' z']; unfold addr_eqb; cbn. split; intro H.
  - apply andb_prop in H as [H Hz]. apply andb_prop in H as [Hi Hp].
    apply ip_eqb_eq in Hi. apply Z.eqb_eq in Hp, Hz. congruence.
  - injection H as -> -> ->. rewrite !Z.eqb_refl. rewrite (proj2 (ip_eqb_eq i' i') eq_refl). reflexivity.
Qed.

Lemma key_eqb_eq a b : key_eqb a b = true <-> a = b.
Proof.
  destruct a as [r l], b as [r' l']; unfold key_eqb; cbn. split; intro H.
  - apply andb_prop in H as [H1 H2]. apply addr_eqb_eq in H1, H2. congruence.
  - injection H as -> ->. rewrite !(proj2 (addr_eqb_eq _ _) eq_refl). reflexivity.
Qed.
Lemma key_eqb_refl a : key_eqb a a = true. Proof. apply key_eqb_eq; reflexivity. Qed.
Lemma key_eqb_neq a b : a <> b -> key_eqb a b = false.
Proof. intro H. destruct (key_eqb a b) eqn:E; [apply key_eqb_eq in E; contradiction|reflexivity]. Qed.
Lemma addr_eqb_refl a : addr_eqb a a = true. Proof. apply addr_eqb_eq; reflexivity. Qed.

(* getConnKey never keeps a multicast or unspecified local IP, and is idempotent *)
Lemma norm_local_class l :
  ip_is_multicast (a_ip (norm_local l)) = false /\ ip_is_unspecified (a_ip (norm_local l)) = false.
Proof. destruct l as [[|s|g|h] p z]; cbn; auto. Qed.
Lemma norm_local_idem l : norm_local (norm_local l) = norm_local l.
Proof. destruct l as [[|s|g|h] p z]; cbn; auto. Qed.
(* all multicast groups and both wildcards of one port collapse to one key; concrete addresses are kept apart *)
Lemma conn_key_collapses r p z z' i i' :
  (ip_is_multicast i || ip_is_unspecified i = true) -> (ip_is_multicast i' || ip_is_unspecified i' = true) ->
  conn_key r {| a_ip := i; a_port := p; a_zone := z |} = conn_key r {| a_ip := i'; a_port := p; a_zone := z' |}.
Proof. destruct i, i'; cbn; intros; try discriminate; reflexivity. Qed.
Lemma conn_key_host_injective r r' h h' p p' z z' :
  conn_key r {| a_ip := IPhost h; a_port := p; a_zone := z |} = conn_key r' {| a_ip := IPhost h'; a_port := p'; a_zone := z' |} ->
  r = r' /\ h = h' /\ p = p' /\ z = z'.
Proof. cbn. intro H. injection H as -> -> -> ->. auto. Qed.
(* the wildcard fallback key is the key of the listener's wildcard address *)
Lemma wildcard_key r l six : can_fallback l = true ->
  conn_key r (to_wildcard l) = conn_key r {| a_ip := IPunspec six; a_port := a_port l; a_zone := 0 |}.
Proof. destruct l as [[|s|g|h] p z]; cbn; intros; try discriminate; reflexivity. Qed.

Lemma filter_comm {A} (p q : A -> bool) (l : list A) : filter p (filter q l) = filter q (filter p l).
Proof.
  induction l as [|x r IH]; [reflexivity|]. cbn [filter].
  destruct (q x) eqn:Eq; destruct (p x) eqn:Ep; cbn [filter]; rewrite ?Eq, ?Ep, IH; reflexivity.
Qed.

Lemma fallback_key_ne r l : can_fallback l = true -> conn_key r (to_wildcard l) <> conn_key r l.
Proof. destruct l as [[|six|g|h] p z]; cbn; intros H; discriminate. Qed.

(* ---------- the server ---------- *)
Section ServerProofs.
  Variables pstate datagram pout : Type.
  Variable peer_init : Z -> pstate.
  Variable peer_step : mhtab -> pstate -> datagram -> presult pstate pout.
  Variable recv_trunc : datagram -> datagram.

  Notation step := (step pstate datagram pout peer_init peer_step recv_trunc).
  Notation run := (run pstate datagram pout peer_init peer_step recv_trunc).
  Notation get_conn := (get_conn pstate pout peer_init).
  Notation get_or_create := (get_or_create pstate peer_init).
  Notation close_fn := (close_fn pstate).
  Notation set_conns := (set_conns pstate).
  Notation tab := (list (key * conn pstate)).

  Hypothesis peer_total : forall t st d, peer_step t st d <> PPanic.

  (* C10_total *)
  Theorem step_total : forall s e, step s e <> SPanic.
  Proof.
    intros s e. destruct e as [r lst dst d|r la lst|k| |tok rcv|tok|tok rcv]; cbn [Model.step]; try discriminate.
    - destruct (get_conn s r (dgram_laddr lst dst)) as [[s1 o1] [c|]]; [|discriminate].
      destruct (peer_step (mh s1) (c_st c) (recv_trunc d)) eqn:E; [discriminate|].
      exfalso. eapply peer_total; eassumption.
    - destruct (get_conn s r _) as [[s1 o1] [c|]]; discriminate.
    - destruct (mh_lookup (mh s) tok); discriminate.
    - destruct (mh_lookup (mh s) tok); discriminate.
  Qed.

  Theorem run_total : forall evs s, exists s' o, run s evs = Some (s', o).
  Proof.
    induction evs as [|e r IH]; intro s; cbn [Model.run]; [eauto|].
    destruct (step s e) as [s1 o|] eqn:E; [|exfalso; eapply step_total; eassumption].
    destruct (IH s1) as [s2 [os ->]]. eauto.
  Qed.

  (* ----- association-list facts ----- *)
  Definition own_key (kc : key * conn pstate) : Prop := c_key (snd kc) = fst kc.
  Definition okeys (l : tab) : Prop := Forall own_key l.

  Lemma lookup_In : forall (l : tab) k c, lookup l k = Some c -> In (k, c) l.
  Proof.
    induction l as [|[k' c'] r IH]; intros k c H; cbn in H; [discriminate|].
    destruct (key_eqb k k') eqn:E.
    - apply key_eqb_eq in E. injection H as <-. subst. left; reflexivity.
    - right. apply IH. assumption.
  Qed.
  Lemma lookup_own : forall (l : tab) k c, okeys l -> lookup l k = Some c -> c_key c = k.
  Proof.
    intros l k c Ho H. apply lookup_In in H. unfold okeys in Ho. rewrite Forall_forall in Ho.
    apply (Ho _ H).
  Qed.
  Lemma lookup_none_notin : forall (l : tab) k, lookup l k = None -> ~ In k (map fst l).
  Proof.
    induction l as [|[k' c'] r IH]; intros k H; cbn in *; [tauto|].
    destruct (key_eqb k k') eqn:E; [discriminate|].
    intros [Hk|Hk]; [subst; rewrite key_eqb_refl in E; discriminate|]. eapply IH; eassumption.
  Qed.
  Lemma In_remove : forall (l : tab) k x, In x (remove l k) -> In x l /\ fst x <> k.
  Proof.
    induction l as [|[k' c'] r IH]; intros k x H; cbn in *; [tauto|].
    destruct (key_eqb k k') eqn:E.
    - destruct (IH _ _ H). auto.
    - destruct H as [<-|H]; [split; [auto|]|destruct (IH _ _ H); auto].
      cbn. intro; subst. rewrite key_eqb_refl in E. discriminate.
  Qed.
  Lemma okeys_remove : forall (l : tab) k, okeys l -> okeys (remove l k).
  Proof.
    unfold okeys. intros l k H. rewrite Forall_forall in *. intros x Hx. apply In_remove in Hx as [Hx _]. auto.
  Qed.
  Lemma okeys_update : forall (l : tab) k f, (forall c, c_key (f c) = c_key c) -> okeys l -> okeys (update l k f).
  Proof.
    induction l as [|[k' c'] r IH]; intros k f Hf H; cbn; [constructor|].
    inversion H as [|? ? H1 H2]; subst.
    destruct (key_eqb k k'); constructor; auto.
    - unfold own_key in *. cbn in *. rewrite Hf. assumption.
    - apply IH; assumption.
  Qed.
  Lemma okeys_filter : forall (l : tab) p, okeys l -> okeys (filter p l).
  Proof.
    unfold okeys. intros l p H. rewrite Forall_forall in *. intros x Hx. apply filter_In in Hx as [Hx _]. auto.
  Qed.
  Lemma map_fst_update : forall (l : tab) k f, map fst (update l k f) = map fst l.
  Proof.
    induction l as [|[k' c'] r IH]; intros k f; cbn; [reflexivity|].
    destruct (key_eqb k k'); cbn; [reflexivity|]. rewrite IH. reflexivity.
  Qed.
  Lemma NoDup_remove_keys : forall (l : tab) k, NoDup (map fst l) -> NoDup (map fst (remove l k)).
  Proof.
    induction l as [|[k' c'] r IH]; intros k H; cbn in *; [constructor|].
    inversion H as [|? ? H1 H2]; subst.
    destruct (key_eqb k k'); [apply IH; assumption|]. cbn. constructor; [|apply IH; assumption].
    intro Hin. apply H1. apply in_map_iff in Hin as [x [Hx1 Hx2]]. apply In_remove in Hx2 as [Hx2 _].
    apply in_map_iff. eauto.
  Qed.
  Lemma NoDup_filter_keys : forall (l : tab) p, NoDup (map fst l) -> NoDup (map fst (filter p l)).
  Proof.
    induction l as [|[k' c'] r IH]; intros p H; cbn in *; [constructor|].
    inversion H as [|? ? H1 H2]; subst.
    destruct (p (k', c')); [|apply IH; assumption]. cbn. constructor; [|apply IH; assumption].
    intro Hin. apply H1. apply in_map_iff in Hin as [x [Hx1 Hx2]]. apply filter_In in Hx2 as [Hx2 _].
    apply in_map_iff. eauto.
  Qed.

  Lemma lookup_remove_same : forall (l : tab) k, lookup (remove l k) k = None.
  Proof.
    induction l as [|[k' c'] r IH]; intros k; cbn; [reflexivity|].
    destruct (key_eqb k k') eqn:E; [apply IH|]. cbn. rewrite E. apply IH.
  Qed.
  Lemma lookup_remove_other : forall (l : tab) k k', k' <> k -> lookup (remove l k) k' = lookup l k'.
  Proof.
    induction l as [|[k0 c0] r IH]; intros k k' H; cbn; [reflexivity|].
    destruct (key_eqb k k0) eqn:E.
    - apply key_eqb_eq in E. subst. rewrite (key_eqb_neq _ _ H). apply IH; assumption.
    - cbn. destruct (key_eqb k' k0); [reflexivity|]. apply IH; assumption.
  Qed.
  Lemma lookup_update_same : forall (l : tab) k f c, lookup l k = Some c -> lookup (update l k f) k = Some (f c).
  Proof.
    induction l as [|[k0 c0] r IH]; intros k f c H; cbn in *; [discriminate|].
    destruct (key_eqb k k0) eqn:E; cbn; rewrite E; [congruence|]. apply IH; assumption.
  Qed.
  Lemma lookup_update_other : forall (l : tab) k k' f, k' <> k -> lookup (update l k f) k' = lookup l k'.
  Proof.
    induction l as [|[k0 c0] r IH]; intros k k' f H; cbn; [reflexivity|].
    destruct (key_eqb k k0) eqn:E; cbn.
    - apply key_eqb_eq in E. subst. rewrite (key_eqb_neq _ _ H). reflexivity.
    - destruct (key_eqb k' k0); [reflexivity|]. apply IH; assumption.
  Qed.

  (* ----- projection of the table on one remote address ----- *)
  Definition proj (a : addr) (l : tab) : tab := filter (fun kc => addr_eqb (fst (fst kc)) a) l.

  Lemma lookup_proj : forall a (l : tab) k, fst k = a -> lookup (proj a l) k = lookup l k.
  Proof.
    unfold proj.
    induction l as [|[k' c'] r IH]; intros k H; cbn; [reflexivity|].
    destruct (addr_eqb (fst k') a) eqn:Ea; cbn.
    - destruct (key_eqb k k'); [reflexivity|]. apply IH; assumption.
    - destruct (key_eqb k k') eqn:E; [|apply IH; assumption].
      apply key_eqb_eq in E. subst k'. rewrite H, addr_eqb_refl in Ea. discriminate.
  Qed.
  Lemma proj_remove_same : forall a (l : tab) k, proj a (remove l k) = remove (proj a l) k.
  Proof.
    unfold proj.
    induction l as [|[k' c'] r IH]; intros k; cbn; [reflexivity|].
    destruct (key_eqb k k') eqn:E; destruct (addr_eqb (fst k') a) eqn:Ea; cbn; rewrite ?E, ?Ea; rewrite ?IH; reflexivity.
  Qed.
  Lemma remove_absent : forall (l : tab) k, (forall x, In x l -> fst x <> k) -> remove l k = l.
  Proof.
    induction l as [|[k' c'] r IH]; intros k H; cbn; [reflexivity|].
    rewrite key_eqb_neq; [|intro; subst; apply (H (k', c')); [left; reflexivity|reflexivity]].
    rewrite IH; [reflexivity|]. intros; apply H; right; assumption.
  Qed.
  Lemma proj_remove_other : forall a (l : tab) k, fst k <> a -> proj a (remove l k) = proj a l.
  Proof.
    intros a l k H. rewrite proj_remove_same. apply remove_absent.
    intros x Hx. apply filter_In in Hx as [_ Hx]. apply addr_eqb_eq in Hx. intro; subst. contradiction.
  Qed.
  Lemma proj_update_same : forall a (l : tab) k f, proj a (update l k f) = update (proj a l) k f.
  Proof.
    unfold proj.
    induction l as [|[k' c'] r IH]; intros k f; cbn; [reflexivity|].
    destruct (key_eqb k k') eqn:E; destruct (addr_eqb (fst k') a) eqn:Ea; cbn; rewrite ?E, ?Ea; cbn; rewrite ?E, ?IH; try reflexivity.
    (* key matches but address does not: the projected list has no entry under k *)
    apply key_eqb_eq in E. subst k'.
    symmetry. clear IH. induction r as [|[k2 c2] r IH2]; cbn; [reflexivity|].
    destruct (addr_eqb (fst k2) a) eqn:E2; cbn; [|assumption].
    rewrite key_eqb_neq; [rewrite IH2; reflexivity|]. intro; subst. rewrite Ea in E2. discriminate.
  Qed.
  Lemma update_absent : forall (l : tab) k f, (forall x, In x l -> fst x <> k) -> update l k f = l.
  Proof.
    induction l as [|[k' c'] r IH]; intros k f H; cbn; [reflexivity|].
    rewrite key_eqb_neq; [|intro; subst; apply (H (k', c')); [left; reflexivity|reflexivity]].
    rewrite IH; [reflexivity|]. intros; apply H; right; assumption.
  Qed.
  Lemma proj_update_other : forall a (l : tab) k f, fst k <> a -> proj a (update l k f) = proj a l.
  Proof.
    intros a l k f H. rewrite proj_update_same. apply update_absent.
    intros x Hx. apply filter_In in Hx as [_ Hx]. apply addr_eqb_eq in Hx. intro; subst. contradiction.
  Qed.
  Lemma proj_filter : forall a p (l : tab), proj a (filter p l) = filter p (proj a l).
  Proof. intros. unfold proj. apply filter_comm. Qed.

  (* ----- what get_or_create / get_conn guarantee about the table ----- *)
  Definition wf (s : sstate pstate) : Prop := okeys (conns s).

  Lemma goc_spec : forall s r l s' c cr, wf s -> get_or_create s r l = (s', c, cr) ->
    wf s' /\ lookup (conns s') (c_key c) = Some c /\ fst (c_key c) = r /\ mh s' = mh s
    /\ (cr = false -> s' = s) /\ (cr = true -> c_closed c = false).
  Proof.
    intros s r l s' c cr Hwf H. unfold Model.get_or_create in H.
    destruct (lookup (conns s) (conn_key r l)) as [c0|] eqn:E1.
    - injection H as <- <- <-. pose proof (lookup_own _ _ _ Hwf E1) as Hk.
      rewrite Hk. repeat split; auto; discriminate.
    - destruct (if can_fallback l then lookup (conns s) (conn_key r (to_wildcard l)) else None) as [c0|] eqn:E2.
      + injection H as <- <- <-. destruct (can_fallback l); [|discriminate].
        pose proof (lookup_own _ _ _ Hwf E2) as Hk. rewrite Hk. repeat split; auto; discriminate.
      + injection H as <- <- <-. cbn. rewrite key_eqb_refl. repeat split; auto; try discriminate.
        constructor; [reflexivity|exact Hwf].
  Qed.

  Lemma close_fn_eq : forall s c, lookup (conns s) (c_key c) = Some c ->
    close_fn s c = set_conns s (remove (conns s) (c_key c)).
  Proof. intros s c H. unfold Model.close_fn. rewrite H, Z.eqb_refl. reflexivity. Qed.

  (* ----- relation between two runs, seen from remote address a ----- *)
  Variable sim : pstate -> pstate -> Prop.
  Variable eout : Type.
  Variable erase : pout -> eout.
  Hypothesis sim_init : forall g1 g2, sim (peer_init g1) (peer_init g2).
  Hypothesis sim_step : forall t s1 s2 d, sim s1 s2 ->
    match peer_step t s1 d, peer_step t s2 d with
    | POk s1' o1 e1 _, POk s2' o2 e2 _ => sim s1' s2' /\ map erase o1 = map erase o2 /\ e1 = e2
    | _, _ => False
    end.

  Definition crel1 (c1 c2 : conn pstate) : Prop :=
    c_key c1 = c_key c2 /\ c_closed c1 = c_closed c2 /\ sim (c_st c1) (c_st c2).
  Definition crel (l1 l2 : tab) : Prop :=
    Forall2 (fun x y => fst x = fst y /\ crel1 (snd x) (snd y)) l1 l2.
  Definition rel (a : addr) (s1 s2 : sstate pstate) : Prop :=
    mh s1 = mh s2 /\ crel (proj a (conns s1)) (proj a (conns s2)).

  Lemma crel_lookup : forall l1 l2 k, crel l1 l2 ->
    match lookup l1 k, lookup l2 k with
    | Some c1, Some c2 => crel1 c1 c2
    | None, None => True
    | _, _ => False
    end.
  Proof.
    induction 1 as [|[k1 c1] [k2 c2] r1 r2 [Hk Hc] Hr IH]; cbn; [exact I|]. cbn in Hk. subst k2.
    destruct (key_eqb k k1); [assumption|exact IH].
  Qed.
  Lemma crel_remove : forall l1 l2 k, crel l1 l2 -> crel (remove l1 k) (remove l2 k).
  Proof.
    induction 1 as [|[k1 c1] [k2 c2] r1 r2 [Hk Hc] Hr IH]; cbn; [constructor|]. cbn in Hk. subst k2.
    destruct (key_eqb k k1); [assumption|]. constructor; [split; [reflexivity|assumption]|assumption].
  Qed.
  Lemma crel_update : forall l1 l2 k f1 f2, (forall c1 c2, crel1 c1 c2 -> crel1 (f1 c1) (f2 c2)) ->
    crel l1 l2 -> crel (update l1 k f1) (update l2 k f2).
  Proof.
    intros l1 l2 k f1 f2 Hf. induction 1 as [|[k1 c1] [k2 c2] r1 r2 [Hk Hc] Hr IH]; cbn; [constructor|]. cbn in Hk. subst k2.
    destruct (key_eqb k k1); constructor; auto; split; cbn; auto.
  Qed.
  Lemma crel_filter_open : forall l1 l2, crel l1 l2 ->
    crel (filter (fun kc => negb (c_closed (snd kc))) l1) (filter (fun kc => negb (c_closed (snd kc))) l2).
  Proof.
    induction 1 as [|[k1 c1] [k2 c2] r1 r2 [Hk Hc] Hr IH]; cbn; [constructor|].
    destruct Hc as [H1 [H2 H3]]. cbn [fst snd] in *. cbn [filter snd]. rewrite <- H2.
    destruct (c_closed c1) eqn:Ec; cbn [negb]; [exact IH|]. constructor; [|exact IH]. cbn [fst snd]. repeat split; try assumption.
    congruence.
  Qed.

  Lemma proj_cons_same : forall a k (c : conn pstate) l, fst k = a -> proj a ((k, c) :: l) = (k, c) :: proj a l.
  Proof. intros a k c l H. unfold proj. cbn. rewrite H, addr_eqb_refl. reflexivity. Qed.
  Lemma proj_cons_other : forall a k (c : conn pstate) l, fst k <> a -> proj a ((k, c) :: l) = proj a l.
  Proof.
    intros a k c l H. unfold proj. cbn. destruct (addr_eqb (fst k) a) eqn:E; [|reflexivity].
    apply addr_eqb_eq in E. contradiction.
  Qed.

  (* erased server outputs: connection identities are pointers, not observable by a peer *)
  Inductive esout :=
  | ENew (r : addr) | EOut (k : key) (o : eout) | EErrProcess (r : addr) | EErrGetConn (r : addr)
  | EConn (r : addr) | EErrNewConn (r : addr) | EDiscExists | EDiscSendErr.
  Definition erase_out (o : sout pout) : esout :=
    match o with
    | SNew r _ => ENew r | SOut _ k x => EOut k (erase x) | SErrProcess r _ => EErrProcess r
    | SErrGetConn r => EErrGetConn r | SConn r _ => EConn r | SErrNewConn r => EErrNewConn r | SDiscExists => EDiscExists
    | SDiscSendErr => EDiscSendErr
    end.
  Definition for_peer (a : addr) (o : sout pout) : bool :=
    match out_peer o with Some r => addr_eqb r a | None => false end.
  Definition eproj (a : addr) (os : list (sout pout)) : list esout := map erase_out (filter (for_peer a) os).

  Lemma eproj_app a o1 o2 : eproj a (o1 ++ o2) = eproj a o1 ++ eproj a o2.
  Proof. unfold eproj. rewrite filter_app, map_app. reflexivity. Qed.

  (* get_or_create on both sides *)
  Lemma goc_rel : forall a s1 s2 l s1' c1 cr1 s2' c2 cr2, rel a s1 s2 ->
    get_or_create s1 a l = (s1', c1, cr1) -> get_or_create s2 a l = (s2', c2, cr2) ->
    cr1 = cr2 /\ crel1 c1 c2 /\ rel a s1' s2'.
  Proof.
    intros a s1 s2 l s1' c1 cr1 s2' c2 cr2 [Hm Hc] H1 H2. unfold Model.get_or_create in *.
    pose proof (crel_lookup _ _ (conn_key a l) Hc) as HL.
    rewrite !lookup_proj in HL by reflexivity.
    destruct (lookup (conns s1) (conn_key a l)) as [x1|]; destruct (lookup (conns s2) (conn_key a l)) as [x2|]; try contradiction.
    - injection H1 as <- <- <-. injection H2 as <- <- <-. repeat split; try apply HL; assumption.
    - pose proof (crel_lookup _ _ (conn_key a (to_wildcard l)) Hc) as HW.
      rewrite !lookup_proj in HW by reflexivity.
      destruct (can_fallback l).
      + destruct (lookup (conns s1) (conn_key a (to_wildcard l))) as [x1|];
          destruct (lookup (conns s2) (conn_key a (to_wildcard l))) as [x2|]; try contradiction.
        * injection H1 as <- <- <-. injection H2 as <- <- <-. repeat split; try apply HW; assumption.
        * injection H1 as <- <- <-. injection H2 as <- <- <-.
          split; [reflexivity|]. split; [unfold crel1; cbn [c_key c_closed c_st]; auto|].
          unfold rel. cbn [mh conns]. split; [assumption|].
          rewrite !proj_cons_same by reflexivity. constructor; [|assumption]. cbn [fst snd]. unfold crel1; cbn [c_key c_closed c_st]. auto.
      + injection H1 as <- <- <-. injection H2 as <- <- <-.
          split; [reflexivity|]. split; [unfold crel1; cbn [c_key c_closed c_st]; auto|].
          unfold rel. cbn [mh conns]. split; [assumption|].
          rewrite !proj_cons_same by reflexivity. constructor; [|assumption]. cbn [fst snd]. unfold crel1; cbn [c_key c_closed c_st]. auto.
  Qed.

  Lemma set_conns_remove_rel : forall a s1 s2 k, rel a s1 s2 ->
    rel a (set_conns s1 (remove (conns s1) k)) (set_conns s2 (remove (conns s2) k)).
  Proof.
    intros a s1 s2 k [Hm Hc]. split; [exact Hm|]. cbn [Model.set_conns conns]. rewrite !proj_remove_same. apply crel_remove. assumption.
  Qed.

  Lemma wf_set_remove : forall s k, wf s -> wf (set_conns s (remove (conns s) k)).
  Proof. intros. unfold wf. cbn. apply okeys_remove. assumption. Qed.

  (* get_conn on both sides *)
  Lemma get_conn_rel : forall a s1 s2 l s1' o1 r1 s2' o2 r2, rel a s1 s2 -> wf s1 -> wf s2 ->
    get_conn s1 a l = (s1', o1, r1) -> get_conn s2 a l = (s2', o2, r2) ->
    rel a s1' s2' /\ wf s1' /\ wf s2' /\ map erase_out o1 = map erase_out o2 /\ Forall (fun o => for_peer a o = true) o1
    /\ Forall (fun o => for_peer a o = true) o2 /\
    match r1, r2 with
    | Some c1, Some c2 => crel1 c1 c2 /\ lookup (conns s1') (c_key c1) = Some c1 /\ lookup (conns s2') (c_key c2) = Some c2
                          /\ fst (c_key c1) = a
    | None, None => True
    | _, _ => False
    end.
  Proof.
    intros a s1 s2 l s1' o1 r1 s2' o2 r2 Hrel Hw1 Hw2 H1 H2. unfold Model.get_conn in *.
    destruct (get_or_create s1 a l) as [[t1 c1] cr1] eqn:G1. destruct (get_or_create s2 a l) as [[t2 c2] cr2] eqn:G2.
    destruct (goc_rel _ _ _ _ _ _ _ _ _ _ Hrel G1 G2) as [Hcr [Hc Hr]]. subst cr2.
    destruct (goc_spec _ _ _ _ _ _ Hw1 G1) as [Hwt1 [Hl1 [Hf1 _]]].
    destruct (goc_spec _ _ _ _ _ _ Hw2 G2) as [Hwt2 [Hl2 [Hf2 _]]].
    assert (Hnew : forall (b : bool) (x y : Z), Forall (fun o : sout pout => for_peer a o = true) (if b then [SNew a x] else [])).
    { intros [|] x y; constructor; [|constructor]. unfold for_peer; cbn. apply addr_eqb_refl. }
    destruct Hc as [Hk [Hcl Hs]]. rewrite <- Hcl in H2.
    destruct (c_closed c1) eqn:Ecl.
    - rewrite (close_fn_eq _ _ Hl1) in H1. rewrite (close_fn_eq _ _ Hl2) in H2. rewrite <- Hk in H2.
      pose proof (set_conns_remove_rel a t1 t2 (c_key c1) Hr) as Hr2.
      pose proof (wf_set_remove t1 (c_key c1) Hwt1) as Hw1'. pose proof (wf_set_remove t2 (c_key c1) Hwt2) as Hw2'.
      destruct (get_or_create (set_conns t1 _) a l) as [[u1 d1] dr1] eqn:G1'.
      destruct (get_or_create (set_conns t2 _) a l) as [[u2 d2] dr2] eqn:G2'.
      destruct (goc_rel _ _ _ _ _ _ _ _ _ _ Hr2 G1' G2') as [Hdr [Hd Hr3]]. subst dr2.
      destruct (goc_spec _ _ _ _ _ _ Hw1' G1') as [Hwu1 [Hm1 [Hg1 _]]].
      destruct (goc_spec _ _ _ _ _ _ Hw2' G2') as [Hwu2 [Hm2 [Hg2 _]]].
      destruct Hd as [Hdk [Hdc Hds]]. rewrite <- Hdc in H2.
      destruct (c_closed d1) eqn:Edc.
      + rewrite (close_fn_eq _ _ Hm1) in H1. rewrite (close_fn_eq _ _ Hm2) in H2. rewrite <- Hdk in H2.
        injection H1 as <- <- <-. injection H2 as <- <- <-.
        split; [apply set_conns_remove_rel; assumption|].
        split; [apply wf_set_remove; assumption|]. split; [apply wf_set_remove; assumption|].
        split; [rewrite !map_app; destruct cr1, dr1; reflexivity|].
        split; [apply Forall_app; split; apply Hnew; exact 0|].
        split; [apply Forall_app; split; apply Hnew; exact 0|]. exact I.
      + injection H1 as <- <- <-. injection H2 as <- <- <-.
        split; [assumption|]. split; [assumption|]. split; [assumption|].
        split; [rewrite !map_app; destruct cr1, dr1; reflexivity|].
        split; [apply Forall_app; split; apply Hnew; exact 0|].
        split; [apply Forall_app; split; apply Hnew; exact 0|].
        unfold crel1. repeat split; auto; congruence.
    - injection H1 as <- <- <-. injection H2 as <- <- <-.
      split; [assumption|]. split; [assumption|]. split; [assumption|].
      split; [destruct cr1; reflexivity|].
      split; [apply Hnew; exact 0|]. split; [apply Hnew; exact 0|].
      unfold crel1. repeat split; auto; congruence.
  Qed.

  Lemma goc_other : forall s r l s' c cr a, get_or_create s r l = (s', c, cr) -> a <> r ->
    proj a (conns s') = proj a (conns s).
  Proof.
    intros s r l s' c cr a H Ha. unfold Model.get_or_create in H.
    destruct (lookup (conns s) (conn_key r l)); [injection H as <- _ _; reflexivity|].
    destruct (if can_fallback l then lookup (conns s) (conn_key r (to_wildcard l)) else None);
      injection H as <- _ _; [reflexivity|]. cbn [conns]. apply proj_cons_other. cbn. auto.
  Qed.

  Definition from_peer (r : addr) (o : sout pout) : Prop := out_peer o = Some r.

  Lemma get_conn_spec : forall s r l s' o res, wf s -> get_conn s r l = (s', o, res) ->
    wf s' /\ mh s' = mh s /\ (forall a, a <> r -> proj a (conns s') = proj a (conns s)) /\ Forall (from_peer r) o /\
    match res with
    | Some c => lookup (conns s') (c_key c) = Some c /\ fst (c_key c) = r /\ c_closed c = false
    | None => True
    end.
  Proof.
    intros s r l s' o res Hw H. unfold Model.get_conn in H.
    destruct (get_or_create s r l) as [[t c] cr] eqn:G.
    destruct (goc_spec _ _ _ _ _ _ Hw G) as [Hwt [Hl [Hf [Hm _]]]].
    assert (Hnew : forall (b : bool) (x : Z), Forall (from_peer r) (if b then [SNew r x] else [])).
    { intros [|] x; constructor; [reflexivity|constructor]. }
    destruct (c_closed c) eqn:Ecl.
    - rewrite (close_fn_eq _ _ Hl) in H.
      pose proof (wf_set_remove t (c_key c) Hwt) as Hw'.
      destruct (get_or_create (set_conns t _) r l) as [[u d] dr] eqn:G'.
      destruct (goc_spec _ _ _ _ _ _ Hw' G') as [Hwu [Hm1 [Hg1 [Hmm _]]]].
      assert (Hp : forall a, a <> r -> proj a (conns u) = proj a (conns s)).
      { intros a Ha. rewrite (goc_other _ _ _ _ _ _ a G' Ha). cbn [Model.set_conns conns].
        rewrite proj_remove_other by (rewrite Hf; auto). apply (goc_other _ _ _ _ _ _ a G Ha). }
      destruct (c_closed d) eqn:Edc.
      + rewrite (close_fn_eq _ _ Hm1) in H. injection H as <- <- <-.
        split; [apply wf_set_remove; assumption|]. split; [cbn [Model.set_conns mh] in *; congruence|].
        split; [|split; [apply Forall_app; split; apply Hnew|exact I]].
        intros a Ha. cbn [Model.set_conns conns]. rewrite proj_remove_other by (rewrite Hg1; auto). auto.
      + injection H as <- <- <-. split; [assumption|]. split; [cbn [Model.set_conns mh] in *; congruence|]. split; [assumption|].
        split; [apply Forall_app; split; apply Hnew|]. auto.
    - injection H as <- <- <-. split; [assumption|]. split; [assumption|].
      split; [intros a Ha; apply (goc_other _ _ _ _ _ _ a G Ha)|]. split; [apply Hnew|]. auto.
  Qed.

  Lemma eproj_all : forall a o, Forall (fun x => for_peer a x = true) o -> eproj a o = map erase_out o.
  Proof.
    intros a o H. unfold eproj. f_equal. induction H as [|x r Hx Hr IH]; cbn; [reflexivity|]. rewrite Hx, IH. reflexivity.
  Qed.
  Lemma eproj_none : forall a b o, Forall (from_peer b) o -> a <> b -> eproj a o = [].
  Proof.
    intros a b o H Hab. unfold eproj. induction H as [|x r Hx Hr IH]; cbn; [reflexivity|].
    unfold for_peer at 1. rewrite Hx. destruct (addr_eqb b a) eqn:E; [apply addr_eqb_eq in E; congruence|]. exact IH.
  Qed.
  Lemma from_for : forall a o, Forall (from_peer a) o -> Forall (fun x => for_peer a x = true) o.
  Proof.
    intros a o H. induction H as [|x r Hx Hr IH]; constructor; [|assumption].
    unfold for_peer. rewrite Hx. apply addr_eqb_refl.
  Qed.

  Definition upd_conn (err : bool) (st' : pstate) (c0 : conn pstate) : conn pstate :=
    {| c_id := c_id c0; c_key := c_key c0; c_closed := err; c_st := st' |}.
  Definition close_conn (c0 : conn pstate) : conn pstate :=
    {| c_id := c_id c0; c_key := c_key c0; c_closed := true; c_st := c_st c0 |}.

  (* one step keeps the table well-formed, leaves every other remote address's entries alone
     and emits only for the event's own address *)
  Lemma step_spec : forall s e s' o, wf s -> step s e = SOk s' o ->
    wf s' /\
    match ev_peer e with
    | Some r => mh s' = mh s /\ (forall a, a <> r -> proj a (conns s') = proj a (conns s)) /\ Forall (from_peer r) o
    | None => True
    end.
  Proof.
    intros s e s' o Hw H. destruct e as [r lst dst d|r la lst|k| |tok rcv|tok|tok rcv]; cbn [Model.step ev_peer] in *.
    - destruct (get_conn s r (dgram_laddr lst dst)) as [[s1 o1] res] eqn:G.
      destruct (get_conn_spec _ _ _ _ _ _ Hw G) as [Hw1 [Hm [Hp [Ho Hres]]]].
      destruct res as [c|].
      + destruct (peer_step (mh s1) (c_st c) (recv_trunc d)) as [st' outs err n|] eqn:P; [|discriminate].
        injection H as <- <-. destruct Hres as [Hl [Hf Hcl]].
        split; [unfold wf; cbn [conns]; apply okeys_update; [reflexivity|assumption]|].
        split; [assumption|]. split.
        * intros a Ha. cbn [conns]. rewrite proj_update_other by (rewrite Hf; auto). auto.
        * apply Forall_app; split; [assumption|]. apply Forall_app; split.
          -- apply Forall_forall. intros x Hx. apply in_map_iff in Hx as [y [<- _]]. unfold from_peer; cbn. congruence.
          -- destruct err; constructor; [reflexivity|constructor].
      + injection H as <- <-. split; [assumption|]. split; [assumption|]. split; [assumption|].
        apply Forall_app; split; [assumption|]. constructor; [reflexivity|constructor].
    - destruct (get_conn s r _) as [[s1 o1] res] eqn:G.
      destruct (get_conn_spec _ _ _ _ _ _ Hw G) as [Hw1 [Hm [Hp [Ho Hres]]]].
      destruct res as [c|]; injection H as <- <-; (split; [assumption|]); (split; [assumption|]); (split; [assumption|]);
        (apply Forall_app; split; [assumption|]); constructor; try reflexivity; constructor.
    - injection H as <- <-. split; [unfold wf; cbn [Model.set_conns conns]; apply okeys_update; [reflexivity|assumption]|].
      split; [reflexivity|]. split; [|constructor].
      intros a Ha. cbn [Model.set_conns conns]. apply proj_update_other. cbn in Ha. congruence.
    - injection H as <- <-. split; [|exact I]. unfold wf; cbn [Model.set_conns conns]. apply okeys_filter. assumption.
    - destruct (mh_lookup (mh s) tok); injection H as <- <-; split; auto.
    - injection H as <- <-. split; auto.
    - destruct (mh_lookup (mh s) tok); injection H as <- <-; split; auto.
  Qed.

  Definition relevant (a : addr) (e : ev datagram) : bool :=
    match ev_peer e with Some r => addr_eqb r a | None => true end.

  Lemma step_other : forall a s e s' o b, wf s -> ev_peer e = Some b -> b <> a -> step s e = SOk s' o ->
    wf s' /\ mh s' = mh s /\ proj a (conns s') = proj a (conns s) /\ eproj a o = [].
  Proof.
    intros a s e s' o b Hw He Hb H. destruct (step_spec _ _ _ _ Hw H) as [Hw' Hs]. rewrite He in Hs.
    destruct Hs as [Hm [Hp Ho]]. split; [assumption|]. split; [assumption|]. split; [apply Hp; auto|].
    eapply eproj_none; eauto.
  Qed.

  Lemma step_rel : forall a s1 s2 e s1' o1 s2' o2, rel a s1 s2 -> wf s1 -> wf s2 -> relevant a e = true ->
    step s1 e = SOk s1' o1 -> step s2 e = SOk s2' o2 ->
    rel a s1' s2' /\ eproj a o1 = eproj a o2.
  Proof.
    intros a s1 s2 e s1' o1 s2' o2 Hrel Hw1 Hw2 Hre H1 H2. unfold relevant in Hre.
    destruct e as [r lst dst d|r la lst|k| |tok rcv|tok|tok rcv]; cbn [Model.step ev_peer] in *.
    - apply addr_eqb_eq in Hre. subst r.
      destruct (get_conn s1 a (dgram_laddr lst dst)) as [[t1 p1] r1] eqn:G1.
      destruct (get_conn s2 a (dgram_laddr lst dst)) as [[t2 p2] r2] eqn:G2.
      destruct (get_conn_rel _ _ _ _ _ _ _ _ _ _ Hrel Hw1 Hw2 G1 G2) as [Hr [Hwt1 [Hwt2 [Hmo [Hf1 [Hf2 Hres]]]]]].
      destruct r1 as [c1|], r2 as [c2|]; try contradiction.
      + destruct Hres as [[Hk [Hcl Hs]] [Hl1 [Hl2 Hfa]]]. destruct Hr as [Hmh Hcr].
        pose proof (sim_step (mh t1) _ _ (recv_trunc d) Hs) as HS. rewrite <- Hmh in H2.
        destruct (peer_step (mh t1) (c_st c1) (recv_trunc d)) as [st1 out1 e1 n1|]; [|contradiction].
        destruct (peer_step (mh t1) (c_st c2) (recv_trunc d)) as [st2 out2 e2 n2|]; [|contradiction].
        destruct HS as [Hs' [Ho He]]. subst e2. injection H1 as <- <-. injection H2 as <- <-.
        split.
        * split; [reflexivity|]. cbn [conns]. rewrite !proj_update_same. rewrite <- Hk.
          apply crel_update; [|assumption]. intros x y [Hx1 [Hx2 Hx3]]. unfold crel1; cbn. auto.
        * rewrite !eproj_app. rewrite (eproj_all a p1), (eproj_all a p2) by assumption. rewrite Hmo. apply f_equal. f_equal.
          -- rewrite !eproj_all.
             ++ rewrite !map_map. cbn [erase_out]. rewrite <- Hk.
                rewrite <- (map_map erase (EOut (c_key c1))). rewrite <- (map_map erase (EOut (c_key c1)) out2). rewrite Ho. reflexivity.
             ++ apply Forall_forall. intros x Hx. apply in_map_iff in Hx as [y [<- _]]. unfold for_peer; cbn.
                rewrite <- Hk, Hfa. apply addr_eqb_refl.
             ++ apply Forall_forall. intros x Hx. apply in_map_iff in Hx as [y [<- _]]. unfold for_peer; cbn.
                rewrite Hfa. apply addr_eqb_refl.
          -- destruct e1; [|reflexivity]. unfold eproj, for_peer; cbn. rewrite addr_eqb_refl. reflexivity.
      + injection H1 as <- <-. injection H2 as <- <-. split; [assumption|].
        rewrite !eproj_app. rewrite (eproj_all a p1), (eproj_all a p2) by assumption. rewrite Hmo. reflexivity.
    - apply addr_eqb_eq in Hre. subst r.
      destruct (get_conn s1 a _) as [[t1 p1] r1] eqn:G1.
      destruct (get_conn s2 a _) as [[t2 p2] r2] eqn:G2.
      destruct (get_conn_rel _ _ _ _ _ _ _ _ _ _ Hrel Hw1 Hw2 G1 G2) as [Hr [Hwt1 [Hwt2 [Hmo [Hf1 [Hf2 Hres]]]]]].
      destruct r1 as [c1|], r2 as [c2|]; try contradiction; injection H1 as <- <-; injection H2 as <- <-; (split; [assumption|]);
        rewrite !eproj_app; rewrite (eproj_all a p1), (eproj_all a p2) by assumption; rewrite Hmo; f_equal;
        unfold eproj, for_peer; cbn; rewrite addr_eqb_refl; reflexivity.
    - injection H1 as <- <-. injection H2 as <- <-. split; [|reflexivity].
      destruct Hrel as [Hm Hc]. split; [exact Hm|]. cbn [Model.set_conns conns]. rewrite !proj_update_same.
      apply crel_update; [|assumption]. intros x y [Hx1 [Hx2 Hx3]]. unfold crel1; cbn. auto.
    - injection H1 as <- <-. injection H2 as <- <-. split; [|reflexivity].
      destruct Hrel as [Hm Hc]. split; [exact Hm|]. cbn [Model.set_conns conns]. rewrite !proj_filter.
      apply crel_filter_open. assumption.
    - destruct Hrel as [Hm Hc]. rewrite <- Hm in H2.
      destruct (mh_lookup (mh s1) tok); injection H1 as <- <-; injection H2 as <- <-; (split; [|reflexivity]).
      + split; assumption.
      + split; [cbn; congruence|assumption].
    - destruct Hrel as [Hm Hc]. injection H1 as <- <-. injection H2 as <- <-. split; [|reflexivity].
      split; [cbn; congruence|assumption].
    - destruct Hrel as [Hm Hc]. rewrite <- Hm in H2.
      destruct (mh_lookup (mh s1) tok); injection H1 as <- <-; injection H2 as <- <-; (split; [|reflexivity]).
      + split; assumption.
      + split; [cbn; congruence|assumption].
  Qed.

  (* C10_noninterference: whatever the other peers send, in whatever interleaving, the outputs the server
     produces for remote address a are those of the run in which only a's events (and the shared ones: ticks,
     discovery registrations) happen -- up to connection identities and server-chosen message IDs. *)
  Theorem noninterference_gen : forall a evs s1 s2, wf s1 -> wf s2 -> rel a s1 s2 ->
    exists s1' o1 s2' o2, run s1 evs = Some (s1', o1) /\ run s2 (filter (relevant a) evs) = Some (s2', o2) /\
      rel a s1' s2' /\ eproj a o1 = eproj a o2.
  Proof.
    induction evs as [|e r IH]; intros s1 s2 Hw1 Hw2 Hrel; cbn [Model.run filter].
    - exists s1, [], s2, []. auto.
    - destruct (step s1 e) as [t1 p1|] eqn:E1; [|exfalso; eapply step_total; eassumption].
      destruct (step_spec _ _ _ _ Hw1 E1) as [Hwt1 Hsp].
      destruct (relevant a e) eqn:Hre.
      + cbn [Model.run]. destruct (step s2 e) as [t2 p2|] eqn:E2; [|exfalso; eapply step_total; eassumption].
        destruct (step_spec _ _ _ _ Hw2 E2) as [Hwt2 _].
        destruct (step_rel _ _ _ _ _ _ _ _ Hrel Hw1 Hw2 Hre E1 E2) as [Hr Ho].
        destruct (IH t1 t2 Hwt1 Hwt2 Hr) as [s1' [o1 [s2' [o2 [R1 [R2 [Hr' Ho']]]]]]].
        rewrite R1, R2. exists s1', (p1 ++ o1), s2', (p2 ++ o2).
        split; [reflexivity|]. split; [reflexivity|]. split; [assumption|].
        rewrite !eproj_app. congruence.
      + unfold relevant in Hre. destruct (ev_peer e) as [b|] eqn:Eb; [|discriminate].
        assert (Hb : b <> a) by (intro; subst; rewrite addr_eqb_refl in Hre; discriminate).
        destruct (step_other a _ _ _ _ b Hw1 Eb Hb E1) as [_ [Hm [Hp Hn]]].
        assert (Hr : rel a t1 s2). { destruct Hrel as [Hm' Hc]. split; [congruence|]. rewrite Hp. assumption. }
        destruct (IH t1 s2 Hwt1 Hw2 Hr) as [s1' [o1 [s2' [o2 [R1 [R2 [Hr' Ho']]]]]]].
        rewrite R1, R2. exists s1', (p1 ++ o1), s2', o2.
        split; [reflexivity|]. split; [reflexivity|]. split; [assumption|].
        rewrite eproj_app, Hn. assumption.
  Qed.

  Theorem noninterference : forall a evs g1 g2,
    exists s1 o1 s2 o2, run (init_state g1) evs = Some (s1, o1) /\ run (init_state g2) (filter (relevant a) evs) = Some (s2, o2) /\
      eproj a o1 = eproj a o2.
  Proof.
    intros a evs g1 g2.
    assert (W : forall g, wf (init_state g)) by (intro; unfold wf; cbn; constructor).
    assert (R : rel a (init_state g1) (init_state g2)) by (split; [reflexivity|constructor]).
    destruct (noninterference_gen a evs _ _ (W g1) (W g2) R) as [s1 [o1 [s2 [o2 [R1 [R2 [_ Ho]]]]]]].
    exists s1, o1, s2, o2. auto.
  Qed.

  (* ----- one table entry per key; identities are fresh ----- *)
  Definition ids_lt (n : Z) (l : tab) : Prop := Forall (fun kc => c_id (snd kc) < n) l.
  Definition inv (s : sstate pstate) : Prop :=
    okeys (conns s) /\ NoDup (map fst (conns s)) /\ ids_lt (next_id s) (conns s).

  Lemma ids_lt_remove : forall n (l : tab) k, ids_lt n l -> ids_lt n (remove l k).
  Proof.
    unfold ids_lt. intros n l k H. rewrite Forall_forall in *. intros x Hx. apply In_remove in Hx as [Hx _]. auto.
  Qed.
  Lemma ids_lt_filter : forall n (l : tab) p, ids_lt n l -> ids_lt n (filter p l).
  Proof.
    unfold ids_lt. intros n l p H. rewrite Forall_forall in *. intros x Hx. apply filter_In in Hx as [Hx _]. auto.
  Qed.
  Lemma ids_lt_update : forall n (l : tab) k f, (forall c, c_id (f c) = c_id c) -> ids_lt n l -> ids_lt n (update l k f).
  Proof.
    induction l as [|[k' c'] r IH]; intros k f Hf H; cbn; [constructor|].
    inversion H as [|? ? H1 H2]; subst. destruct (key_eqb k k'); constructor; auto.
    - cbn in *. rewrite Hf. assumption.
    - apply IH; assumption.
  Qed.
  Lemma ids_lt_mono : forall n m (l : tab), n <= m -> ids_lt n l -> ids_lt m l.
  Proof. unfold ids_lt. intros n m l Hnm H. rewrite Forall_forall in *. intros x Hx. specialize (H x Hx). lia. Qed.

  Lemma goc_inv : forall s r l s' c cr, inv s -> get_or_create s r l = (s', c, cr) -> inv s' /\ next_id s <= next_id s'.
  Proof.
    intros s r l s' c cr [Ho [Hn Hi]] H. unfold Model.get_or_create in H.
    destruct (lookup (conns s) (conn_key r l)) eqn:E1; [injection H as <- _ _; split; [split; auto|lia]|].
    destruct (if can_fallback l then lookup (conns s) (conn_key r (to_wildcard l)) else None);
      injection H as <- _ _; [split; [split; auto|lia]|].
    cbn [conns next_id]. split; [|lia]. split; [constructor; [reflexivity|assumption]|]. split.
    - cbn. constructor; [apply lookup_none_notin; assumption|assumption].
    - cbn [conns next_id]. constructor; [cbn; lia|]. eapply ids_lt_mono; [|eassumption]. cbn [next_id]. lia.
  Qed.
  Lemma close_fn_inv : forall s c, inv s -> inv (close_fn s c) /\ next_id (close_fn s c) = next_id s.
  Proof.
    intros s c [Ho [Hn Hi]]. unfold Model.close_fn. destruct (lookup (conns s) (c_key c)) as [c'|]; [|split; [split; auto|reflexivity]].
    destruct (c_id c' =? c_id c); [|split; [split; auto|reflexivity]].
    split; [|reflexivity]. split; [apply okeys_remove; assumption|]. split; [apply NoDup_remove_keys; assumption|].
    cbn. apply ids_lt_remove. assumption.
  Qed.
  Lemma get_conn_inv : forall s r l s' o res, inv s -> get_conn s r l = (s', o, res) -> inv s'.
  Proof.
    intros s r l s' o res Hi H. unfold Model.get_conn in H.
    destruct (get_or_create s r l) as [[t c] cr] eqn:G. destruct (goc_inv _ _ _ _ _ _ Hi G) as [Ht _].
    destruct (c_closed c).
    - destruct (close_fn_inv t c Ht) as [Hc _].
      destruct (get_or_create (close_fn t c) r l) as [[u d] dr] eqn:G'. destruct (goc_inv _ _ _ _ _ _ Hc G') as [Hu _].
      destruct (c_closed d); injection H as <- _ _; [apply close_fn_inv; assumption|assumption].
    - injection H as <- _ _. assumption.
  Qed.
  Lemma step_inv : forall s e s' o, inv s -> step s e = SOk s' o -> inv s'.
  Proof.
    intros s e s' o Hi H. destruct e as [r lst dst d|r la lst|k| |tok rcv|tok|tok rcv]; cbn [Model.step] in H.
    - destruct (get_conn s r (dgram_laddr lst dst)) as [[s1 o1] res] eqn:G. pose proof (get_conn_inv _ _ _ _ _ _ Hi G) as [Ho [Hn Hl]].
      destruct res as [c|]; [|injection H as <- _; split; auto].
      destruct (peer_step (mh s1) (c_st c) (recv_trunc d)); [|discriminate]. injection H as <- _. unfold inv. cbn [conns next_id].
      split; [apply okeys_update; [reflexivity|assumption]|]. split; [rewrite map_fst_update; assumption|].
      apply ids_lt_update; [reflexivity|assumption].
    - destruct (get_conn s r _) as [[s1 o1] res] eqn:G. pose proof (get_conn_inv _ _ _ _ _ _ Hi G) as Hi1.
      destruct res; injection H as <- _; assumption.
    - injection H as <- _. destruct Hi as [Ho [Hn Hl]]. unfold inv. cbn [Model.set_conns conns next_id].
      split; [apply okeys_update; [reflexivity|assumption]|]. split; [rewrite map_fst_update; assumption|].
      apply ids_lt_update; [reflexivity|assumption].
    - injection H as <- _. destruct Hi as [Ho [Hn Hl]]. unfold inv. cbn [Model.set_conns conns next_id].
      split; [apply okeys_filter; assumption|]. split; [apply NoDup_filter_keys; assumption|]. apply ids_lt_filter. assumption.
    - destruct (mh_lookup (mh s) tok); injection H as <- _; assumption.
    - injection H as <- _. assumption.
    - destruct (mh_lookup (mh s) tok); injection H as <- _; assumption.
  Qed.

  (* C10_one_conn_per_key *)
  Theorem one_conn_per_key : forall evs g s o, run (init_state g) evs = Some (s, o) ->
    NoDup (map fst (conns s)) /\ (forall k c, lookup (conns s) k = Some c -> c_key c = k /\ c_id c < next_id s).
  Proof.
    assert (G : forall evs s s' o, inv s -> run s evs = Some (s', o) -> inv s').
    { induction evs as [|e r IH]; intros s s' o Hi H; cbn [Model.run] in H; [injection H as <- _; assumption|].
      destruct (step s e) as [s1 o1|] eqn:E; [|discriminate].
      destruct (run s1 r) as [[s2 os]|] eqn:R; [|discriminate]. injection H as <- _.
      eapply IH; [eapply step_inv; eassumption|eassumption]. }
    intros evs g s o H. assert (Hi : inv (init_state g)) by (repeat split; constructor).
    destruct (G _ _ _ _ Hi H) as [Ho [Hn Hl]]. split; [assumption|].
    intros k c Hk. split; [eapply lookup_own; eassumption|].
    apply lookup_In in Hk. unfold ids_lt in Hl. rewrite Forall_forall in Hl. apply (Hl _ Hk).
  Qed.

  (* in-order hand-off: a datagram for a key whose connection is open is processed by that very connection,
     which advances by exactly this datagram; no other key is touched *)
  Theorem handoff_open : forall s r lst dst d c st' outs err n,
    let k := conn_key r (dgram_laddr lst dst) in
    wf s -> lookup (conns s) k = Some c -> c_closed c = false ->
    peer_step (mh s) (c_st c) (recv_trunc d) = POk st' outs err n ->
    exists s', step s (EDgram r lst dst d) =
                 SOk s' (map (SOut (c_id c) k) outs ++ (if err then [SErrProcess r (c_id c)] else [])) /\
      lookup (conns s') k = Some (upd_conn err st' c) /\
      (forall k', k' <> k -> lookup (conns s') k' = lookup (conns s) k') /\ mh s' = mh s.
  Proof.
    intros s r lst dst d c st' outs err n k Hw Hl Hc Hp. cbn [Model.step].
    unfold Model.get_conn, Model.get_or_create. fold k. rewrite Hl, Hc. rewrite Hp.
    pose proof (lookup_own _ _ _ Hw Hl) as Hk. rewrite Hk.
    eexists. split; [reflexivity|]. cbn [conns mh]. split; [apply lookup_update_same; assumption|].
    split; [intros k' Hk'; apply lookup_update_other; assumption|reflexivity].
  Qed.

  (* C10_closed_replaced: the first datagram for a key whose entry is closed creates a fresh connection
     (announced by OnNewConn, initial state) that replaces the entry; the closed one gets nothing, no other key is touched *)
  Theorem closed_replaced : forall s r lst dst d c st' outs err n,
    let laddr := dgram_laddr lst dst in
    let k := conn_key r laddr in
    let g := u32 (gmid s + 1) in
    wf s -> lookup (conns s) k = Some c -> c_closed c = true ->
    (can_fallback laddr = true -> lookup (conns s) (conn_key r (to_wildcard laddr)) = None) ->
    peer_step (mh s) (peer_init (u16 g)) (recv_trunc d) = POk st' outs err n ->
    exists s', step s (EDgram r lst dst d) =
                 SOk s' (SNew r (next_id s) :: map (SOut (next_id s) k) outs ++ (if err then [SErrProcess r (next_id s)] else [])) /\
      lookup (conns s') k = Some {| c_id := next_id s; c_key := k; c_closed := err; c_st := st' |} /\
      (forall k', k' <> k -> lookup (conns s') k' = lookup (conns s) k') /\ mh s' = mh s.
  Proof.
    intros s r lst dst d c st' outs err n laddr k g Hw Hl Hc Hfb Hp. cbn [Model.step]. fold laddr.
    pose proof (lookup_own _ _ _ Hw Hl) as Hk.
    unfold Model.get_conn. unfold Model.get_or_create at 1. fold k. rewrite Hl, Hc.
    rewrite close_fn_eq by (rewrite Hk; assumption). rewrite Hk.
    unfold Model.get_or_create. fold k. cbn [Model.set_conns conns next_id gmid mh].
    rewrite lookup_remove_same.
    assert (Hwk : (if can_fallback laddr then lookup (remove (conns s) k) (conn_key r (to_wildcard laddr)) else None) = None).
    { destruct (can_fallback laddr) eqn:Ef; [|reflexivity].
      rewrite lookup_remove_other; [apply Hfb; reflexivity|]. apply fallback_key_ne. assumption. }
    rewrite Hwk. cbn [c_closed c_st c_id c_key mh]. fold g. rewrite Hp.
    eexists. split; [reflexivity|]. cbn [conns mh update]. rewrite key_eqb_refl. cbn [lookup]. rewrite key_eqb_refl.
    split; [reflexivity|]. split; [|reflexivity].
    intros k' Hk'. rewrite (key_eqb_neq _ _ Hk'). apply lookup_remove_other. assumption.
  Qed.

  (* whatever a connection emits while a datagram from r is processed is attributed to a key of r, to the
     connection the table holds under that key afterwards, and was produced by the peer machine under the
     server's current discovery table *)
  Theorem dgram_outputs : forall s r lst dst d s' o id k x, wf s ->
    step s (EDgram r lst dst d) = SOk s' o -> In (SOut id k x) o ->
    fst k = r /\ (exists c, lookup (conns s') k = Some c /\ c_id c = id) /\
    exists st st' outs err n, peer_step (mh s) st (recv_trunc d) = POk st' outs err n /\ In x outs.
  Proof.
    intros s r lst dst d s' o id k x Hw H Hin. cbn [Model.step] in H.
    destruct (get_conn s r (dgram_laddr lst dst)) as [[s1 o1] res] eqn:G.
    destruct (get_conn_spec _ _ _ _ _ _ Hw G) as [Hw1 [Hm [Hp [Ho Hres]]]].
    assert (Hno : ~ In (SOut id k x) o1).
    { intro Hi. unfold Model.get_conn in G. destruct (get_or_create s r _) as [[t c] cr].
      destruct (c_closed c).
      - destruct (get_or_create (close_fn t c) r _) as [[u dd] dr]. destruct (c_closed dd); injection G as _ <- _;
          apply in_app_or in Hi as [Hi|Hi]; [destruct cr|destruct dr|destruct cr|destruct dr]; cbn in Hi;
          try tauto; destruct Hi as [Hi|[]]; discriminate.
      - injection G as _ <- _. destruct cr; cbn in Hi; try tauto. destruct Hi as [Hi|[]]; discriminate. }
    destruct res as [c|].
    - destruct (peer_step (mh s1) (c_st c) (recv_trunc d)) as [st' outs err n|] eqn:P; [|discriminate].
      injection H as <- <-. destruct Hres as [Hl [Hf Hcl]].
      apply in_app_or in Hin as [Hin|Hin]; [contradiction|]. apply in_app_or in Hin as [Hin|Hin].
      + apply in_map_iff in Hin as [y [Hy Hyin]]. injection Hy as <- <- <-.
        split; [assumption|]. split.
        * eexists. split; [cbn [conns]; apply lookup_update_same; eassumption|reflexivity].
        * rewrite Hm in P. eauto 8.
      + destruct err; cbn in Hin; [destruct Hin as [Hin|[]]; discriminate|contradiction].
    - injection H as <- <-. apply in_app_or in Hin as [Hin|Hin]; [contradiction|].
      cbn in Hin. destruct Hin as [Hin|[]]. discriminate.
  Qed.

  (* ----- the discovery table holds exactly the requests in progress -----
     [in_progress] is written from the call structure alone: a DiscoveryRequest holds its token from its
     (successful) LoadOrStore to its return.  A call that returns at once -- the token is taken, or the
     datagram cannot be sent (EDiscFail) -- holds nothing afterwards. *)
  Fixpoint in_progress (reg : mhtab) (evs : list (ev datagram)) : mhtab :=
    match evs with
    | [] => reg
    | EDiscStart tok rcv :: r =>
        in_progress (match mh_lookup reg tok with Some _ => reg | None => (tok, rcv) :: reg end) r
    | EDiscEnd tok :: r => in_progress (mh_remove reg tok) r
    | _ :: r => in_progress reg r
    end.

  Lemma bytes_eqb_same : forall t : list Z, bytes_eqb t t = true.
  Proof. induction t as [|b r IH]; cbn; [reflexivity|]. rewrite Z.eqb_refl. exact IH. Qed.
  Lemma mh_remove_absent : forall t tok, mh_lookup t tok = None -> mh_remove t tok = t.
  Proof.
    induction t as [|[k r] rest IH]; intros tok H; cbn in *; [reflexivity|].
    destruct (bytes_eqb k tok); [discriminate|]. rewrite IH by assumption. reflexivity.
  Qed.
  Lemma mh_remove_just_added : forall t tok rcv, mh_lookup t tok = None -> mh_remove ((tok, rcv) :: t) tok = t.
  Proof. intros t tok rcv H. cbn [mh_remove]. rewrite bytes_eqb_same. apply mh_remove_absent. assumption. Qed.

  (* a request whose datagram cannot be sent leaves NO trace: the state after the call is the state before it *)
  Theorem disc_failed_send_no_trace : forall s tok rcv,
    step s (EDiscFail tok rcv) = SOk s (match mh_lookup (mh s) tok with Some _ => [SDiscExists] | None => [SDiscSendErr] end).
  Proof.
    intros s tok rcv. cbn [Model.step]. destruct (mh_lookup (mh s) tok) eqn:E; [reflexivity|].
    rewrite mh_remove_just_added by assumption. destruct s; reflexivity.
  Qed.

  (* ... so whatever follows it is what would have happened without it (outputs of the call itself aside):
     a message with its token goes where it went before, the same request can be started again *)
  Theorem disc_failed_send_invisible : forall s tok rcv evs,
    run s (EDiscFail tok rcv :: evs) =
    match run s evs with
    | Some (s', o) => Some (s', (match mh_lookup (mh s) tok with Some _ => [SDiscExists] | None => [SDiscSendErr] end) ++ o)
    | None => None
    end.
  Proof. intros s tok rcv evs. cbn [Model.run]. rewrite disc_failed_send_no_trace. reflexivity. Qed.

  Theorem disc_retry_after_failed_send : forall s tok rcv rcv', mh_lookup (mh s) tok = None ->
    exists s', run s [EDiscFail tok rcv; EDiscStart tok rcv'] = Some (s', [SDiscSendErr]) /\ mh s' = (tok, rcv') :: mh s.
  Proof.
    intros s tok rcv rcv' H. rewrite disc_failed_send_invisible. cbn [Model.run Model.step]. rewrite H.
    eexists. split; reflexivity.
  Qed.

  (* at every point of every history the table is exactly the set of requests in progress *)
  Theorem disc_table_in_progress : forall evs s s' o, wf s -> run s evs = Some (s', o) -> mh s' = in_progress (mh s) evs.
  Proof.
    induction evs as [|e r IH]; intros s s' o Hw H; cbn [Model.run] in H.
    - injection H as <- _. reflexivity.
    - destruct (step s e) as [s1 o1|] eqn:E; [|discriminate].
      destruct (run s1 r) as [[s2 o2]|] eqn:R; [|discriminate]. injection H as <- _.
      destruct (step_spec _ _ _ _ Hw E) as [Hw1 Hsp].
      rewrite (IH _ _ _ Hw1 R).
      destruct e as [ra lst dst d|ra la lst|k| |tok rcv|tok|tok rcv]; cbn [ev_peer] in Hsp; cbn [in_progress].
      + destruct Hsp as [-> _]. reflexivity.
      + destruct Hsp as [-> _]. reflexivity.
      + destruct Hsp as [-> _]. reflexivity.
      + cbn [Model.step] in E. injection E as <- _. reflexivity.
      + cbn [Model.step] in E. destruct (mh_lookup (mh s) tok); injection E as <- _; reflexivity.
      + cbn [Model.step] in E. injection E as <- _. reflexivity.
      + rewrite disc_failed_send_no_trace in E. injection E as <- _. reflexivity.
  Qed.

  Corollary disc_table_in_progress_init : forall evs g s o, run (init_state g) evs = Some (s, o) -> mh s = in_progress [] evs.
  Proof. intros evs g s o H. apply (disc_table_in_progress evs (init_state g) s o); [constructor|exact H]. Qed.

End ServerProofs.

(* ---------- the concrete connection (cstep) satisfies the hypotheses ---------- *)

(* server-chosen message IDs: a confirmable reply carries the connection's own counter *)
Definition erase_wire (w : wire) : wire :=
  if w_typ w =? CON then {| w_typ := w_typ w; w_code := w_code w; w_mid := 0; w_tok := w_tok w; w_opts := w_opts w; w_pay := w_pay w |} else w.
Definition erase_cout (o : cout) : cout := match o with CWire w => CWire (erase_wire w) | _ => o end.

Definition ecache (c : list (Z * entry)) : list (Z * wire * Z) :=
  map (fun ke => (fst ke, erase_wire (e_reply (snd ke)), e_left (snd ke))) c.
Definition csim (s1 s2 : cstate) : Prop := ecache (cache s1) = ecache (cache s2).

Lemma erase_wire_fields w1 w2 : erase_wire w1 = erase_wire w2 ->
  w_typ w1 = w_typ w2 /\ w_code w1 = w_code w2 /\ w_tok w1 = w_tok w2 /\ w_opts w1 = w_opts w2 /\ w_pay w1 = w_pay w2.
Proof.
  unfold erase_wire. destruct w1 as [t1 c1 m1 k1 o1 p1], w2 as [t2 c2 m2 k2 o2 p2]; cbn.
  destruct (t1 =? CON) eqn:E1, (t2 =? CON) eqn:E2; intro H; injection H; intros; subst; repeat split; auto.
Qed.

Lemma ecache_lookup : forall c1 c2 k, ecache c1 = ecache c2 ->
  match Dedup.Model.lookup c1 k, Dedup.Model.lookup c2 k with
  | Some e1, Some e2 => erase_wire (e_reply e1) = erase_wire (e_reply e2) /\ e_left e1 = e_left e2
  | None, None => True
  | _, _ => False
  end.
Proof.
  induction c1 as [|[k1 e1] r1 IH]; intros [|[k2 e2] r2] k H; cbn in *; try discriminate; [exact I|].
  injection H as Hk Hr Hl Ht. subst k2. destruct (k =? k1); [auto|]. apply IH. assumption.
Qed.
Lemma ecache_remove : forall c1 c2 k, ecache c1 = ecache c2 ->
  ecache (Dedup.Model.remove c1 k) = ecache (Dedup.Model.remove c2 k).
Proof.
  induction c1 as [|[k1 e1] r1 IH]; intros [|[k2 e2] r2] k H; cbn in *; try discriminate; [reflexivity|].
  injection H as Hk Hr Hl Ht. subst k2. destruct (k =? k1); [apply IH; assumption|]. cbn. rewrite Hr, Hl. f_equal. apply IH. assumption.
Qed.
Lemma ecache_load : forall c1 c2 k, ecache c1 = ecache c2 ->
  match cache_load c1 k, cache_load c2 k with
  | Some e1, Some e2 => erase_wire (e_reply e1) = erase_wire (e_reply e2)
  | None, None => True
  | _, _ => False
  end.
Proof.
  intros c1 c2 k H. unfold cache_load. pose proof (ecache_lookup c1 c2 k H) as HL.
  destruct (Dedup.Model.lookup c1 k) as [e1|], (Dedup.Model.lookup c2 k) as [e2|]; try contradiction; [|exact I].
  destruct HL as [Hr Hl]. unfold expired. rewrite Hl. destruct (e_left e2 <? 0); [exact I|assumption].
Qed.
Lemma ecache_store : forall c1 c2 k r1 r2, ecache c1 = ecache c2 -> erase_wire r1 = erase_wire r2 ->
  ecache (cache_store c1 k r1) = ecache (cache_store c2 k r2).
Proof.
  intros c1 c2 k r1 r2 H Hr. unfold cache_store. pose proof (ecache_load c1 c2 k H) as HL.
  destruct (cache_load c1 k), (cache_load c2 k); try contradiction; [assumption|].
  cbn. rewrite Hr. f_equal. apply ecache_remove. assumption.
Qed.

(* the handler / processResponse piece, for an ordinary response (Dedup.Model.plain_beh: the reply is not a
   Reset / Empty message, whose own message ID travels in a non-confirmable or reset message) *)
Lemma plain_not_special tok ro b h : plain_beh b = true -> handler_result tok ro b = Some h -> is_special h = false.
Proof.
  destruct b as [|c o p|c t o p|]; cbn [plain_beh handler_result]; intros Hp Hh; try discriminate.
  - destruct (rw_refuses ro c); [discriminate|]. injection Hh as <-. unfold is_special; cbn.
    destruct (c =? 0); [discriminate|reflexivity].
  - injection Hh as <-. unfold is_special; cbn. destruct (c =? 0); [discriminate|reflexivity].
Qed.

Lemma handle_sim : forall t mid tok ro b a1 a2, plain_beh b = true ->
  hd_store (req_handle t mid tok ro b a1) = hd_store (req_handle t mid tok ro b a2) /\
  option_map erase_wire (hd_reply (req_handle t mid tok ro b a1)) = option_map erase_wire (hd_reply (req_handle t mid tok ro b a2)).
Proof.
  intros t mid tok ro b a1 a2 Hp. unfold req_handle.
  destruct (handler_result tok ro b) as [h|] eqn:Hh.
  - rewrite (plain_not_special _ _ _ _ Hp Hh).
    destruct (t =? CON); cbn [hd_store hd_reply option_map]; split; try reflexivity.
  - destruct (t =? CON); split; reflexivity.
Qed.

Lemma app_behaviour_plain : forall m, plain_beh (app_behaviour m) = true.
Proof.
  intros m. unfold app_behaviour. destruct (route_of routes (uri_path (m_opts m))); [|reflexivity].
  unfold resp_code. cbn [plain_beh].
  destruct (m_code m =? 1); [reflexivity|]. destruct (m_code m =? 2); [reflexivity|].
  destruct (m_code m =? 3); [reflexivity|]. destruct (m_code m =? 4); reflexivity.
Qed.

Lemma dstep_sim : forall s1 s2 t mid tok code ro b, plain_beh b = true -> csim s1 s2 ->
  let r1 := Dedup.Model.step s1 (Req t mid tok code ro b) in
  let r2 := Dedup.Model.step s2 (Req t mid tok code ro b) in
  csim (fst r1) (fst r2) /\ o_called (snd r1) = o_called (snd r2)
  /\ map erase_wire (o_out (snd r1)) = map erase_wire (o_out (snd r2)).
Proof.
  intros s1 s2 t mid tok code ro b Hp H. unfold csim in *. cbn [Dedup.Model.step].
  generalize (req_check t mid (own s1)) as a1. generalize (req_check t mid (own s2)) as a2. intros a2 a1.
  pose proof (ecache_load (cache s1) (cache s2) mid H) as HL.
  assert (Hmiss : ecache (req_store mid (req_handle t mid tok ro b a1) (cache s1)) =
                  ecache (req_store mid (req_handle t mid tok ro b a2) (cache s2)) /\
                  map erase_wire (o_out (obs_of_reply true (hd_reply (req_handle t mid tok ro b a1)))) =
                  map erase_wire (o_out (obs_of_reply true (hd_reply (req_handle t mid tok ro b a2))))).
  { destruct (handle_sim t mid tok ro b a1 a2 Hp) as [Hs Hr]. unfold req_store, store_reply. rewrite Hs.
    destruct (hd_reply (req_handle t mid tok ro b a1)) as [r1|], (hd_reply (req_handle t mid tok ro b a2)) as [r2|];
      cbn [option_map] in Hr; try discriminate.
    - injection Hr as Hr. cbn [obs_of_reply o_out map]. rewrite Hr. split; [|reflexivity].
      destruct (hd_store (req_handle t mid tok ro b a2)); [apply ecache_store; assumption|assumption].
    - split; [|reflexivity]. destruct (hd_store (req_handle t mid tok ro b a2)); assumption. }
  unfold req_lookup. destruct (is_cacheable_typ t).
  - destruct (cache_load (cache s1) mid) as [e1|], (cache_load (cache s2) mid) as [e2|]; try contradiction.
    + destruct (erase_wire_fields _ _ HL) as [_ [Hc [Hk [Ho Hpay]]]]. cbn. unfold retarget. rewrite Hc, Hk, Ho, Hpay. auto.
    + cbn [fst snd cache obs_of_reply o_called]. destruct Hmiss as [Hm1 Hm2]. auto.
  - cbn [fst snd cache obs_of_reply o_called]. destruct Hmiss as [Hm1 Hm2]. auto.
Qed.

Lemma cstep_sim : forall maxsize t s1 s2 d, csim s1 s2 ->
  match cstep maxsize t s1 d, cstep maxsize t s2 d with
  | POk s1' o1 e1 _, POk s2' o2 e2 _ => csim s1' s2' /\ map erase_cout o1 = map erase_cout o2 /\ e1 = e2
  | PPanic, PPanic => True
  | _, _ => False
  end.
Proof.
  intros maxsize t s1 s2 d H. unfold cstep.
  destruct (negb (bytes_ok d)); [auto|].
  destruct (maxsize <? blen d); [auto|].
  destruct (udp_decode d) as [m|e|]; [|auto|exact I].
  destruct (is_ping m); [cbn; auto|].
  destruct (is_separate m); [cbn; auto|].
  destruct (match mh_lookup t (m_tok m) with
            | Some r => (BNone, CDeliver r (m_tok m) (m_code m) (m_pay m))
            | None => (app_behaviour m, CHandled (m_tok m) (m_code m) (m_pay m)) end) as [b note] eqn:Eb.
  assert (Hpl : plain_beh b = true).
  { destruct (mh_lookup t (m_tok m)); injection Eb as <- _; [reflexivity|apply app_behaviour_plain]. }
  pose proof (dstep_sim s1 s2 (m_typ m) (m_mid m) (m_tok m) (m_code m) (m_opts m) b Hpl H) as HS. cbn zeta in HS.
  destruct (Dedup.Model.step s1 _) as [s1' o1]. destruct (Dedup.Model.step s2 _) as [s2' o2]. cbn [fst snd] in HS.
  destruct HS as [Hs [Hc Ho]]. split; [assumption|]. split; [|reflexivity].
  rewrite !map_app, Hc. f_equal. rewrite !map_map. cbn [erase_cout].
  rewrite <- (map_map erase_wire CWire), <- (map_map erase_wire CWire (o_out o2)), Ho. reflexivity.
Qed.

Lemma cinit_sim : forall g1 g2, csim (cinit g1) (cinit g2).
Proof. reflexivity. Qed.

(* ----- the datagram decoder never indexes out of range ----- *)
Lemma blen_nonneg {A} (l : list A) : 0 <= blen l. Proof. unfold blen. lia. Qed.
Lemma blen_cons {A} (x : A) l : blen (x :: l) = blen l + 1. Proof. unfold blen. cbn [length]. lia. Qed.
Lemma blen_skipn {A} (l : list A) n : 0 <= n <= blen l -> blen (skipn (Z.to_nat n) l) = blen l - n.
Proof. unfold blen. intro H. rewrite skipn_length. lia. Qed.
Lemma bytes_ok_skipn l n : bytes_ok l = true -> bytes_ok (skipn n l) = true.
Proof.
  unfold bytes_ok. revert l. induction n as [|n IH]; intros l H; [assumption|]. destruct l as [|x r]; [reflexivity|].
  cbn in *. apply andb_prop in H as [_ H]. apply IH. assumption.
Qed.
Lemma slice_from_some d n : 0 <= n <= blen d -> slice_from d n = Some (skipn (Z.to_nat n) d).
Proof. intro H. unfold slice_from. replace (0 <=? n) with true by lia. replace (n <=? blen d) with true by lia. reflexivity. Qed.
Lemma slice_to_some d n : 0 <= n <= blen d -> slice_to d n = Some (firstn (Z.to_nat n) d).
Proof. intro H. unfold slice_to. replace (0 <=? n) with true by lia. replace (n <=? blen d) with true by lia. reflexivity. Qed.
Lemma bytes_ok_head b r : bytes_ok (b :: r) = true -> 0 <= b < 256 /\ bytes_ok r = true.
Proof. unfold bytes_ok, byte_ok. cbn. intro H. apply andb_prop in H as [H1 H2]. split; [lia|assumption]. Qed.

Lemma parse_ext_spec data v : bytes_ok data = true -> 0 <= v ->
  match parse_ext data v with
  | DPanic => False
  | DErr _ => True
  | DOk (p, v') => 0 <= p <= blen data /\ 0 <= v'
  end.
Proof.
  intros Hb Hv. unfold parse_ext. destruct (v =? 13).
  - destruct data as [|b r]; [cbn; exact I|]. rewrite blen_cons. pose proof (blen_nonneg r).
    replace (blen r + 1 <? 1) with false by lia. apply bytes_ok_head in Hb as [Hb _]. lia.
  - destruct (v =? 14); [|pose proof (blen_nonneg data); lia].
    destruct data as [|a [|b r]]; try (cbn; exact I). rewrite !blen_cons. pose proof (blen_nonneg r).
    replace (blen r + 1 + 1 <? 2) with false by lia.
    apply bytes_ok_head in Hb as [Ha Hb]. apply bytes_ok_head in Hb as [Hb _]. lia.
Qed.

Lemma unmarshal_spec : forall fuel data prev acc processed, bytes_ok data = true ->
  match unmarshal_opts fuel data prev acc processed with
  | DPanic => False
  | DErr _ => True
  | DOk (proc, _) => processed <= proc <= processed + blen data
  end.
Proof.
  induction fuel as [|f IH]; intros data prev acc processed Hb; cbn [unmarshal_opts]; [pose proof (blen_nonneg data); lia|].
  destruct data as [|b rest]; [cbn; lia|]. apply bytes_ok_head in Hb as [Hb0 Hb]. rewrite blen_cons. pose proof (blen_nonneg rest) as Hrest.
  destruct (b =? 255); [lia|].
  assert (Hd : 0 <= b / 16) by (apply Z.div_pos; lia). assert (Hl : 0 <= b mod 16) by (apply Z.mod_pos_bound; lia).
  destruct ((b / 16 =? extend_option_error) || (b mod 16 =? extend_option_error)); [exact I|].
  pose proof (parse_ext_spec rest (b / 16) Hb Hd) as P1.
  destruct (parse_ext rest (b / 16)) as [[p1 delta]|e|]; [|exact I|contradiction].
  destruct P1 as [Hp1 Hdelta]. rewrite (slice_from_some _ _ Hp1).
  pose proof (bytes_ok_skipn rest (Z.to_nat p1) Hb) as Hb1.
  pose proof (parse_ext_spec (skipn (Z.to_nat p1) rest) (b mod 16) Hb1 Hl) as P2.
  destruct (parse_ext (skipn (Z.to_nat p1) rest) (b mod 16)) as [[p2 len]|e|]; [|exact I|contradiction].
  destruct P2 as [Hp2 Hlen]. rewrite (slice_from_some _ _ Hp2).
  pose proof (bytes_ok_skipn _ (Z.to_nat p2) Hb1) as Hb2.
  pose proof (blen_skipn rest p1 Hp1) as L1. pose proof (blen_skipn _ p2 Hp2) as L2.
  destruct (blen (skipn (Z.to_nat p2) (skipn (Z.to_nat p1) rest)) <? len) eqn:El; [exact I|].
  destruct (65535 <? prev + delta); [exact I|].
  assert (Hr : 0 <= len <= blen (skipn (Z.to_nat p2) (skipn (Z.to_nat p1) rest))) by lia.
  rewrite (slice_to_some _ _ Hr), (slice_from_some _ _ Hr).
  pose proof (blen_skipn _ len Hr) as L3.
  pose proof (bytes_ok_skipn _ (Z.to_nat len) Hb2) as Hb3.
  specialize (IH (skipn (Z.to_nat len) (skipn (Z.to_nat p2) (skipn (Z.to_nat p1) rest))) (prev + delta)
                 (if opt_kept (prev + delta) len && negb (prev + delta =? 0)
                  then acc ++ [(prev + delta, firstn (Z.to_nat len) (skipn (Z.to_nat p2) (skipn (Z.to_nat p1) rest)))] else acc)
                 (processed + 1 + p1 + p2 + len) Hb3).
  destruct (unmarshal_opts f _ _ _ _) as [[proc os]|e|]; [lia|exact I|contradiction].
Qed.

Lemma udp_decode_no_panic d : bytes_ok d = true -> udp_decode d <> DPanic.
Proof.
  intro Hb. unfold udp_decode. destruct (blen d <? 4) eqn:E4; [discriminate|].
  destruct d as [|b0 [|b1 [|b2 [|b3 r]]]]; try (cbn in E4; discriminate).
  destruct (negb (b0 / 64 =? 1)); [discriminate|].
  destruct (max_token_size <? b0 mod 16); [discriminate|].
  assert (H4 : 0 <= 4 <= blen (b0 :: b1 :: b2 :: b3 :: r)) by (rewrite !blen_cons; pose proof (blen_nonneg r); lia).
  rewrite (slice_from_some _ _ H4). change (skipn (Z.to_nat 4) (b0 :: b1 :: b2 :: b3 :: r)) with r.
  destruct (blen r <? b0 mod 16) eqn:Et; [discriminate|].
  pose proof (bytes_ok_head _ _ Hb) as [Hb0 Hb1].
  assert (Hr : bytes_ok r = true) by (apply (bytes_ok_skipn _ 3%nat) in Hb1; exact Hb1).
  assert (Hk : 0 <= b0 mod 16 <= blen r) by (pose proof (Z.mod_pos_bound b0 16); lia).
  rewrite (slice_to_some _ _ Hk), (slice_from_some _ _ Hk).
  pose proof (bytes_ok_skipn r (Z.to_nat (b0 mod 16)) Hr) as Hr1.
  pose proof (unmarshal_spec (S (length (skipn (Z.to_nat (b0 mod 16)) r))) _ 0 [] 0 Hr1) as HU.
  destruct (unmarshal_opts _ _ 0 [] 0) as [[proc os]|e|] eqn:EU; [|discriminate|contradiction].
  rewrite slice_from_some by lia. discriminate.
Qed.

(* C10_total for the concrete connection *)
Theorem cstep_total : forall maxsize t s d, cstep maxsize t s d <> PPanic.
Proof.
  intros maxsize t s d. unfold cstep. destruct (bytes_ok d) eqn:Hb; cbn [negb]; [|discriminate].
  destruct (maxsize <? blen d); [discriminate|].
  pose proof (udp_decode_no_panic d Hb) as HD.
  destruct (udp_decode d) as [m|e|]; [|discriminate|contradiction].
  destruct (is_ping m); [discriminate|]. destruct (is_separate m); [discriminate|].
  destruct (match mh_lookup t (m_tok m) with
            | Some r => (BNone, CDeliver r (m_tok m) (m_code m) (m_pay m))
            | None => (app_behaviour m, CHandled (m_tok m) (m_code m) (m_pay m)) end) as [b note].
  destruct (Dedup.Model.step s _). discriminate.
Qed.

Lemma cstep_sim_step : forall maxsize t s1 s2 d, csim s1 s2 ->
  match cstep maxsize t s1 d, cstep maxsize t s2 d with
  | POk s1' o1 e1 _, POk s2' o2 e2 _ => csim s1' s2' /\ map erase_cout o1 = map erase_cout o2 /\ e1 = e2
  | _, _ => False
  end.
Proof.
  intros maxsize t s1 s2 d H. pose proof (cstep_sim maxsize t s1 s2 d H) as HS.
  pose proof (cstep_total maxsize t s1 d). pose proof (cstep_total maxsize t s2 d).
  destruct (cstep maxsize t s1 d), (cstep maxsize t s2 d); try contradiction; assumption.
Qed.

(* ----- discovery: the cfg.Handler wrapper ----- *)
Theorem cstep_discovery : forall maxsize t s d s' outs err n, cstep maxsize t s d = POk s' outs err n ->
  (forall r tok code pay, In (CDeliver r tok code pay) outs -> mh_lookup t tok = Some r) /\
  (forall tok code pay, In (CHandled tok code pay) outs -> mh_lookup t tok = None).
Proof.
  intros maxsize t s d s' outs err n H. unfold cstep in H.
  destruct (negb (bytes_ok d)); [injection H as _ <- _ _; split; intros; contradiction|].
  destruct (maxsize <? blen d); [injection H as _ <- _ _; split; intros; contradiction|].
  destruct (udp_decode d) as [m|e|]; [|injection H as _ <- _ _; split; intros; contradiction|discriminate].
  destruct (is_ping m); [injection H as _ <- _ _; split; intros ? ? ? ?; cbn; intros; try tauto; destruct H as [H|[]]; discriminate|].
  destruct (is_separate m); [injection H as _ <- _ _; split; intros; contradiction|].
  destruct (mh_lookup t (m_tok m)) as [r0|] eqn:EL;
    destruct (Dedup.Model.step s _) as [s1 o1]; injection H as _ <- _ _; split; intros;
    match goal with Hin : In _ _ |- _ => apply in_app_or in Hin as [Hin|Hin];
      [destruct (o_called o1); cbn in Hin; [destruct Hin as [Hin|[]]; inversion Hin; subst; try assumption|contradiction]
      |apply in_map_iff in Hin as [y [Hy _]]; discriminate] end.
Qed.

(* conversely: a message that reaches the handler layer (not a ping / bare ACK, not answered from the
   response cache) whose token is registered is handed to that receiver *)
Theorem cstep_discovery_delivers : forall maxsize t s d m r, bytes_ok d = true -> blen d <= maxsize ->
  udp_decode d = DOk m -> is_ping m = false -> is_separate m = false ->
  (if is_cacheable_typ (m_typ m) then cache_load (cache s) (m_mid m) else None) = None ->
  mh_lookup t (m_tok m) = Some r ->
  exists s' outs n, cstep maxsize t s d = POk s' outs false n /\ In (CDeliver r (m_tok m) (m_code m) (m_pay m)) outs.
Proof.
  intros maxsize t s d m r Hb Hsz Hd Hp Hs Hc Hl. unfold cstep. rewrite Hb. cbn [negb].
  replace (maxsize <? blen d) with false by lia. rewrite Hd, Hp, Hs, Hl.
  cbn [Dedup.Model.step]. unfold req_lookup. rewrite Hc. unfold req_handle. cbn [handler_result].
  destruct (m_typ m =? CON); cbn; do 3 eexists; (split; [reflexivity|]); cbn; auto.
Qed.

(* registration: EDiscStart registers unless the token is taken, EDiscEnd removes, nothing else touches the table *)
Lemma mh_remove_lookup_same t tok : mh_lookup (mh_remove t tok) tok = None.
Proof.
  induction t as [|[k r] rest IH]; cbn; [reflexivity|]. destruct (bytes_eqb k tok) eqn:E; [assumption|]. cbn. rewrite E. assumption.
Qed.
