(* C10 as predicates over what was OBSERVED, written from the property text:
   the server keeps serving (Serve has not returned, nothing panicked, a fresh
   client is still answered), every well-behaved client received exactly the
   responses to its own requests, in order, whatever other peers sent; a remote
   address that stays open is served by one logical connection and its requests
   reach the application in arrival order, once each; a discovery response is
   handed only to the receiver registered for its token, together with the
   connection of the peer that sent it.

   The reference answers below describe the application the harness installs
   (routes a, b/c, echo: code by method, payload = route tag :: request
   payload; anything else 4.04) -- they are the test application's
   specification, not a transcription of library code. *)
From Coq Require Import ZArith NArith List Bool.
From GoCoap Require Import Base.Bytes Dedup.Spec.
From GoCoap Require Monitor.Model.
Import ListNotations.
Open Scope Z_scope.

(* a well-formed request of a well-behaved client *)
Record greq := GReq { q_typ : Z; q_code : Z; q_mid : Z; q_tok : list Z; q_route : Z (* 0 = no such resource *); q_pay : list Z }.

Definition spec_code (method : Z) : Z :=
  if method =? 1 then 69 else if method =? 2 then 68 else if method =? 3 then 65 else if method =? 4 then 66 else 128.

(* is [o] the answer to [q]?  RFC 7252: the token is echoed; a confirmable request is
   answered by a piggybacked ACK carrying the request's message ID *)
Definition spec_response (q : greq) (o : owire) : bool :=
  bytes_eqb (ow_tok o) (q_tok q)
  && (if q_route q =? 0 then (ow_code o =? 132) && (ow_plen o =? 0)
      else (ow_code o =? spec_code (q_code q)) && (ow_plen o =? blen (q_route q :: q_pay q)) && (ow_pcs o =? csum (q_route q :: q_pay q)))
  && (if q_typ q =? 0 then (ow_typ o =? 2) && (ow_mid o =? q_mid q) else (ow_typ o =? 0) || (ow_typ o =? 1)).

(* one handler invocation as logged by the application: token, method, payload *)
Record hcall := HC { hc_tok : list Z; hc_code : Z; hc_plen : Z; hc_pcs : Z }.

Definition hcall_of (q : greq) : hcall :=
  {| hc_tok := q_tok q; hc_code := q_code q; hc_plen := blen (q_pay q); hc_pcs := csum (q_pay q) |}.
Definition hcall_eqb (a b : hcall) : bool :=
  bytes_eqb (hc_tok a) (hc_tok b) && (hc_code a =? hc_code b) && (hc_plen a =? hc_plen b) && (hc_pcs a =? hc_pcs b).

(* requests in order, a retransmission (message ID seen before) counted once *)
Fixpoint distinct_reqs (seen : list Z) (qs : list greq) : list greq :=
  match qs with
  | [] => []
  | q :: r => if existsb (Z.eqb (q_mid q)) seen then distinct_reqs seen r else q :: distinct_reqs (q_mid q :: seen) r
  end.

(* what one well-behaved client saw: its requests with the answer received for each
   (None = no answer within the watchdog), the number of connections the server
   announced for its address, the number of errors the server attributed to its
   address, the application's log for its address *)
Definition good_responses_ok (xs : list (greq * option owire)) : bool :=
  forallb (fun x => match snd x with Some o => spec_response (fst x) o | None => false end) xs.
Definition good_order_ok (xs : list (greq * option owire)) (log : list hcall) : bool :=
  list_eqb hcall_eqb (map hcall_of (distinct_reqs [] (map fst xs))) log.

(* classes: 1 server stopped / unresponsive, 2 panic, 3 a well-behaved client's answers are not those of its
   own requests, 4 not exactly one logical connection for an address that stayed open, 5 requests reached
   the application out of order / twice / not at all, 6 a well-behaved peer's connection was closed by an error *)
Definition c10_run_class (alive probe stopped : bool) (panics : Z)
           (goods : list (list (greq * option owire) * Z * Z * list hcall)) : N :=
  if negb (alive && probe && stopped) then 1%N
  else if negb (panics =? 0) then 2%N
  else if negb (forallb (fun g => good_responses_ok (fst (fst (fst g)))) goods) then 3%N
  else if negb (forallb (fun g => snd (fst (fst g)) =? 1) goods) then 4%N
  else if negb (forallb (fun g => good_order_ok (fst (fst (fst g))) (snd g)) goods) then 5%N
  else if negb (forallb (fun g => snd (fst g) =? 0) goods) then 6%N
  else 0%N.

(* the receive path of one message: "a server keeps serving for every sequence of well-formed and malformed
   datagrams [and] frames ...: it never crashes, deadlocks or stops accepting".  Whatever the bytes are, handing
   one received message to the decoder of the connection must come back (with a message or with an error): the
   udp server decodes inside the one read loop that all peers share, a stream server inside the reader of the
   connection, which Stop waits for.  [returned] = per received message, the decode call returned before the
   harness's cut-off (more attempts than the message has bytes); [panicked] likewise.
   Classes: 2 panic, 13 the decode of a received message does not return. *)
Definition c10_decode_class (returned panicked : list bool) : N :=
  if existsb (fun b => b) panicked then 2%N
  else if forallb (fun b => b) returned then 0%N else 13%N.

(* "A server keeps serving for every sequence of well-formed and malformed datagrams ...: it never crashes".  The
   server of a run lives in a process of its own; [reason] says how that process ended before the run was over
   (1 = the Go runtime reported a panic or a fatal error, 2 = it ended in another way, 3 = it had to be killed after
   the watchdog on the whole run).  A server process that is gone has crashed, whatever was sent to it: class 2;
   one that had to be killed no longer serves: class 1. *)
Definition c10_crash_class (reason : Z) : N := if reason =? 3 then 1%N else 2%N.

(* "messages from one remote address are handled by one logical connection ... in arrival order": a peer sends the
   requests number 0 .. n-1 back to back from one socket (more of them than the connection's received-message queue
   holds, while the application is busy); [order] = the numbers in the order the application saw them.  Every request
   must reach the application exactly once, in that order: class 5 otherwise (1 / 2 as for every run). *)
Definition c10_burst_class (alive probe stopped : bool) (panics : Z) (peers : list (Z * list Z)) : N :=
  if negb (alive && probe && stopped) then 1%N
  else if negb (panics =? 0) then 2%N
  else if forallb (fun p => list_eqb Z.eqb (snd p) (map Z.of_nat (seq 0 (Z.to_nat (fst p))))) peers then 0%N
  else 5%N.

(* listeners with a handshake (TLS over TCP, DTLS): "never ... stops accepting ... stalled handshakes ... of one peer
   never change what other peers receive".  Every peer that performs its own handshake properly -- whether it
   connected before or AFTER peers that send nothing, stall in the middle of their ClientHello, send garbage or
   go away -- must see its handshake complete within the watchdog: class 10 otherwise.  What such a peer then
   receives is judged by [c10_run_class] like every other well-behaved client. *)
Definition c10_handshake_class (completed : list bool) : N :=
  if forallb (fun b => b) completed then 0%N else 10%N.

(* discovery, step by step as the harness drives it: a discovery request registers its receiver for its
   token until it returns; every response sent to the server must be handed to the receiver registered for
   its token at that time -- exactly once, with the connection of the peer that sent it (identified by the
   sender's port) -- and to nobody else; responses with an unregistered token go to the application. *)
Inductive dstep :=
| DS_Start (tok : list Z) (rcv : Z) (o_exists : bool)        (* observed: ErrKeyAlreadyExists *)
| DS_StartFail (tok : list Z) (rcv : Z) (o_res : Z)           (* a request whose datagram cannot be sent (destination of
                                                                  another address family, oversize datagram); observed:
                                                                  what the call returned: 0 = nil, 1 = ErrKeyAlreadyExists,
                                                                  2 = another error *)
| DS_End (tok : list Z)
| DS_Resp (sender : Z) (tok : list Z) (tag : Z)
          (o_deliv : list (Z * Z * Z))                         (* observed: (receiver, port of the connection passed, tag) *)
          (o_app : bool)                                       (* observed: the application handler saw it *)
| DS_Ping.                                                     (* other traffic of a responder (flow-control ping) *)

Definition deliv_eqb (a b : Z * Z * Z) : bool :=
  (fst (fst a) =? fst (fst b)) && (snd (fst a) =? snd (fst b)) && (snd a =? snd b).
Fixpoint tok_lookup (t : list (list Z * Z)) (tok : list Z) : option Z :=
  match t with [] => None | (k, r) :: rest => if bytes_eqb k tok then Some r else tok_lookup rest tok end.

(* 0 = as the property demands; 7 = a response was handed to somebody other than the receiver registered for its
   token at that time (or not handed to it, or handed over twice, or with another peer's connection); 12 = a token
   that no request in progress holds was reported as taken (ErrKeyAlreadyExists).  A request is "in progress" from
   the moment its call registered the receiver until the call returns -- however it returns: cancelled, server
   stopped, or AT ONCE because its datagram could not be sent (DS_StartFail).  A call that has returned holds
   nothing: its receiver gets no later response, its token can be used again. *)
Fixpoint disc_class (reg : list (list Z * Z)) (steps : list dstep) : N :=
  match steps with
  | [] => 0%N
  | DS_Start tok rcv ex :: r =>
      match tok_lookup reg tok with
      | Some _ => if ex then disc_class reg r else 7%N
      | None => if ex then 12%N else disc_class ((tok, rcv) :: reg) r
      end
  | DS_StartFail tok rcv res :: r =>
      match tok_lookup reg tok with
      | Some _ => disc_class reg r
      | None => if res =? 1 then 12%N else disc_class reg r
      end
  | DS_End tok :: r => disc_class (filter (fun x => negb (bytes_eqb (fst x) tok)) reg) r
  | DS_Resp sender tok tag od oa :: r =>
      if match tok_lookup reg tok with
         | Some rcv => list_eqb deliv_eqb od [(rcv, sender, tag)] && negb oa
         | None => match od with [] => oa | _ => false end
         end
      then disc_class reg r else 7%N
  | DS_Ping :: r => disc_class reg r
  end.
Definition disc_ok (reg : list (list Z * Z)) (steps : list dstep) : bool := N.eqb (disc_class reg steps) 0.

(* servers with keep-alive (options.WithKeepAlive) and several peers: "garbage, oversize messages, stalled
   handshakes or the closure of one peer never change what other peers receive" -- connect-and-stall peers that
   never answer the server's pings and are dropped by keep-alive included.  Differential, on observations only:
   every peer is observed twice, in the run WITH the other peers and in a run in which it is ALONE with the same
   server configuration, the same events of its own at the same (virtual) times and the same housekeeping rounds.
   What the server does to it -- the pings it sends to it at each round, the round at which it closes its
   connection, whether its requests are answered -- must be the same in both.  Nothing is demanded here about
   WHEN a lone peer is pinged or dropped (that is C18's matter): only that the others make no difference. *)
Module KM := GoCoap.Monitor.Model.
Definition kitem := (KM.ev * list KM.obs)%type.
Definition kev_eqb (a b : KM.ev) : bool :=
  match a, b with
  | KM.Recv x, KM.Recv y => x =? y
  | KM.Pong g x, KM.Pong h y => (g =? h) && (x =? y)
  | KM.PongCb g, KM.PongCb h => g =? h
  | KM.Tick x p, KM.Tick y q => (x =? y) && Bool.eqb p q
  | KM.Dgram x p, KM.Dgram y q => (x =? y) && Bool.eqb p q
  | _, _ => false
  end.
Definition kobs_eqb (a b : KM.obs) : bool :=
  match a, b with
  | KM.Cancel x, KM.Cancel y => x =? y
  | KM.Ping x, KM.Ping y => x =? y
  | KM.PingFail x, KM.PingFail y => x =? y
  | KM.Close, KM.Close => true
  | _, _ => false
  end.
Definition kitem_eqb (a b : kitem) : bool := kev_eqb (fst a) (fst b) && list_eqb kobs_eqb (snd a) (snd b).

(* per peer: (seen with the others, seen alone), each = (trace, were its requests answered correctly) *)
Definition c10_keepalive_class (peers : list ((list kitem * list bool) * (list kitem * list bool))) : N :=
  if forallb (fun p => list_eqb kitem_eqb (fst (fst p)) (fst (snd p)) && list_eqb Bool.eqb (snd (fst p)) (snd (snd p))) peers
  then 0%N else 11%N.

(* ---- round 3: the same address in two representations, tokens that differ by zero bytes in front ---- *)

(* "one logical connection per (remote, local) address pair".  An address is an IP address, a port and a zone.  An
   IPv4 address a.b.c.d may be held in 4 bytes or in 16 bytes (::ffff:a.b.c.d) -- package net: "a 16-byte slice can
   still be an IPv4 address" -- and is the same address either way; the kernel reports the peer of an AF_INET socket
   in the first form, net.ResolveUDPAddr / net.ParseIP / net.IPv4 hand the application the second. *)
Definition spec_mapped_prefix : list Z := [0; 0; 0; 0; 0; 0; 0; 0; 0; 0; 255; 255].
Definition spec_ip_id (ip : list Z) : list Z :=
  if (blen ip =? 16) && bytes_eqb (firstn 12 ip) spec_mapped_prefix then skipn 12 ip else ip.
Definition sp_addr := (list Z * Z * Z)%type.       (* IP bytes, port, zone *)
Definition spec_same_addr (a b : sp_addr) : bool :=
  bytes_eqb (spec_ip_id (fst (fst a))) (spec_ip_id (fst (fst b))) && (snd (fst a) =? snd (fst b)) && (snd a =? snd b).

(* two (remote, local) pairs and whether the server keys them alike: the same pair must get the same key (else one
   pair is served by two connections), different remote addresses must get different keys (else two peers share a
   connection).  Nothing is demanded about different LOCAL addresses (multicast groups and the wildcard are merged
   on purpose). *)
Definition key_pair_class (r1 l1 r2 l2 : sp_addr) (o_eq : bool) : N :=
  if spec_same_addr r1 r2 && spec_same_addr l1 l2 && negb o_eq then 4%N
  else if negb (spec_same_addr r1 r2) && o_eq then 4%N
  else 0%N.

(* a run against a server with ONE local address during which no connection is closed: every observation names the
   remote address it concerns, the connection (numbered in the order the server announced them; negative = the
   server returned an error) that served it -- the connection the application's handler was given for a datagram
   of the peer, the connection Server.NewConn returned for the address -- and whether the exchange went as it
   should (the peer's request was answered; the peer's answer to a request the server sent over "the" connection
   of that peer came back to that request and not to the application as a stray response).
   1 = the server returned an error, 3 = an exchange failed, 4 = a remote address was served by two connections, or
   two remote addresses by one. *)
Fixpoint rep_find (seen : list (sp_addr * Z)) (a : sp_addr) : option Z :=
  match seen with [] => None | (b, c) :: r => if spec_same_addr a b then Some c else rep_find r a end.
Fixpoint rep_class (seen : list (sp_addr * Z)) (obs : list (sp_addr * Z * Z)) : N :=
  match obs with
  | [] => 0%N
  | (a, c, res) :: r =>          (* res: 0 = the exchange went as it should, 1 = no answer, 2 = the peer's answer was
                                   handled as a stray response, i.e. by a connection other than the one asked *)
      if c <? 0 then 1%N
      else if res =? 2 then 4%N
      else match rep_find seen a with
           | Some c' => if negb (c =? c') then 4%N else if negb (res =? 0) then 3%N else rep_class seen r
           | None => if existsb (fun x => snd x =? c) seen then 4%N
                     else if negb (res =? 0) then 3%N else rep_class ((a, c) :: seen) r
           end
  end.
