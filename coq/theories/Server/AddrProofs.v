(* Theorems about addresses at the byte level and the key of the peer table (Server/Addr.v). *)
From Coq Require Import ZArith List Bool Lia.
From GoCoap Require Import Base.Bytes Server.Model Server.Proofs Server.Addr.
Import ListNotations.
Open Scope Z_scope.

Lemma bytes_eqb_true : forall a b, bytes_eqb a b = true -> a = b.
Proof.
  unfold bytes_eqb. induction a as [|x a IH]; intros [|y b] H; cbn [list_eqb] in H; try discriminate; [reflexivity|].
  apply andb_prop in H as [H1 H2]. apply Z.eqb_eq in H1. apply IH in H2. congruence.
Qed.

(* ---------- shapes of a valid net.IP ---------- *)
Lemma valid_ip_inv ip : valid_ip ip = true ->
  bytes_ok ip = true /\ (length ip = 0 \/ length ip = 4 \/ length ip = 16)%nat.
Proof.
  unfold valid_ip, blen. intro H. apply andb_prop in H as [Hb H]. split; [exact Hb|].
  apply orb_prop in H as [H|H]; [apply orb_prop in H as [H|H]|]; apply Z.eqb_eq in H; lia.
Qed.

Ltac by_len ip L :=
  cbn [length] in L;
  first [ discriminate L
        | destruct ip as [|? ip]; [ try discriminate L | by_len ip L ] ].

Ltac ip_cases ip H :=
  let Hb := fresh "Hb" in let L := fresh "L" in
  destruct (valid_ip_inv ip H) as [Hb [L|[L|L]]]; by_len ip L; clear L.

(* decide the comparisons of the bytes with the constants 0 and 255 one by one *)
Ltac eqb_split :=
  repeat (cbn; try reflexivity; try congruence;
          match goal with
          | |- context [Z.eqb ?x ?c] => is_var x; destruct (Z.eqb_spec x c) as [->|?]
          end).

(* ---------- everything getConnKey looks at is a function of the bytes the text is made from ---------- *)
Definition unspec_canon (c : nip) : bool := bytes_eqb c [0; 0; 0; 0] || bytes_eqb c (repeat 0 16).
Definition mc_canon (c : nip) : bool :=
  match c with
  | b :: _ => if blen c =? 4 then b / 16 =? 14 else if blen c =? 16 then b =? 255 else false
  | [] => false
  end.
Definition text_canon (c : nip) : ptext :=
  if blen c =? 0 then TEmpty else if blen c =? 4 then TV4 c else TV6 c.
Definition abs_canon (c : nip) : Model.ip :=
  if blen c =? 0 then IPnone
  else if unspec_canon c then IPunspec (negb (blen c =? 4))
  else if mc_canon c then IPmcast (num_r (rev c))
  else IPhost (num_r (rev c)).

Lemma unspec_is_canon ip : valid_ip ip = true -> is_unspecified_c ip = unspec_canon (canon ip).
Proof. intro H. ip_cases ip H; unfold is_unspecified_c, ip_equal, unspec_canon, canon, to4; eqb_split. Qed.

Lemma mcast_is_canon ip : valid_ip ip = true -> is_multicast_c ip = mc_canon (canon ip).
Proof. intro H. ip_cases ip H; unfold is_multicast_c, mc_canon, canon, to4; eqb_split. Qed.

Lemma text_is_canon ip : valid_ip ip = true -> ip_text ip = text_canon (canon ip).
Proof. intro H. ip_cases ip H; unfold ip_text, text_canon, canon, to4; eqb_split. Qed.

Lemma six_is_canon ip : valid_ip ip = true -> blen ip =? 0 = false ->
  match to4 ip with Some _ => false | None => true end = negb (blen (canon ip) =? 4).
Proof. intros H H0. ip_cases ip H; try discriminate H0; unfold canon, to4; eqb_split. Qed.

Lemma len0_is_canon ip : valid_ip ip = true -> (blen ip =? 0) = (blen (canon ip) =? 0).
Proof. intro H. ip_cases ip H; unfold canon, to4; eqb_split. Qed.

Lemma abs_is_canon ip : valid_ip ip = true -> abs_ip ip = abs_canon (canon ip).
Proof.
  intro H. unfold abs_ip, abs_canon, ip_num.
  rewrite <- (len0_is_canon ip H), <- (unspec_is_canon ip H), <- (mcast_is_canon ip H).
  destruct (blen ip =? 0) eqn:E0; [reflexivity|]. rewrite (six_is_canon ip H E0). reflexivity.
Qed.

(* the canonical bytes of a valid IP: nothing, four or sixteen bytes *)
Definition canon_ok (c : nip) : Prop := bytes_ok c = true /\ (length c = 0 \/ length c = 4 \/ length c = 16)%nat.

Lemma canon_valid ip : valid_ip ip = true -> canon_ok (canon ip).
Proof.
  intro H. unfold canon_ok. ip_cases ip H; unfold canon, to4.
  - cbn. auto.
  - cbn. auto.
  - cbn -[bytes_ok]. match goal with |- context [if ?b then _ else _] => destruct b end.
    + split; [|cbn; auto]. unfold bytes_ok in *. cbn [forallb] in *.
      repeat match goal with Hx : _ && _ = true |- _ => apply andb_prop in Hx as [? Hx] end.
      repeat (apply andb_true_intro; split; try assumption).
    + split; [assumption|cbn; auto].
Qed.

(* ---------- injectivity ---------- *)
Lemma num_r_pos l : 1 <= num_r l \/ bytes_ok l = false.
Proof.
  induction l as [|b r IH]; [left; cbn; lia|]. cbn [num_r]. unfold bytes_ok in *. cbn [forallb].
  destruct (byte_ok b) eqn:Eb; [|right; reflexivity]. cbn [andb]. destruct IH as [IH|IH]; [|right; exact IH].
  left. unfold byte_ok in Eb. lia.
Qed.

Lemma num_r_inj : forall l l', bytes_ok l = true -> bytes_ok l' = true -> num_r l = num_r l' -> l = l'.
Proof.
  induction l as [|b r IH]; intros [|b' r'] Hl Hl' H.
  - reflexivity.
  - exfalso. cbn [num_r] in H. apply bytes_ok_head in Hl' as [Hb' Hr'].
    destruct (num_r_pos r') as [P|P]; [lia|congruence].
  - exfalso. cbn [num_r] in H. apply bytes_ok_head in Hl as [Hb Hr].
    destruct (num_r_pos r) as [P|P]; [lia|congruence].
  - cbn [num_r] in H. apply bytes_ok_head in Hl as [Hb Hr]. apply bytes_ok_head in Hl' as [Hb' Hr'].
    assert (b = b' /\ num_r r = num_r r') as [-> Hn] by lia.
    f_equal. apply IH; assumption.
Qed.

Lemma bytes_ok_rev l : bytes_ok l = true -> bytes_ok (rev l) = true.
Proof.
  unfold bytes_ok. rewrite !forallb_forall. intros H x Hx. apply H. apply in_rev. exact Hx.
Qed.

Lemma num_rev_inj l l' : bytes_ok l = true -> bytes_ok l' = true -> num_r (rev l) = num_r (rev l') -> l = l'.
Proof.
  intros Hl Hl' H. apply num_r_inj in H; [|apply bytes_ok_rev; assumption|apply bytes_ok_rev; assumption].
  rewrite <- (rev_involutive l), <- (rev_involutive l'), H. reflexivity.
Qed.

Ltac canon_cases c H :=
  let Hb := fresh "Hb" in let L := fresh "L" in
  destruct H as [Hb [L|[L|L]]]; by_len c L; clear L.

Lemma text_canon_inj c c' : canon_ok c -> canon_ok c' -> text_canon c = text_canon c' -> c = c'.
Proof.
  intros H H' E. canon_cases c H; canon_cases c' H'; cbn in E; try discriminate E; try reflexivity;
    injection E; intros; subst; reflexivity.
Qed.

Lemma unspec_canon_shape c : canon_ok c -> unspec_canon c = true -> c = [0; 0; 0; 0] \/ c = repeat 0 16.
Proof.
  intros H E. unfold unspec_canon in E. apply orb_prop in E as [E|E]; apply bytes_eqb_true in E; auto.
Qed.

Lemma abs_canon_inj c c' : canon_ok c -> canon_ok c' -> abs_canon c = abs_canon c' -> c = c'.
Proof.
  intros H H' E. unfold abs_canon in E.
  destruct (blen c =? 0) eqn:E0; destruct (blen c' =? 0) eqn:E0'.
  - destruct c; [|apply Z.eqb_eq in E0; unfold blen in E0; cbn [length] in E0; lia].
    destruct c'; [reflexivity|apply Z.eqb_eq in E0'; unfold blen in E0'; cbn [length] in E0'; lia].
  - destruct (unspec_canon c'); [discriminate|destruct (mc_canon c'); discriminate].
  - destruct (unspec_canon c); [discriminate|destruct (mc_canon c); discriminate].
  - destruct (unspec_canon c) eqn:U; destruct (unspec_canon c') eqn:U'.
    + destruct (unspec_canon_shape c H U) as [->| ->]; destruct (unspec_canon_shape c' H' U') as [->| ->];
        cbn in E; try discriminate E; reflexivity.
    + destruct (mc_canon c'); discriminate.
    + destruct (mc_canon c); discriminate.
    + destruct H as [Hb _], H' as [Hb' _].
      destruct (mc_canon c); destruct (mc_canon c'); try discriminate; injection E as E; apply num_rev_inj; assumption.
Qed.

(* ---------- the abstraction is faithful ---------- *)
(* two valid IPs print alike iff they have the same canonical bytes iff Model.v's abstract IPs are equal *)
Theorem ip_text_iff_canon a b : valid_ip a = true -> valid_ip b = true ->
  (ip_text a = ip_text b <-> canon a = canon b).
Proof.
  intros Ha Hb. rewrite (text_is_canon a Ha), (text_is_canon b Hb). split; intro H.
  - apply text_canon_inj; [apply canon_valid; exact Ha|apply canon_valid; exact Hb|exact H].
  - rewrite H. reflexivity.
Qed.

Theorem abs_ip_iff_canon a b : valid_ip a = true -> valid_ip b = true ->
  (abs_ip a = abs_ip b <-> canon a = canon b).
Proof.
  intros Ha Hb. rewrite (abs_is_canon a Ha), (abs_is_canon b Hb). split; intro H.
  - apply abs_canon_inj; [apply canon_valid; exact Ha|apply canon_valid; exact Hb|exact H].
  - rewrite H. reflexivity.
Qed.

Theorem abs_ip_iff_text a b : valid_ip a = true -> valid_ip b = true ->
  (abs_ip a = abs_ip b <-> ip_text a = ip_text b).
Proof. intros Ha Hb. rewrite (abs_ip_iff_canon a b Ha Hb), (ip_text_iff_canon a b Ha Hb). tauto. Qed.

Theorem abs_addr_iff_text a b : valid_addr a = true -> valid_addr b = true ->
  (abs_addr a = abs_addr b <-> addr_text a = addr_text b).
Proof.
  intros Ha Hb. destruct a as [ia pa za], b as [ib pb zb]. unfold valid_addr in *. cbn [n_ip] in *.
  unfold abs_addr, addr_text. cbn [n_ip n_port n_zone]. split; intro H.
  - injection H as H1 -> ->. apply (abs_ip_iff_text ia ib Ha Hb) in H1. rewrite H1. reflexivity.
  - injection H as H1 -> ->. apply (abs_ip_iff_text ia ib Ha Hb) in H1. rewrite H1. reflexivity.
Qed.

(* an unspecified address is not a multicast group *)
Lemma unspec_not_mcast ip : valid_ip ip = true -> is_unspecified_c ip = true -> is_multicast_c ip = false.
Proof.
  intros H U. rewrite (unspec_is_canon ip H) in U. rewrite (mcast_is_canon ip H).
  destruct (unspec_canon_shape _ (canon_valid ip H) U) as [-> | ->]; reflexivity.
Qed.

Lemma abs_ip_class ip : valid_ip ip = true ->
  ip_nonempty (abs_ip ip) = (0 <? blen ip) /\
  ip_is_unspecified (abs_ip ip) = ((0 <? blen ip) && is_unspecified_c ip) /\
  ip_is_multicast (abs_ip ip) = ((0 <? blen ip) && is_multicast_c ip).
Proof.
  intro H. unfold abs_ip. destruct (blen ip =? 0) eqn:E0.
  - apply Z.eqb_eq in E0. rewrite E0. cbn. auto.
  - assert (0 <? blen ip = true) as -> by (apply Z.ltb_lt; apply Z.eqb_neq in E0; unfold blen in *; lia).
    destruct (is_unspecified_c ip) eqn:U.
    + rewrite (unspec_not_mcast ip H U). cbn. auto.
    + destruct (is_multicast_c ip); cbn; auto.
Qed.

Lemma valid_clear l : valid_addr (clear_ip_c l) = true.
Proof. reflexivity. Qed.

(* getConnKey's normalisation commutes with the abstraction *)
Theorem norm_local_abs l : valid_addr l = true -> abs_addr (norm_local_c l) = norm_local (abs_addr l).
Proof.
  intro H. destruct l as [i p z]. unfold valid_addr in H. cbn [n_ip] in H.
  destruct (abs_ip_class i H) as [Hn [Hu Hm]].
  unfold norm_local_c, norm_local, abs_addr. cbn [n_ip n_port n_zone a_ip a_port a_zone].
  rewrite Hn, Hm.
  destruct (0 <? blen i) eqn:P; cbn [andb].
  - destruct (is_multicast_c i) eqn:M.
    + cbn. reflexivity.
    + cbn [n_ip a_ip]. rewrite Hn, Hu, P. cbn [andb]. destruct (is_unspecified_c i); cbn; reflexivity.
  - cbn [n_ip a_ip]. rewrite Hn, P. cbn [andb]. reflexivity.
Qed.

Lemma valid_norm l : valid_addr l = true -> valid_addr (norm_local_c l) = true.
Proof.
  intro H. unfold norm_local_c.
  destruct ((0 <? blen (n_ip l)) && is_multicast_c (n_ip l)).
  - cbn. reflexivity.
  - destruct ((0 <? blen (n_ip l)) && is_unspecified_c (n_ip l)); [reflexivity|exact H].
Qed.

Theorem can_fallback_abs l : valid_addr l = true -> can_fallback (abs_addr l) = can_fallback_c l.
Proof.
  intro H. destruct l as [i p z]. unfold valid_addr in H. cbn [n_ip] in H.
  destruct (abs_ip_class i H) as [Hn [Hu Hm]].
  unfold can_fallback, can_fallback_c, abs_addr. cbn [a_ip n_ip]. rewrite Hn, Hu, Hm.
  destruct (0 <? blen i); cbn; reflexivity.
Qed.

Theorem to_wildcard_abs l : abs_addr (to_wildcard_c l) = to_wildcard (abs_addr l).
Proof. reflexivity. Qed.

(* the key of Model.v on the abstracted addresses is equal exactly when the keys getConnKey builds are *)
Theorem key_abs_faithful r1 l1 r2 l2 :
  valid_addr r1 = true -> valid_addr l1 = true -> valid_addr r2 = true -> valid_addr l2 = true ->
  (conn_key (abs_addr r1) (abs_addr l1) = conn_key (abs_addr r2) (abs_addr l2) <-> key_c r1 l1 = key_c r2 l2).
Proof.
  intros Hr1 Hl1 Hr2 Hl2. unfold conn_key, key_c.
  rewrite <- (norm_local_abs l1 Hl1), <- (norm_local_abs l2 Hl2).
  pose proof (abs_addr_iff_text r1 r2 Hr1 Hr2) as Hr.
  pose proof (abs_addr_iff_text _ _ (valid_norm l1 Hl1) (valid_norm l2 Hl2)) as Hl.
  split; intro H; apply pair_equal_spec in H as [H1 H2]; apply pair_equal_spec; split.
  - apply Hr. exact H1.
  - apply Hl. exact H2.
  - apply Hr. exact H1.
  - apply Hl. exact H2.
Qed.

(* ---------- the two representations of an IPv4 address ---------- *)
Lemma canon_v4 p : length p = 4%nat -> canon p = p /\ canon (v4_as_16 p) = p.
Proof.
  intro L. by_len p L. unfold canon, v4_as_16, to4. cbn. auto.
Qed.

Lemma valid_v4 p : length p = 4%nat -> bytes_ok p = true -> valid_ip p = true /\ valid_ip (v4_as_16 p) = true.
Proof.
  intros L Hb. unfold valid_ip. by_len p L. split.
  - rewrite Hb. reflexivity.
  - unfold v4_as_16, bytes_ok in *. cbn [app forallb v4_in_v6_prefix] in *. cbn -[byte_ok]. rewrite Hb. reflexivity.
Qed.

(* the key does not depend on which of the two representations the remote or the local address comes in *)
Theorem key_representation_independent pr pl portr zr portl zl :
  length pr = 4%nat -> bytes_ok pr = true -> length pl = 4%nat -> bytes_ok pl = true ->
  let r4 := NA pr portr zr in let r16 := NA (v4_as_16 pr) portr zr in
  let l4 := NA pl portl zl in let l16 := NA (v4_as_16 pl) portl zl in
  key_c r16 l4 = key_c r4 l4 /\ key_c r4 l16 = key_c r4 l4 /\ key_c r16 l16 = key_c r4 l4.
Proof.
  intros Lr Br Ll Bl r4 r16 l4 l16.
  destruct (valid_v4 pr Lr Br) as [Vr4 Vr16]. destruct (valid_v4 pl Ll Bl) as [Vl4 Vl16].
  destruct (canon_v4 pr Lr) as [Cr4 Cr16]. destruct (canon_v4 pl Ll) as [Cl4 Cl16].
  assert (Er : abs_addr r16 = abs_addr r4).
  { unfold abs_addr, r16, r4. cbn [n_ip n_port n_zone]. f_equal. apply abs_ip_iff_canon; congruence. }
  assert (El : abs_addr l16 = abs_addr l4).
  { unfold abs_addr, l16, l4. cbn [n_ip n_port n_zone]. f_equal. apply abs_ip_iff_canon; congruence. }
  repeat split; apply key_abs_faithful; try assumption; rewrite ?Er, ?El; reflexivity.
Qed.

(* different remote addresses never share a key: whoever the key belongs to is determined by it *)
Theorem key_determines_remote r1 l1 r2 l2 : valid_addr r1 = true -> valid_addr r2 = true ->
  key_c r1 l1 = key_c r2 l2 ->
  canon (n_ip r1) = canon (n_ip r2) /\ n_port r1 = n_port r2 /\ n_zone r1 = n_zone r2.
Proof.
  intros H1 H2 H. unfold key_c in H. apply pair_equal_spec in H as [Hr _]. unfold addr_text in Hr.
  apply pair_equal_spec in Hr as [Hr Hz]. apply pair_equal_spec in Hr as [Hi Hp].
  split; [|split; assumption]. apply ip_text_iff_canon; assumption.
Qed.

(* contrast (NOT the code): the key made of the raw bytes gives ONE address pair TWO keys *)
Theorem raw_key_splits_a_peer p port z l : length p = 4%nat ->
  raw_key (NA (v4_as_16 p) port z) l <> raw_key (NA p port z) l.
Proof.
  intros L H. unfold raw_key, raw_addr in H. cbn [n_ip] in H. injection H as H.
  apply (f_equal (@length Z)) in H. unfold v4_as_16 in H. rewrite app_length, L in H. cbn in H. discriminate.
Qed.
