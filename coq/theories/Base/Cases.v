(* Helpers shared by all Run.v evaluators: cases are numbered from 0 in the
   order the harness wrote them. *)
From Coq Require Import NArith List Bool.
Import ListNotations.

Section Idx.
  Context {A : Type}.
  (* indices of the cases on which [bad] holds *)
  Fixpoint bad_from (bad : A -> bool) (i : N) (l : list A) : list N :=
    match l with
    | [] => []
    | x :: r => if bad x then i :: bad_from bad (N.succ i) r else bad_from bad (N.succ i) r
    end.
  Definition bad_indices (bad : A -> bool) (l : list A) : list N := bad_from bad 0%N l.

  (* (index, class) for the cases whose class is non-zero *)
  Fixpoint cls_from (cls : A -> N) (i : N) (l : list A) : list (N * N) :=
    match l with
    | [] => []
    | x :: r => let c := cls x in
                if N.eqb c 0 then cls_from cls (N.succ i) r else (i, c) :: cls_from cls (N.succ i) r
    end.
  Definition classes (cls : A -> N) (l : list A) : list (N * N) := cls_from cls 0%N l.
End Idx.
