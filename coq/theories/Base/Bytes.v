(* Bytes are Z in 0..255 throughout the development. Large payloads are never
   written literally in case files: both the Go harness (harness/emit.go:
   genBody, csum) and the models expand (salt, length) with the same functions. *)
From Coq Require Import ZArith NArith List Bool.
Import ListNotations.
Open Scope Z_scope.

Definition blen {A} (l : list A) : Z := Z.of_nat (length l).

(* byte i of the body = (7 * i + salt) mod 251 *)
Fixpoint gen_body_from (n : nat) (i salt : Z) : list Z :=
  match n with
  | O => []
  | S n' => ((7 * i + salt) mod 251) :: gen_body_from n' (i + 1) salt
  end.
Definition gen_body (salt : Z) (n : nat) : list Z := gen_body_from n 0 salt.

(* order-sensitive checksum of a byte string, 48 bits *)
Definition M48 : Z := Z.ones 48.
Definition csum (l : list Z) : Z :=
  fold_left (fun h b => Z.land (h * 131 + b + 1) M48) l 0.

(* big-endian value of a byte string *)
Definition be (l : list Z) : Z := fold_left (fun a b => a * 256 + b) l 0.

Definition byte_ok (b : Z) : bool := (0 <=? b) && (b <? 256).
Definition bytes_ok (l : list Z) : bool := forallb byte_ok l.

Fixpoint list_eqb {A} (eqb : A -> A -> bool) (a b : list A) : bool :=
  match a, b with
  | [], [] => true
  | x :: a', y :: b' => eqb x y && list_eqb eqb a' b'
  | _, _ => false
  end.
Definition bytes_eqb := list_eqb Z.eqb.

Lemma gen_body_from_length n i salt : length (gen_body_from n i salt) = n.
Proof. revert i; induction n as [|n IH]; intros i; cbn [gen_body_from length]; [reflexivity|]. rewrite IH. reflexivity. Qed.
Lemma gen_body_length salt n : length (gen_body salt n) = n.
Proof. apply gen_body_from_length. Qed.

(* heterogeneous pointwise comparison *)
Fixpoint list_rel {A B} (r : A -> B -> bool) (a : list A) (b : list B) : bool :=
  match a, b with
  | [], [] => true
  | x :: a', y :: b' => r x y && list_rel r a' b'
  | _, _ => false
  end.
