(* Interleavings of threads of atomic actions over a shared state, call/return
   histories, and the linearisation-point lemma (DESIGN.md Appendix A.2).

   A thread is a list of operations. An operation runs as a sequence of atomic
   actions: [act o l s] is the next action of operation [o] in local state [l]
   on shared state [s]; it returns [None] when it is not enabled (a lock that
   cannot be taken) and otherwise the new local state, the new shared state and
   [Some r] when this action was the operation's last one and the call returns [r].
   A schedule is a list of thread ids; each entry lets that thread perform its
   next micro-step: [Inv] (fetch the next call and record the invocation),
   one atomic action, or [Res] (record the response).

   Lists that grow are kept newest-first: [rhist] is the history reversed,
   [rlin] the ghost linearisation order reversed. [later x y l] says that [x]
   was added after [y]. *)
From Coq Require Import List Arith Bool Lia.
Import ListNotations.

Section Later.
  Context {A : Type}.
  Definition later (x y : A) (l : list A) : Prop :=
    exists X Y, l = X ++ x :: Y /\ In y Y.

  Lemma later_cons : forall x y z l, later x y (z :: l) <-> (z = x /\ In y l) \/ later x y l.
  Proof.
    intros x y z l; split.
    - intros (X & Y & HE & HI). destruct X as [|x0 X]; cbn in HE; inversion HE; subst.
      + left; auto.
      + right; exists X, Y; auto.
    - intros [[HE HI]|(X & Y & HE & HI)]; subst.
      + exists [], l; auto.
      + exists (z :: X), Y; auto.
  Qed.

  Lemma later_nil : forall x y, ~ later x y [].
  Proof. intros x y (X & Y & HE & _). destruct X; discriminate. Qed.

  Lemma later_in_l : forall x y l, later x y l -> In x l.
  Proof. intros x y l (X & Y & -> & _). apply in_or_app; right; left; auto. Qed.

  Lemma later_in_r : forall x y l, later x y l -> In y l.
  Proof. intros x y l (X & Y & -> & HI). apply in_or_app; right; right; auto. Qed.
End Later.

Section Upd.
  Context {A : Type}.
  Fixpoint upd (t : nat) (x : A) (l : list A) : list A :=
    match l, t with
    | [], _ => []
    | _ :: r, O => x :: r
    | y :: r, S t' => y :: upd t' x r
    end.

  Lemma nth_upd_eq : forall l t x y, nth_error l t = Some y -> nth_error (upd t x l) t = Some x.
  Proof. induction l as [|a l IH]; intros [|t] x y H; cbn in *; try discriminate; eauto. Qed.

  Lemma nth_upd_neq : forall l t t' x, t <> t' -> nth_error (upd t x l) t' = nth_error l t'.
  Proof.
    induction l as [|a l IH]; intros [|t] [|t'] x H; cbn; auto; try congruence.
  Qed.

  Lemma upd_length : forall l t x, length (upd t x l) = length l.
  Proof. induction l as [|a l IH]; intros [|t] x; cbn; auto. Qed.
End Upd.

Section Interleave.
  Variables St Op Loc Res : Type.
  Variable init_loc : Op -> Loc.
  Variable act : Op -> Loc -> St -> option (Loc * St * option Res).
  (* ghost: has the operation passed its linearisation point, and with which result *)
  Variable lp_res : Loc -> option Res.

  Inductive tstate := Idle | Running (o : Op) (l : Loc) | Finished (o : Op) (r : Res).
  Record thread := mkT { todo : list Op; cur : tstate; idx : nat }.
  Inductive event := EInv (t n : nat) (o : Op) | ERes (t n : nat) (o : Op) (r : Res).
  Record inst := mkI { i_t : nat; i_n : nat; i_op : Op; i_res : Res }.
  Record config := mkC { shared : St; threads : list thread; rhist : list event; rlin : list inst }.

  Definition init (s0 : St) (progs : list (list Op)) : config :=
    mkC s0 (map (fun p => mkT p Idle 0) progs) [] [].

  Definition step (c : config) (t : nat) : config :=
    match nth_error (threads c) t with
    | None => c
    | Some th =>
        match cur th with
        | Idle =>
            match todo th with
            | [] => c
            | o :: rest =>
                mkC (shared c) (upd t (mkT rest (Running o (init_loc o)) (idx th)) (threads c))
                    (EInv t (idx th) o :: rhist c) (rlin c)
            end
        | Running o l =>
            match act o l (shared c) with
            | None => c (* not enabled: the thread stays where it is *)
            | Some (l', s', d) =>
                let lin' := match lp_res l, lp_res l' with
                            | None, Some r => mkI t (idx th) o r :: rlin c
                            | _, _ => rlin c
                            end in
                let cur' := match d with None => Running o l' | Some r => Finished o r end in
                mkC s' (upd t (mkT (todo th) cur' (idx th)) (threads c)) (rhist c) lin'
            end
        | Finished o r =>
            mkC (shared c) (upd t (mkT (todo th) Idle (S (idx th))) (threads c))
                (ERes t (idx th) o r :: rhist c) (rlin c)
        end
    end.

  Definition exec (sched : list nat) (c : config) : config := fold_left step sched c.

  (* is thread t able to move? (used by harnesses: "blocked" must agree) *)
  Definition enabled (c : config) (t : nat) : bool :=
    match nth_error (threads c) t with
    | None => false
    | Some th =>
        match cur th with
        | Idle => match todo th with [] => false | _ => true end
        | Running o l => match act o l (shared c) with None => false | Some _ => true end
        | Finished _ _ => true
        end
    end.

  (* ---- sequential specification and linearizability ---- *)
  Variable spec : Op -> St -> St * Res.

  (* [rl] (newest first) is a legal sequential run from [s0] ending in [s'] *)
  Fixpoint rlegal (s0 : St) (rl : list inst) (s' : St) : Prop :=
    match rl with
    | [] => s' = s0
    | x :: r => exists s1, rlegal s0 r s1 /\ spec (i_op x) s1 = (s', i_res x)
    end.

  Definition ikey (x : inst) : nat * nat := (i_t x, i_n x).
  Definition inv_of (x : inst) : event := EInv (i_t x) (i_n x) (i_op x).
  Definition res_of (x : inst) : event := ERes (i_t x) (i_n x) (i_op x) (i_res x).

  (* A history (newest first) is linearizable from s0: there is a sequence of
     operation instances, each with the result it returned, that
       - is a legal sequential run of the specification,
       - contains every completed call (with the observed result) and only
         calls that were invoked (a pending call may or may not have taken effect),
       - and respects real time: if a returned before b was invoked then a
         comes before b. *)
  Definition linearizable_with (s0 : St) (rh : list event) (rl : list inst) (s' : St) : Prop :=
    NoDup (map ikey rl) /\
    rlegal s0 rl s' /\
    (forall t n o r, In (ERes t n o r) rh -> In (mkI t n o r) rl) /\
    (forall x, In x rl -> In (inv_of x) rh) /\
    (forall a b, In a rl -> In b rl -> later (inv_of b) (res_of a) rh -> later b a rl).

  Definition linearizable (s0 : St) (rh : list event) : Prop :=
    exists rl s', linearizable_with s0 rh rl s'.

  (* ---- the linearisation-point condition ---- *)
  Variable good : Op -> Prop.
  (* [linv]: an invariant of the local states an operation can reach *)
  Variable linv : Op -> Loc -> Prop.
  Definition lp_cond : Prop :=
    (forall o, lp_res (init_loc o) = None /\ linv o (init_loc o)) /\
    (forall o l s l' s' d, good o -> linv o l -> act o l s = Some (l', s', d) ->
       (d = None -> linv o l') /\
       match lp_res l, lp_res l' with
       | None, None => s' = s /\ d = None
       | None, Some r => spec o s = (s', r) /\ (d = None \/ d = Some r)
       | Some r, Some r' => r' = r /\ s' = s /\ (d = None \/ d = Some r)
       | Some _, None => False
       end).

  Definition thread_good (th : thread) : Prop :=
    Forall good (todo th) /\
    match cur th with Idle => True | Running o l => good o /\ linv o l | Finished o _ => good o end.

  (* per-thread part of the invariant *)
  Definition thread_inv (c : config) (t : nat) (th : thread) : Prop :=
    thread_good th /\
    (forall n o r, In (ERes t n o r) (rhist c) -> n < idx th) /\
    match cur th with
    | Idle => forall x, In x (rlin c) -> i_t x = t -> i_n x < idx th
    | Running o l =>
        In (EInv t (idx th) o) (rhist c) /\
        match lp_res l with
        | None => forall x, In x (rlin c) -> i_t x = t -> i_n x < idx th
        | Some r => In (mkI t (idx th) o r) (rlin c) /\
                    (forall x, In x (rlin c) -> i_t x = t -> i_n x <= idx th)
        end
    | Finished o r =>
        In (EInv t (idx th) o) (rhist c) /\ In (mkI t (idx th) o r) (rlin c) /\
        (forall x, In x (rlin c) -> i_t x = t -> i_n x <= idx th)
    end.

  Definition inv (s0 : St) (c : config) : Prop :=
    (forall t th, nth_error (threads c) t = Some th -> thread_inv c t th) /\
    linearizable_with s0 (rhist c) (rlin c) (shared c).

  Lemma inv_init : forall s0 progs, Forall (Forall good) progs -> inv s0 (init s0 progs).
  Proof.
    intros s0 progs HG; split.
    - intros t th Hn. unfold init in Hn; cbn in Hn.
      rewrite nth_error_map in Hn. destruct (nth_error progs t) as [p|] eqn:Hp; cbn in Hn; inversion Hn; subst.
      unfold thread_inv, thread_good; cbn.
      split; [split; auto|split].
      + rewrite Forall_forall in HG. apply HG. eapply nth_error_In; eauto.
      + intros n o r [].
      + intros x [].
    - unfold linearizable_with; cbn.
      split; [constructor|]. split; [reflexivity|].
      split; [intros t n o r []|]. split; [intros x []|intros a b []].
  Qed.

  Ltac inv_pair H := inversion H; subst; clear H.

  (* the invariant of a thread that did not move survives when the history
     gains no response of that thread and the ghost order gains no instance of it *)
  Lemma thread_inv_other : forall c c' t' th',
    thread_inv c t' th' ->
    (forall n o r, In (ERes t' n o r) (rhist c') -> In (ERes t' n o r) (rhist c)) ->
    (forall e, In e (rhist c) -> In e (rhist c')) ->
    (forall x, In x (rlin c') -> i_t x = t' -> In x (rlin c)) ->
    (forall x, In x (rlin c) -> In x (rlin c')) ->
    thread_inv c' t' th'.
  Proof.
    intros c c' t' th' (HG & HRes & Hcur) HR1 HR2 HL1 HL2.
    split; [exact HG|]. split; [intros n o r HI; eapply HRes; eauto|].
    destruct (cur th') as [|o l|o r].
    - intros x Hx Ht. apply Hcur; auto.
    - destruct Hcur as (HI & Hrest). split; [auto|].
      destruct (lp_res l).
      + destruct Hrest as (HI2 & Hle). split; [auto|]. intros x Hx Ht. apply Hle; auto.
      + intros x Hx Ht. apply Hrest; auto.
    - destruct Hcur as (HI & HI2 & Hle). split; [auto|]. split; [auto|].
      intros x Hx Ht. apply Hle; auto.
  Qed.

  Lemma inv_step : forall s0 c t, lp_cond -> inv s0 c -> inv s0 (step c t).
  Proof.
    intros s0 c t [HL0 HL1] [HT HLin].
    unfold step.
    destruct (nth_error (threads c) t) as [th|] eqn:Hth; [|split; auto].
    pose proof (HT t th Hth) as Hme.
    destruct Hme as ((HGtodo & HGcur) & HRes & Hcur).
    pose proof HLin as HLin0.
    destruct HLin as (HND & HLeg & HComp & HInv & HOrd).
    destruct (cur th) as [|o l|o r] eqn:Hc.
    - (* Inv *)
      destruct (todo th) as [|o rest] eqn:Htodo; [split; auto|].
      split.
      + intros t' th' Hn; cbn in Hn.
        destruct (Nat.eq_dec t t') as [<-|Hne].
        * erewrite nth_upd_eq in Hn by eauto. inv_pair Hn.
          unfold thread_inv, thread_good; cbn.
          inversion HGtodo; subst.
          destruct (HL0 o) as (HL0a & HL0b). rewrite HL0a.
          split; [split; auto|]. split.
          -- intros n o' r' [HE|HI]; [discriminate|eauto].
          -- split; [left; reflexivity|exact Hcur].
        * rewrite nth_upd_neq in Hn by auto.
          apply (thread_inv_other c); cbn; auto.
          intros n o' r' [HE|HI]; [discriminate|auto].
      + unfold linearizable_with; cbn.
        split; [auto|]. split; [auto|]. split.
        * intros t' n o' r' [HE|HI]; [discriminate|auto].
        * split; [intros x Hx; right; auto|].
          intros a b Ha Hb HL. apply later_cons in HL.
          destruct HL as [[HE HI]|HL]; [|auto].
          (* the freshly invoked instance is not in rlin *)
          exfalso. unfold inv_of in HE. inversion HE.
          assert (i_n b < idx th) by (apply Hcur; auto). lia.
    - (* Act *)
      destruct (act o l (shared c)) as [[[l' s'] d]|] eqn:Hact; [|split; auto].
      destruct HGcur as (HGo & HLinv).
      destruct (HL1 o l (shared c) l' s' d HGo HLinv Hact) as (HLinv' & HLP).
      destruct Hcur as (HInvIn & Hcur).
      set (cur' := match d with None => Running o l' | Some r => Finished o r end).
      destruct (lp_res l) as [r0|] eqn:Hl; destruct (lp_res l') as [r1|] eqn:Hl'; try contradiction.
      + (* after the LP *)
        destruct HLP as (-> & -> & Hd). destruct Hcur as (HIn & Hle).
        split.
        * intros t' th' Hn; cbn in Hn.
          destruct (Nat.eq_dec t t') as [<-|Hne].
          -- erewrite nth_upd_eq in Hn by eauto. inv_pair Hn.
             unfold thread_inv, thread_good; cbn. subst cur'.
             destruct Hd as [->| ->]; cbn; rewrite ?Hl';
               (split; [split; auto|]); (split; [exact HRes|]); auto.
          -- rewrite nth_upd_neq in Hn by auto.
             apply (thread_inv_other c); cbn; auto.
        * exact HLin0.
      + (* the LP itself *)
        destruct HLP as (Hspec & Hd).
        assert (Hfresh : forall x, In x (rlin c) -> ikey x <> (t, idx th)).
        { intros x Hx HE. unfold ikey in HE. inversion HE as [[H0 H1]]. specialize (Hcur x Hx H0). lia. }
        split.
        * intros t' th' Hn; cbn in Hn.
          destruct (Nat.eq_dec t t') as [<-|Hne].
          -- erewrite nth_upd_eq in Hn by eauto. inv_pair Hn.
             unfold thread_inv, thread_good; cbn. subst cur'.
             assert (Hle : forall x, mkI t (idx th) o r1 = x \/ In x (rlin c) -> i_t x = t -> i_n x <= idx th).
             { intros x [<-|Hx] Ht; cbn; auto. specialize (Hcur x Hx Ht). lia. }
             destruct Hd as [->| ->]; cbn; rewrite ?Hl';
               (split; [split; auto|]); (split; [exact HRes|]); auto.
          -- rewrite nth_upd_neq in Hn by auto.
             apply (thread_inv_other c); cbn; auto.
             intros x [<-|Hx] Ht; cbn in *; [congruence|auto].
        * unfold linearizable_with; cbn.
          split; [|split; [|split; [|split]]].
          -- constructor; auto. intros HI. apply in_map_iff in HI. destruct HI as (x & HE & Hx).
             apply (Hfresh x Hx HE).
          -- exists (shared c); split; auto.
          -- intros t' n o' r' HI; right; auto.
          -- intros x [<-|Hx]; cbn; auto.
          -- intros a b Ha Hb HLt. apply later_cons.
             assert (Hnores : forall x, i_t x = t -> i_n x = idx th -> ~ In (res_of x) (rhist c)).
             { intros x Ht Hn HI. unfold res_of in HI. rewrite Ht, Hn in HI. apply HRes in HI. lia. }
             destruct Hb as [<-|Hb].
             ++ destruct Ha as [<-|Ha]; [|left; auto].
                exfalso. apply later_in_r in HLt. eapply Hnores; eauto; reflexivity.
             ++ destruct Ha as [<-|Ha]; [|right; auto].
                exfalso. apply later_in_r in HLt. eapply Hnores; eauto; reflexivity.
      + (* before the LP *)
        destruct HLP as (-> & ->).
        split.
        * intros t' th' Hn; cbn in Hn.
          destruct (Nat.eq_dec t t') as [<-|Hne].
          -- erewrite nth_upd_eq in Hn by eauto. inv_pair Hn.
             unfold thread_inv, thread_good; cbn. rewrite Hl'.
             split; [split; auto|]. split; [exact HRes|]. auto.
          -- rewrite nth_upd_neq in Hn by auto.
             apply (thread_inv_other c); cbn; auto.
        * exact HLin0.
    - (* Res *)
      destruct Hcur as (HInvIn & HIn & Hle).
      split.
      + intros t' th' Hn; cbn in Hn.
        destruct (Nat.eq_dec t t') as [<-|Hne].
        * erewrite nth_upd_eq in Hn by eauto. inv_pair Hn.
          unfold thread_inv, thread_good; cbn.
          split; [split; auto|]. split.
          -- intros n o' r' [HE|HI]; [inversion HE; lia|]. apply HRes in HI. lia.
          -- intros x Hx Ht. specialize (Hle x Hx Ht). lia.
        * rewrite nth_upd_neq in Hn by auto.
          apply (thread_inv_other c); cbn; auto.
          intros n o' r' [HE|HI]; [inversion HE; congruence|auto].
      + unfold linearizable_with; cbn.
        split; [auto|]. split; [auto|]. split.
        * intros t' n o' r' [HE|HI]; [inversion HE; subst; auto|auto].
        * split; [intros x Hx; right; auto|].
          intros a b Ha Hb HL. apply later_cons in HL.
          destruct HL as [[HE HI]|HL]; [discriminate|auto].
  Qed.

  Lemma inv_exec : forall s0 sched c, lp_cond -> inv s0 c -> inv s0 (exec sched c).
  Proof.
    intros s0 sched; induction sched as [|t sched IH]; intros c HL HI; cbn; auto.
    apply IH; auto. apply inv_step; auto.
  Qed.

  (* The linearisation-point lemma: if every operation has one action that
     applies its sequential specification and determines its result, every
     history of every program under every schedule is linearizable, the order
     of those actions being the witness. *)
  Theorem lp_linearizable : forall s0 progs sched,
    lp_cond -> Forall (Forall good) progs ->
    let c := exec sched (init s0 progs) in
    linearizable_with s0 (rhist c) (rlin c) (shared c).
  Proof.
    intros s0 progs sched HL HG c.
    apply (inv_exec s0 sched (init s0 progs) HL (inv_init s0 progs HG)).
  Qed.

  (* every instance in the ghost order is an operation of some program *)
  Definition thread_good' (th : thread) : Prop :=
    Forall good (todo th) /\
    match cur th with Idle => True | Running o _ => good o | Finished o _ => good o end.
  Definition inv_good (c : config) : Prop :=
    (forall t th, nth_error (threads c) t = Some th -> thread_good' th) /\
    (forall x, In x (rlin c) -> good (i_op x)).

  Lemma inv_good_step : forall c t, inv_good c -> inv_good (step c t).
  Proof.
    intros c t [HT HL]. unfold step.
    destruct (nth_error (threads c) t) as [th|] eqn:Hth; [|split; auto].
    destruct (HT t th Hth) as (HGtodo & HGcur).
    destruct (cur th) as [|o l|o r] eqn:Hc.
    - destruct (todo th) as [|o rest] eqn:Htodo; [split; auto|].
      inversion HGtodo; subst.
      split; cbn; auto.
      intros t' th' Hn. destruct (Nat.eq_dec t t') as [<-|Hne].
      + erewrite nth_upd_eq in Hn by eauto. inversion Hn; subst. split; cbn; auto.
      + rewrite nth_upd_neq in Hn by auto. eauto.
    - destruct (act o l (shared c)) as [[[l' s'] d]|] eqn:Hact; [|split; auto].
      split; cbn.
      + intros t' th' Hn. destruct (Nat.eq_dec t t') as [<-|Hne].
        * erewrite nth_upd_eq in Hn by eauto. inversion Hn; subst. split; cbn; auto.
          destruct d; auto.
        * rewrite nth_upd_neq in Hn by auto. eauto.
      + destruct (lp_res l); destruct (lp_res l'); auto.
        intros x [<-|Hx]; cbn; auto.
    - split; cbn; auto.
      intros t' th' Hn. destruct (Nat.eq_dec t t') as [<-|Hne].
      + erewrite nth_upd_eq in Hn by eauto. inversion Hn; subst. split; cbn; auto.
      + rewrite nth_upd_neq in Hn by auto. eauto.
  Qed.

  Lemma rlin_good : forall s0 progs sched, Forall (Forall good) progs ->
    forall x, In x (rlin (exec sched (init s0 progs))) -> good (i_op x).
  Proof.
    intros s0 progs sched HG.
    assert (H0 : inv_good (init s0 progs)).
    { split; [|intros x []]. intros t th Hn. unfold init in Hn; cbn in Hn.
      rewrite nth_error_map in Hn. destruct (nth_error progs t) as [p|] eqn:Hp; cbn in Hn; inversion Hn; subst.
      split; cbn; auto. rewrite Forall_forall in HG. apply HG. eapply nth_error_In; eauto. }
    revert H0. generalize (init s0 progs). induction sched as [|t sched IH]; intros c Hc; cbn.
    - apply Hc.
    - apply IH. apply inv_good_step; auto.
  Qed.

  (* a legal run can be cut at any instance: the state just before it *)
  Lemma rlegal_split : forall s0 a x b s', rlegal s0 (a ++ x :: b) s' ->
    exists s1 s2, rlegal s0 b s1 /\ spec (i_op x) s1 = (s2, i_res x).
  Proof.
    intros s0 a; induction a as [|y a IH]; intros x b s' H; cbn in H.
    - destruct H as (s1 & H1 & H2). eauto.
    - destruct H as (s1 & H1 & H2). eapply IH; eauto.
  Qed.

  Corollary lp_linearizable_ex : forall s0 progs sched,
    lp_cond -> Forall (Forall good) progs ->
    linearizable s0 (rhist (exec sched (init s0 progs))).
  Proof. intros; eexists; eexists; apply lp_linearizable; auto. Qed.
End Interleave.

Arguments Idle {Op Loc Res}.
Arguments Running {Op Loc Res}.
Arguments Finished {Op Loc Res}.
Arguments EInv {Op Res}.
Arguments ERes {Op Res}.
Arguments mkI {Op Res}.
Arguments i_t {Op Res}.
Arguments i_n {Op Res}.
Arguments i_op {Op Res}.
Arguments i_res {Op Res}.
