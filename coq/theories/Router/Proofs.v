From Coq Require Import ZArith NArith List Bool Lia.
From GoCoap Require Import Base.Bytes Router.Model Router.Spec.
Import ListNotations.
Open Scope Z_scope.

Lemma filter_path_nonempty p : filter_path p <> [].
Proof. destruct p; cbn; discriminate. Qed.
