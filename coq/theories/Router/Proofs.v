(* C17 -- proofs about Router/Model.v against Router/Spec.v. *)
From Coq Require Import ZArith NArith List Bool Lia Permutation.
From GoCoap Require Import Base.Bytes Router.Model Router.Spec.
Import ListNotations.
Open Scope Z_scope.

(* ------------------------------------------------------------------ *)
(** * list arithmetic on prefixes *)

Lemma firstn_add {A} (i j : nat) (s : list A) :
  firstn (i + j) s = firstn i s ++ firstn j (skipn i s).
Proof.
  revert s; induction i as [|i IH]; intros s; [reflexivity|].
  destruct s as [|x s]; cbn [Nat.add firstn skipn app].
  - now rewrite firstn_nil.
  - now rewrite IH.
Qed.

Lemma firstn_app_exact {A} (u v : list A) : firstn (length u) (u ++ v) = u.
Proof. induction u as [|x u IH]; cbn; [reflexivity| now rewrite IH]. Qed.
Lemma skipn_app_exact {A} (u v : list A) : skipn (length u) (u ++ v) = v.
Proof. induction u as [|x u IH]; cbn; [reflexivity| exact IH]. Qed.

Lemma prefix_split {A} (n : nat) (s u v : list A) :
  (n <= length s)%nat -> firstn n s = u ++ v ->
  n = (length u + length v)%nat /\ firstn (length u) s = u /\
  firstn (length v) (skipn (length u) s) = v /\ (length v <= length (skipn (length u) s))%nat.
Proof.
  intros Hn E.
  assert (Hlen : n = (length u + length v)%nat).
  { rewrite <- app_length, <- E, firstn_length. lia. }
  assert (Hs : s = (u ++ v) ++ skipn n s) by (rewrite <- E; symmetry; apply firstn_skipn).
  split; [exact Hlen|].
  set (t := skipn n s) in Hs. clearbody t. subst s. clear E Hn.
  rewrite <- app_assoc.
  rewrite firstn_app_exact, skipn_app_exact, firstn_app_exact.
  repeat split; try reflexivity.
  rewrite app_length. lia.
Qed.

(* ------------------------------------------------------------------ *)
(** * denotational language of the modelled expressions *)

Inductive L : re -> str -> Prop :=
| L_eps : L Eps []
| L_sym neg rs c : sym_mem neg rs c = true -> L (Sym neg rs) [c]
| L_cat a b u v : L a u -> L b v -> L (Cat a b) (u ++ v)
| L_altl a b u : L a u -> L (Alt a b) u
| L_altr a b u : L b u -> L (Alt a b) u
| L_star0 a : L (Star a) []
| L_stars a u v : L a u -> L (Star a) v -> L (Star a) (u ++ v).

Lemma L_nul_inv s : ~ L Nul s.
Proof. intros H; inversion H. Qed.
Lemma L_eps_inv s : L Eps s -> s = [].
Proof. intros H; inversion H; reflexivity. Qed.
Lemma L_sym_inv neg rs s : L (Sym neg rs) s -> exists c, s = [c] /\ sym_mem neg rs c = true.
Proof. intros H; inversion H; subst; eauto. Qed.
Lemma L_cat_inv a b s : L (Cat a b) s -> exists u v, s = u ++ v /\ L a u /\ L b v.
Proof. intros H; inversion H; subst; eauto. Qed.
Lemma L_alt_inv a b s : L (Alt a b) s -> L a s \/ L b s.
Proof. intros H; inversion H; subst; auto. Qed.

(* a non-empty word of a star starts with a non-empty word of the body *)
Lemma L_star_split a w : L (Star a) w ->
  w = [] \/ exists u v, u <> [] /\ w = u ++ v /\ L a u /\ L (Star a) v.
Proof.
  intros H. remember (Star a) as r eqn:Er.
  induction H as [| | | | | a0 | a0 u v Hu _ Hv IHv]; try discriminate.
  - now left.
  - injection Er as ->. destruct u as [|x u].
    + cbn. apply IHv. reflexivity.
    + right. exists (x :: u), v. repeat split; try assumption. discriminate.
Qed.

Lemma nullable_iff r : nullable r = true <-> L r [].
Proof.
  induction r as [| |neg rs|a IHa b IHb|a IHa b IHb|a IHa]; cbn [nullable].
  - split; [discriminate| intros H; inversion H].
  - split; [constructor|reflexivity].
  - split; [discriminate| intros H; inversion H].
  - rewrite andb_true_iff, IHa, IHb. split.
    + intros [Ha Hb]. change (@nil Z) with (@nil Z ++ []). now constructor.
    + intros H. apply L_cat_inv in H as (u & v & E & Hu & Hv).
      symmetry in E. apply app_eq_nil in E as [-> ->]. now split.
  - rewrite orb_true_iff, IHa, IHb. split.
    + intros [H|H]; [now apply L_altl| now apply L_altr].
    + apply L_alt_inv.
  - split; [constructor|reflexivity].
Qed.

Lemma deriv_iff c r : forall s, L (deriv c r) s <-> L r (c :: s).
Proof.
  induction r as [| |neg rs|a IHa b IHb|a IHa b IHb|a IHa]; intros s; cbn [deriv].
  - split; intros H; inversion H.
  - split; intros H; inversion H.
  - destruct (sym_mem neg rs c) eqn:Em.
    + split; intros H.
      * apply L_eps_inv in H as ->. now constructor.
      * apply L_sym_inv in H as (c' & E & _). injection E as _ ->. constructor.
    + split; intros H; [inversion H|].
      apply L_sym_inv in H as (c' & E & Hm). injection E as <- _. congruence.
  - assert (Hcat : L (Cat (deriv c a) b) s -> L (Cat a b) (c :: s)).
    { intros H. apply L_cat_inv in H as (u & v & -> & Hu & Hv).
      apply IHa in Hu. change (c :: u ++ v) with ((c :: u) ++ v). now constructor. }
    destruct (nullable a) eqn:En.
    + split; intros H.
      * apply L_alt_inv in H as [H|H]; [now apply Hcat|].
        apply IHb in H. apply nullable_iff in En.
        change (c :: s) with ([] ++ c :: s). now constructor.
      * apply L_cat_inv in H as (u & v & E & Hu & Hv).
        destruct u as [|x u]; cbn in E.
        -- subst v. apply L_altr. now apply IHb.
        -- injection E as <- ->. apply L_altl. constructor; [now apply IHa|assumption].
    + split; intros H; [now apply Hcat|].
      apply L_cat_inv in H as (u & v & E & Hu & Hv).
      destruct u as [|x u]; cbn in E.
      * apply nullable_iff in Hu. congruence.
      * injection E as <- ->. constructor; [now apply IHa|assumption].
  - split; intros H.
    + apply L_alt_inv in H as [H|H]; [apply L_altl; now apply IHa| apply L_altr; now apply IHb].
    + apply L_alt_inv in H as [H|H]; [apply L_altl; now apply IHa| apply L_altr; now apply IHb].
  - split; intros H.
    + apply L_cat_inv in H as (u & v & -> & Hu & Hv). apply IHa in Hu.
      change (c :: u ++ v) with ((c :: u) ++ v). now constructor.
    + apply L_star_split in H as [H|(u & v & Hne & E & Hu & Hv)]; [discriminate|].
      destruct u as [|x u]; [congruence|]. cbn in E. injection E as <- ->.
      constructor; [now apply IHa|assumption].
Qed.

(* the derivative matcher decides the denotational language *)
Theorem dmatch_correct : forall s r, dmatch r s = true <-> L r s.
Proof.
  induction s as [|c s IH]; intros r; cbn [dmatch].
  - apply nullable_iff.
  - rewrite IH. apply deriv_iff.
Qed.

Lemma L_lit l s : L (lit_re l) s <-> s = l.
Proof.
  revert s; induction l as [|c l IH]; intros s; cbn [lit_re].
  - split; [apply L_eps_inv| intros ->; constructor].
  - split.
    + intros H. apply L_cat_inv in H as (u & v & -> & Hu & Hv).
      apply L_sym_inv in Hu as (c' & -> & Hm). apply IH in Hv as ->.
      assert (c' = c).
      { unfold sym_mem, in_ranges in Hm. cbn in Hm.
        destruct (c <=? c') eqn:E1; destruct (c' <=? c) eqn:E2; cbn in Hm; try discriminate.
        apply Z.leb_le in E1. apply Z.leb_le in E2. lia. }
      now subst.
    + intros ->. change (c :: l) with ([c] ++ l). constructor; [|now apply IH].
      constructor. unfold sym_mem, in_ranges. cbn. rewrite Z.leb_refl. reflexivity.
Qed.

(* ------------------------------------------------------------------ *)
(** * the priority enumeration [ends] lists exactly the matched prefixes *)

Lemma firstn_nil_len {A} (n : nat) (s : list A) : (n <= length s)%nat -> firstn n s = [] -> n = O.
Proof.
  intros Hn E. assert (H : length (firstn n s) = n) by (rewrite firstn_length; lia).
  rewrite E in H. cbn in H. lia.
Qed.

Lemma star_ends_spec (f : str -> list nat) (a : re)
  (Hf : forall s n, In n (f s) <-> (n <= length s)%nat /\ L a (firstn n s)) :
  forall fuel s n, (length s < fuel)%nat ->
    (In n (star_ends f fuel s) <-> (n <= length s)%nat /\ L (Star a) (firstn n s)).
Proof.
  induction fuel as [|k IH]; intros s n Hlt; [lia|].
  cbn [star_ends]. rewrite in_app_iff, in_flat_map. split.
  - intros [(i & Hi & Hin) | Hin].
    + destruct i as [|i']; [destruct Hin|].
      apply in_map_iff in Hin as (j & <- & Hj).
      apply Hf in Hi as [Hile Hia].
      apply IH in Hj as [Hjle Hjs]; [| rewrite skipn_length; lia].
      rewrite skipn_length in Hjle. split; [lia|].
      rewrite firstn_add. now constructor.
    + destruct Hin as [<-|[]]. split; [lia|]. cbn. constructor.
  - intros [Hn HL]. apply L_star_split in HL as [E | (u & v & Hne & E & Hu & Hv)].
    + right. left. symmetry. now apply (firstn_nil_len n s).
    + left. destruct (prefix_split n s u v Hn E) as (En & Eu & Ev & Hvl).
      exists (length u). split.
      * apply Hf. split; [lia|]. now rewrite Eu.
      * assert (Hpos : exists m, length u = S m).
        { destruct u as [|x u]; [congruence|]. cbn. eauto. }
        destruct Hpos as [m Em]. rewrite Em. cbv iota beta. rewrite <- Em.
        apply in_map_iff. exists (length v). split; [lia|].
        apply IH; [rewrite skipn_length; lia|]. split; [exact Hvl|]. now rewrite Ev.
Qed.

Theorem ends_spec : forall r s n,
  In n (ends r s) <-> (n <= length s)%nat /\ L r (firstn n s).
Proof.
  induction r as [| |neg rs|a IHa b IHb|a IHa b IHb|a IHa]; intros s n; cbn [ends].
  - split; [intros []| intros [_ H]; inversion H].
  - split.
    + intros [<-|[]]. split; [lia|]. cbn. constructor.
    + intros [Hn H]. apply L_eps_inv in H. left. symmetry. now apply (firstn_nil_len n s).
  - destruct s as [|c s].
    + split; [intros []|]. intros [Hn H]. cbn in Hn. assert (n = O) by lia. subst. cbn in H. inversion H.
    + split.
      * destruct (sym_mem neg rs c) eqn:Em; [|intros []].
        intros [<-|[]]. split; [cbn; lia|]. cbn. now constructor.
      * intros [Hn H]. apply L_sym_inv in H as (c' & E & Hm).
        assert (Hl : length (firstn n (c :: s)) = n) by (rewrite firstn_length; lia).
        rewrite E in Hl. cbn in Hl. subst n. cbn in E. injection E as ->.
        rewrite Hm. now left.
  - rewrite in_flat_map. split.
    + intros (i & Hi & Hin). apply in_map_iff in Hin as (j & <- & Hj).
      apply IHa in Hi as [Hile Hia]. apply IHb in Hj as [Hjle Hjb].
      rewrite skipn_length in Hjle. split; [lia|]. rewrite firstn_add. now constructor.
    + intros [Hn H]. apply L_cat_inv in H as (u & v & E & Hu & Hv).
      destruct (prefix_split n s u v Hn E) as (En & Eu & Ev & Hvl).
      exists (length u). split.
      * apply IHa. split; [lia|]. now rewrite Eu.
      * apply in_map_iff. exists (length v). split; [lia|]. apply IHb. split; [exact Hvl|]. now rewrite Ev.
  - rewrite in_app_iff, IHa, IHb. split.
    + intros [[Hn H]|[Hn H]]; (split; [exact Hn|]); [now apply L_altl| now apply L_altr].
    + intros [Hn H]. apply L_alt_inv in H as [H|H]; [left|right]; now split.
  - apply star_ends_spec; [exact IHa| lia].
Qed.

(* both stand-ins for Go's regexp agree: a complete match is found by the
   enumeration iff the derivative matcher accepts *)
Corollary ends_dmatch r s : In (length s) (ends r s) <-> dmatch r s = true.
Proof.
  rewrite ends_spec, dmatch_correct, firstn_all. split; [intros [_ H]; exact H| intros H; split; [lia|exact H]].
Qed.

(* ------------------------------------------------------------------ *)
(** * route matching, generic in the sub-expression semantics *)

Section RouteProofs.
  Variable RE : Type.
  Variable prio : RE -> str -> list nat.
  Variable lang : RE -> str -> Prop.
  Hypothesis prio_spec : forall r s n,
    In n (prio r s) <-> (n <= length s)%nat /\ lang r (firstn n s).

  (* path = lit0 ++ v1 ++ lit1 ++ ... with v_i in the language of variable i *)
  Inductive decomp : list (cpart RE) -> str -> list str -> Prop :=
  | D_nil : decomp [] [] []
  | D_lit l ps s vs : decomp ps s vs -> decomp (CLit l :: ps) (l ++ s) vs
  | D_var name r ps v s vs : lang r v -> decomp ps s vs -> decomp (CVar name r :: ps) (v ++ s) (v :: vs).

  Lemma strip_prefix_spec p : forall s s', strip_prefix p s = Some s' <-> s = p ++ s'.
  Proof.
    induction p as [|c p IH]; intros s s'; cbn [strip_prefix app].
    - split; [intros [= ->]; reflexivity| intros ->; reflexivity].
    - destruct s as [|d s]; [split; [discriminate| intros H; discriminate H]|].
      destruct (c =? d) eqn:E.
      + apply Z.eqb_eq in E as ->. rewrite IH. split; [intros ->; reflexivity| intros [= ->]; reflexivity].
      + apply Z.eqb_neq in E. split; [discriminate| intros [= -> _]; congruence].
  Qed.

  Lemma first_some_some {A B} (f : A -> option B) l y :
    first_some f l = Some y -> exists x, In x l /\ f x = Some y.
  Proof.
    induction l as [|x l IH]; cbn [first_some]; [discriminate|].
    destruct (f x) eqn:E.
    - intros [= ->]. exists x. split; [now left|exact E].
    - intros H. destruct (IH H) as (x' & Hin & Hx). exists x'. split; [now right|exact Hx].
  Qed.
  Lemma first_some_none {A B} (f : A -> option B) l :
    first_some f l = None -> forall x, In x l -> f x = None.
  Proof.
    induction l as [|x l IH]; cbn [first_some]; [intros _ x []|].
    destruct (f x) eqn:E; [discriminate|]. intros H x' [<-|Hin]; [exact E| now apply IH].
  Qed.

  Theorem match_parts_sound : forall ps s vs, match_parts prio ps s = Some vs -> decomp ps s vs.
  Proof.
    induction ps as [|p ps IH]; intros s vs; cbn [match_parts].
    - destruct s; [intros [= <-]; constructor|discriminate].
    - destruct p as [l|name r].
      + destruct (strip_prefix l s) as [s'|] eqn:E; [|discriminate].
        apply strip_prefix_spec in E as ->. intros H. constructor. now apply IH.
      + intros H. apply first_some_some in H as (n & Hin & Hn).
        destruct (match_parts prio ps (skipn n s)) as [vs'|] eqn:E; [|discriminate].
        injection Hn as <-. apply prio_spec in Hin as [_ Hl].
        rewrite <- (firstn_skipn n s) at 1. constructor; [exact Hl| now apply IH].
  Qed.

  Theorem match_parts_complete : forall ps s vs, decomp ps s vs -> exists vs', match_parts prio ps s = Some vs'.
  Proof.
    induction 1 as [|l ps s vs _ [vs' IH]|name r ps v s vs Hl _ [vs' IH]]; cbn [match_parts].
    - eauto.
    - assert (E : strip_prefix l (l ++ s) = Some s) by now apply strip_prefix_spec.
      rewrite E. eauto.
    - match goal with |- exists x, first_some ?f ?l = Some x => destruct (first_some f l) as [y|] eqn:E end; [eauto|].
      exfalso. apply first_some_none with (x := length v) in E.
      + rewrite skipn_app_exact, IH in E. discriminate.
      + apply prio_spec. rewrite firstn_app_exact, app_length. split; [lia|exact Hl].
  Qed.

  Lemma decomp_length ps s vs : decomp ps s vs -> length vs = length (var_names ps).
  Proof. induction 1; cbn [var_names length]; congruence. Qed.
End RouteProofs.

(* ------------------------------------------------------------------ *)
(** * the concrete instance: [ends] and [dmatch] *)

Definition rdecomp := decomp re L.

Lemma route_re_spec : forall ps s, L (route_re ps) s <-> exists vs, rdecomp ps s vs.
Proof.
  induction ps as [|p ps IH]; intros s; cbn [route_re].
  - split.
    + intros H. apply L_eps_inv in H as ->. exists []. constructor.
    + intros [vs H]. inversion H. constructor.
  - destruct p as [l|name r]; split.
    + intros H. apply L_cat_inv in H as (u & v & -> & Hu & Hv). apply L_lit in Hu as ->.
      apply IH in Hv as [vs Hv]. exists vs. now constructor.
    + intros [vs H]. inversion H; subst. constructor; [now apply L_lit| apply IH; eauto].
    + intros H. apply L_cat_inv in H as (u & v & -> & Hu & Hv).
      apply IH in Hv as [vs Hv]. exists (u :: vs). now constructor.
    + intros [vs H]. inversion H; subst. constructor; [assumption| apply IH; eauto].
Qed.

Theorem path_match_iff r path : path_match r path = true <-> exists vs, rdecomp (r_parts r) path vs.
Proof. unfold path_match. rewrite dmatch_correct. apply route_re_spec. Qed.

Theorem extract_sound r path vs : extract r path = Some vs -> rdecomp (r_parts r) path vs.
Proof. apply (match_parts_sound re ends L ends_spec). Qed.

(* MatchString and FindStringSubmatchIndex agree on whether there is a match *)
Theorem extract_iff_match r path : path_match r path = true <-> exists vs, extract r path = Some vs.
Proof.
  rewrite path_match_iff. split.
  - intros [vs H]. eapply (match_parts_complete re ends L ends_spec); eauto.
  - intros [vs H]. exists vs. now apply extract_sound.
Qed.

(* the brute-force reference of Spec.v enumerates exactly the decompositions *)
Lemma is_prefix_spec p : forall s, is_prefix p s = true <-> s = p ++ skipn (length p) s.
Proof.
  induction p as [|c p IH]; intros s; cbn [is_prefix length skipn app].
  - split; reflexivity.
  - destruct s as [|d s]; [split; discriminate|].
    rewrite andb_true_iff, Z.eqb_eq, IH. split.
    + intros [-> E]. now rewrite <- E.
    + intros [= -> E]. split; [reflexivity|exact E].
Qed.

Theorem decomps_spec : forall ps s vs, In vs (decomps ps s) <-> rdecomp ps s vs.
Proof.
  induction ps as [|p ps IH]; intros s vs; cbn [decomps].
  - destruct s; cbn [is_nil]; split.
    + intros [<-|[]]. constructor.
    + intros H. inversion H. now left.
    + intros [].
    + intros H. inversion H.
  - destruct p as [l|name r].
    + destruct (is_prefix l s) eqn:E.
      * apply is_prefix_spec in E. rewrite IH. split.
        -- intros H. rewrite E. now constructor.
        -- intros H. inversion H; subst. now rewrite skipn_app_exact.
      * split; [intros []|]. intros H. inversion H; subst.
        assert (is_prefix l (l ++ s0) = true) by (apply is_prefix_spec; now rewrite skipn_app_exact).
        congruence.
    + rewrite in_flat_map. split.
      * intros (n & Hn & Hin). destruct (dmatch r (firstn n s)) eqn:E; [|destruct Hin].
        apply in_map_iff in Hin as (vs' & <- & Hin). apply IH in Hin. apply dmatch_correct in E.
        rewrite <- (firstn_skipn n s) at 1. now constructor.
      * intros H. inversion H; subst. exists (length v). split.
        -- apply in_seq. rewrite app_length. lia.
        -- rewrite firstn_app_exact, skipn_app_exact.
           assert (E : dmatch r v = true) by now apply dmatch_correct. rewrite E.
           apply in_map. now apply IH.
Qed.

Theorem spec_matches_iff r path : spec_matches (r_parts r) path = path_match r path.
Proof.
  apply eq_true_iff_eq. rewrite path_match_iff. unfold spec_matches. split.
  - intros H. destruct (decomps (r_parts r) path) as [|vs l] eqn:E; [discriminate|].
    exists vs. apply decomps_spec. rewrite E. now left.
  - intros [vs H]. apply decomps_spec in H. destruct (decomps (r_parts r) path); [destruct H|reflexivity].
Qed.

(* ------------------------------------------------------------------ *)
(** * Router.Match: the scan *)

Lemma str_eqb_eq : forall a b : str, str_eqb a b = true <-> a = b.
Proof.
  unfold str_eqb. induction a as [|x a IH]; intros [|y b]; cbn [list_eqb]; try (split; [discriminate|intros H; discriminate H]).
  - split; reflexivity.
  - rewrite andb_true_iff, Z.eqb_eq, IH. split; [intros [-> ->]; reflexivity| intros [= -> ->]; now split].
Qed.
Lemma str_eqb_refl a : str_eqb a a = true.
Proof. now apply str_eqb_eq. Qed.
Lemma str_eqb_neq a b : str_eqb a b = false <-> a <> b.
Proof. rewrite <- str_eqb_eq. destruct (str_eqb a b); split; congruence. Qed.

Definition maximal_match (rs : list route) (path : str) (r : route) : Prop :=
  In r rs /\ path_match r path = true /\
  forall r', In r' rs -> path_match r' path = true -> (length (r_pat r') <= length (r_pat r))%nat.

Lemma scan_spec : forall order path best n,
  (forall b, best = Some b -> n = length (r_pat b)) ->
  match scan order path best n with
  | None => best = None /\ forall r, In r order -> path_match r path = false
  | Some r =>
      (best = Some r \/ (In r order /\ path_match r path = true)) /\
      (forall r', In r' order -> path_match r' path = true -> (length (r_pat r') <= length (r_pat r))%nat) /\
      (forall b, best = Some b -> (length (r_pat b) <= length (r_pat r))%nat)
  end.
Proof.
  induction order as [|r0 rest IH]; intros path best n Hn; cbn [scan].
  - destruct best as [b|].
    + split; [now left|]. split; [intros r' []|]. intros b' [= <-]. lia.
    + split; [reflexivity| intros r []].
  - destruct (path_match r0 path) eqn:Em.
    + destruct (is_none best || (n <? length (r_pat r0))%nat) eqn:Ec.
      * specialize (IH path (Some r0) (length (r_pat r0))).
        destruct (scan rest path (Some r0) (length (r_pat r0))) as [r|].
        -- destruct IH as (H1 & H2 & H3); [intros b [= <-]; reflexivity|].
           split; [|split].
           ++ right. destruct H1 as [[= <-]|[Hin Hm]]; [split; [now left|exact Em]| split; [now right|exact Hm]].
           ++ intros r' [<-|Hin] Hm; [now apply H3| now apply H2].
           ++ intros b ->. cbn in Ec. apply Nat.ltb_lt in Ec. specialize (Hn b eq_refl).
              specialize (H3 r0 eq_refl). lia.
        -- destruct IH as [H _]; [intros b [= <-]; reflexivity|]. discriminate.
      * apply orb_false_iff in Ec as [Eb Ec]. destruct best as [b|]; [|discriminate]. apply Nat.ltb_ge in Ec.
        specialize (IH path (Some b) n Hn).
        destruct (scan rest path (Some b) n) as [r|].
        -- destruct IH as (H1 & H2 & H3). split; [|split].
           ++ destruct H1 as [H1|[Hin Hm]]; [now left| right; split; [now right|exact Hm]].
           ++ intros r' [<-|Hin] Hm; [|now apply H2]. specialize (H3 b eq_refl). specialize (Hn b eq_refl). lia.
           ++ exact H3.
        -- destruct IH as [H _]. discriminate.
    + specialize (IH path best n Hn). destruct (scan rest path best n) as [r|].
      * destruct IH as (H1 & H2 & H3). split; [|split].
        -- destruct H1 as [H1|[Hin Hm]]; [now left| right; split; [now right|exact Hm]].
        -- intros r' [<-|Hin] Hm; [congruence| now apply H2].
        -- exact H3.
      * destruct IH as [H1 H2]. split; [exact H1|]. intros r [<-|Hin]; [exact Em| now apply H2].
Qed.

(* whatever the iteration order, the scan returns a longest matching route *)
Theorem scan_some order path r :
  scan order path None O = Some r -> maximal_match order path r.
Proof.
  intros E. pose proof (scan_spec order path None O) as H. rewrite E in H.
  destruct H as (H1 & H2 & _); [discriminate|].
  destruct H1 as [H1|[Hin Hm]]; [discriminate|]. repeat split; assumption.
Qed.
Theorem scan_none order path :
  scan order path None O = None <-> forall r, In r order -> path_match r path = false.
Proof.
  split.
  - intros E. pose proof (scan_spec order path None O) as H. rewrite E in H. apply H. discriminate.
  - intros Hno. destruct (scan order path None O) as [r|] eqn:E; [|reflexivity].
    apply scan_some in E as (Hin & Hm & _). rewrite Hno in Hm by assumption. discriminate.
Qed.

(* a matching route that is visited first and is at least as long as every
   other matching one is the one returned (ties: first visited wins) *)
Lemma scan_keep : forall rest path r,
  (forall r', In r' rest -> path_match r' path = true -> (length (r_pat r') <= length (r_pat r))%nat) ->
  scan rest path (Some r) (length (r_pat r)) = Some r.
Proof.
  induction rest as [|r0 rest IH]; intros path r Hmax; cbn [scan]; [reflexivity|].
  destruct (path_match r0 path) eqn:Em.
  - assert (Hle : (length (r_pat r0) <= length (r_pat r))%nat) by (apply Hmax; [now left|exact Em]).
    cbn [is_none orb]. destruct (Nat.ltb_spec (length (r_pat r)) (length (r_pat r0))); [lia|].
    apply IH. intros r' Hin. apply Hmax. now right.
  - apply IH. intros r' Hin. apply Hmax. now right.
Qed.
Theorem scan_first rest path r :
  path_match r path = true ->
  (forall r', In r' rest -> path_match r' path = true -> (length (r_pat r') <= length (r_pat r))%nat) ->
  scan (r :: rest) path None O = Some r.
Proof. intros Hm Hmax. cbn [scan]. rewrite Hm. cbn [is_none orb]. now apply scan_keep. Qed.

Lemma filter_partition_perm {A} (f : A -> bool) (l : list A) :
  Permutation (filter f l ++ filter (fun x => negb (f x)) l) l.
Proof.
  induction l as [|x l IH]; cbn [filter]; [constructor|].
  destruct (f x); cbn [negb app].
  - now constructor.
  - symmetry. apply Permutation_cons_app. now symmetry.
Qed.

(* the outcomes of the scan over all iteration orders are exactly the longest
   matching routes *)
Theorem scan_exact (rs : list route) path r :
  (exists order, Permutation order rs /\ scan order path None O = Some r) <-> maximal_match rs path r.
Proof.
  split.
  - intros (order & Hp & E). apply scan_some in E as (Hin & Hm & Hmax).
    repeat split; [eapply Permutation_in; eauto| exact Hm|].
    intros r' Hin'. apply Hmax. eapply Permutation_in; [symmetry|]; eauto.
  - intros (Hin & Hm & Hmax). apply in_split in Hin as (l1 & l2 & ->).
    exists (r :: l1 ++ l2). split; [apply Permutation_middle|].
    apply scan_first; [exact Hm|]. intros r' Hin'. apply Hmax.
    apply in_app_iff in Hin'. apply in_app_iff. destruct Hin'; [now left| right; now right].
Qed.

(* ------------------------------------------------------------------ *)
(** * registered state: invariant of Handle / HandleRemove / DefaultHandle *)

Definition wf (st : rstate) : Prop :=
  NoDup (map fst (st_routes st)) /\
  forall k r, In (k, r) (st_routes st) -> r_pat r = k /\ new_route_regexp k = COk (r_parts r).

Lemma map_set_in m k v x : In x (map_set m k v) -> x = (k, v) \/ In x m.
Proof.
  induction m as [|[k' v'] m IH]; cbn [map_set].
  - intros [<-|[]]. now left.
  - destruct (str_eqb k' k).
    + intros [<-|H]; [now left| right; now right].
    + intros [<-|H]; [right; now left|]. destruct (IH H); [now left| right; now right].
Qed.
Lemma map_set_keys m k v k0 : In k0 (map fst (map_set m k v)) -> k0 = k \/ In k0 (map fst m).
Proof.
  intros H. apply in_map_iff in H as (x & <- & Hx). apply map_set_in in Hx as [->|Hx]; [now left|].
  right. now apply in_map.
Qed.
Lemma map_set_nodup m k v : NoDup (map fst m) -> NoDup (map fst (map_set m k v)).
Proof.
  induction m as [|[k' v'] m IH]; cbn [map_set map fst]; intros H.
  - constructor; [intros []|constructor].
  - inversion H as [|? ? Hni Hnd]; subst. destruct (str_eqb k' k) eqn:E.
    + apply str_eqb_eq in E as ->. cbn [map fst]. now constructor.
    + apply str_eqb_neq in E. cbn [map fst]. constructor; [|now apply IH].
      intros Hin. apply map_set_keys in Hin as [->|Hin]; [congruence|contradiction].
Qed.
Lemma map_del_in m k x : In x (map_del m k) -> In x m.
Proof.
  induction m as [|[k' v'] m IH]; cbn [map_del]; [intros []|].
  destruct (str_eqb k' k); [intros H; right; now apply IH|].
  intros [<-|H]; [now left| right; now apply IH].
Qed.
Lemma map_del_nodup m k : NoDup (map fst m) -> NoDup (map fst (map_del m k)).
Proof.
  induction m as [|[k' v'] m IH]; cbn [map_del map fst]; intros H; [constructor|].
  inversion H as [|? ? Hni Hnd]; subst. destruct (str_eqb k' k); [now apply IH|].
  cbn [map fst]. constructor; [|now apply IH].
  intros Hin. apply in_map_iff in Hin as (x & <- & Hx). apply map_del_in in Hx. apply Hni. now apply in_map.
Qed.

Theorem apply_op_wf st o : wf st -> wf (fst (apply_op st o)).
Proof.
  intros [Hnd Hr]. destruct o as [pat [h|]|pat|h]; cbn [apply_op]; try (split; assumption).
  - destruct (new_route_regexp (filter_path pat)) as [cs| |] eqn:E; cbn [fst]; try (split; assumption).
    split; cbn [st_routes].
    + now apply map_set_nodup.
    + intros k r Hin. apply map_set_in in Hin as [E1|Hin]; [|now apply Hr].
      injection E1 as -> ->. cbn. now split.
  - destruct (map_has (st_routes st) (filter_path pat)); cbn [fst]; [|split; assumption].
    split; cbn [st_routes].
    + now apply map_del_nodup.
    + intros k r Hin. apply map_del_in in Hin. now apply Hr.
Qed.

Lemma init_wf : wf init_state.
Proof. split; cbn; [constructor| intros k r []]. Qed.

Theorem apply_ops_wf : forall os st, wf st -> wf (apply_ops st os).
Proof.
  unfold apply_ops. induction os as [|o os IH]; intros st H; cbn [fold_left]; [exact H|].
  apply IH. now apply apply_op_wf.
Qed.

(* ------------------------------------------------------------------ *)
(** * middlewares *)

Lemma handlers_of_app a b : handlers_of (a ++ b) = handlers_of a ++ handlers_of b.
Proof. unfold handlers_of. apply flat_map_app. Qed.

Theorem run_chain_spec : forall mws h, run_chain mws h = spec_trace mws h.
Proof.
  unfold spec_trace. induction mws as [|[i p] mws IH]; intros h; cbn [run_chain passing_prefix].
  - cbn. now rewrite app_nil_r.
  - destruct p.
    + rewrite IH. destruct (passing_prefix mws) as [ids pass]. cbn [map rev app].
      rewrite map_app. cbn [map]. now rewrite !app_assoc.
    + reflexivity.
Qed.

Lemma run_chain_one_handler : forall mws h,
  Forall (fun m => snd m = true) mws -> handlers_of (run_chain mws (Some h)) = [h].
Proof.
  induction mws as [|[i p] mws IH]; intros h H; cbn [run_chain]; [reflexivity|].
  inversion H as [|? ? Hp Hr]; subst. cbn in Hp. subst p.
  change (MwIn i :: run_chain mws (Some h) ++ [MwOut i]) with ([MwIn i] ++ run_chain mws (Some h) ++ [MwOut i]).
  rewrite !handlers_of_app, IH by assumption. reflexivity.
Qed.

(* ------------------------------------------------------------------ *)
(** * ServeCOAP *)

Theorem serve_select st mws order segs :
  Permutation order (routes_of st) -> Forall (fun m => snd m = true) mws ->
  let path := filter_path (path_of segs) in
  (exists r, maximal_match (routes_of st) path r /\
             handlers_of (fst (serve st mws order segs)) = [r_h r] /\
             snd (serve st mws order segs) = match_result (Some r) path)
  \/ ((forall r, In r (routes_of st) -> path_match r path = false) /\
      snd (serve st mws order segs) = None /\
      handlers_of (fst (serve st mws order segs)) = match st_default st with Some d => [d] | None => [] end).
Proof.
  intros Hp Hm path. unfold serve. fold path.
  destruct (scan order path None O) as [r|] eqn:E.
  - left. exists r. split.
    + apply scan_exact. eauto.
    + cbn [finish_serve fst snd]. split; [now apply run_chain_one_handler|reflexivity].
  - right. split; [|split].
    + intros r Hin. eapply scan_none; [exact E|]. eapply Permutation_in; [symmetry|]; eauto.
    + reflexivity.
    + cbn [finish_serve fst snd]. destruct (st_default st); [now apply run_chain_one_handler|reflexivity].
Qed.

(* the variables handed to the handler are the pieces of a decomposition of
   the path along the pattern, one per variable *)
Theorem match_result_vars r path :
  path_match r path = true ->
  exists vals, extract r path = Some vals /\ rdecomp (r_parts r) path vals /\
               length vals = length (var_names (r_parts r)) /\
               match_result (Some r) path = Some (path, r_pat r, vars_map (var_names (r_parts r)) vals []).
Proof.
  intros Hm. apply extract_iff_match in Hm as [vals E]. exists vals.
  pose proof (extract_sound _ _ _ E) as Hd. repeat split; try assumption.
  - eapply decomp_length; eauto.
  - unfold match_result. now rewrite E.
Qed.

(* ------------------------------------------------------------------ *)
(** * concurrency *)

Lemma visit_in order m r : In r (visit order m) -> In r (map snd m).
Proof.
  unfold visit. intros H. apply in_flat_map in H as (i & _ & Hi).
  destruct (nth_error m i) as [kv|] eqn:E; [|destruct Hi]. destruct Hi as [<-|[]].
  apply in_map. eapply nth_error_In; eauto.
Qed.

Definition drec_ok (c0 : config) (sched : list nat) (d : drec) : Prop :=
  d_sel d = scan (visit (d_order d) (d_routes d)) (d_path d) None O /\
  exists s1 s2, sched = s1 ++ s2 /\ d_routes d = st_routes (c_st (run_conc c0 s1)).

Lemma cstep_log c tid d : In d (c_log (cstep c tid)) ->
  In d (c_log c) \/
  (d_sel d = scan (visit (d_order d) (d_routes d)) (d_path d) None O /\ d_routes d = st_routes (c_st c)).
Proof.
  unfold cstep. destruct (nth_error (c_threads c) tid) as [t|]; [|now left].
  destruct (t_jobs t) as [|[o|segs order] js]; [now left|now left|].
  destruct (t_local t); [|now left]. cbn [c_log]. intros H. apply in_app_iff in H as [H|[<-|[]]]; [now left|].
  right. cbn. split; reflexivity.
Qed.

Lemma run_conc_snoc c s t : run_conc c (s ++ [t]) = cstep (run_conc c s) t.
Proof. unfold run_conc. now rewrite fold_left_app. Qed.

Theorem run_conc_log c0 : c_log c0 = [] -> forall sched d,
  In d (c_log (run_conc c0 sched)) -> drec_ok c0 sched d.
Proof.
  intros H0 sched. induction sched as [|t sched IH] using rev_ind; intros d Hin.
  - cbn in Hin. rewrite H0 in Hin. destruct Hin.
  - rewrite run_conc_snoc in Hin. apply cstep_log in Hin as [Hin|[Hs Hr]].
    + destruct (IH d Hin) as (Hs & s1 & s2 & -> & Hr). split; [exact Hs|].
      exists s1, (s2 ++ [t]). now rewrite app_assoc.
    + split; [exact Hs|]. exists sched, [t]. split; [reflexivity|exact Hr].
Qed.

Lemma cstep_wf c tid : wf (c_st c) -> wf (c_st (cstep c tid)).
Proof.
  intros H. unfold cstep. destruct (nth_error (c_threads c) tid) as [t|]; [|exact H].
  destruct (t_jobs t) as [|[o|segs order] js]; [exact H| cbn [c_st]; now apply apply_op_wf|].
  destruct (t_local t); exact H.
Qed.
Lemma run_conc_wf c : wf (c_st c) -> forall sched, wf (c_st (run_conc c sched)).
Proof.
  intros H sched. induction sched as [|t sched IH] using rev_ind; [exact H|].
  rewrite run_conc_snoc. now apply cstep_wf.
Qed.

(* lock discipline: a step that writes the guarded fields holds the write
   lock; a step under the read lock leaves the registered state unchanged *)
Lemma lock_discipline t m w : step_mode t = Some (m, w) -> w = true -> m = WLock.
Proof. unfold step_mode. destruct (t_jobs t) as [|[o|s o] js]; intros [= <- <-]; [reflexivity|discriminate]. Qed.
Lemma read_step_pure c tid t : nth_error (c_threads c) tid = Some t ->
  step_mode t = Some (RLock, false) -> c_st (cstep c tid) = c_st c.
Proof.
  intros E. unfold step_mode, cstep. rewrite E. destruct (t_jobs t) as [|[o|s o] js]; try discriminate.
  intros _. destruct (t_local t); reflexivity.
Qed.

(* ------------------------------------------------------------------ *)
(** * regexp.QuoteMeta: the quoted text denotes exactly the literal *)

Lemma L_chr c w : L (chr c) w <-> w = [c].
Proof.
  unfold chr. split.
  - intros H. apply L_sym_inv in H as (c' & -> & Hm).
    unfold sym_mem, in_ranges in Hm. cbn in Hm.
    destruct (c <=? c') eqn:E1; destruct (c' <=? c) eqn:E2; cbn in Hm; try discriminate.
    apply Z.leb_le in E1. apply Z.leb_le in E2. f_equal. lia.
  - intros ->. constructor. unfold sym_mem, in_ranges. cbn. rewrite Z.leb_refl. reflexivity.
Qed.

Definition qcat (cur : re) (s : str) : re := fold_left (fun acc c => Cat acc (chr c)) s cur.

Lemma L_qcat : forall s cur v, L (qcat cur s) v <-> exists u, v = u ++ s /\ L cur u.
Proof.
  induction s as [|c s IH]; intros cur v; cbn [qcat fold_left].
  - split; [intros H; exists v; now rewrite app_nil_r| intros (u & -> & H); now rewrite app_nil_r].
  - fold (qcat (Cat cur (chr c)) s). rewrite IH. split.
    + intros (u & -> & H). apply L_cat_inv in H as (u1 & u2 & -> & H1 & H2). apply L_chr in H2 as ->.
      exists u1. split; [now rewrite <- app_assoc|exact H1].
    + intros (u & -> & H). exists (u ++ [c]). split; [now rewrite <- app_assoc|].
      constructor; [exact H| now apply L_chr].
Qed.

Definition post_free (t : str) : Prop :=
  match t with [] => True | q :: _ => q <> 42 /\ q <> 43 /\ q <> 63 /\ q <> 123 end.

Lemma is_meta_false c : is_meta c = false ->
  c <> 92 /\ c <> 46 /\ c <> 43 /\ c <> 42 /\ c <> 63 /\ c <> 40 /\ c <> 41 /\ c <> 124 /\
  c <> 91 /\ c <> 93 /\ c <> 123 /\ c <> 125 /\ c <> 94 /\ c <> 36.
Proof.
  unfold is_meta. cbn [existsb]. intros H.
  repeat (apply orb_false_iff in H as [?H H]).
  repeat match goal with Hx : (c =? _) = false |- _ => apply Z.eqb_neq in Hx end.
  repeat split; assumption.
Qed.

Lemma quote_post_free s : post_free (quote_meta s).
Proof.
  destruct s as [|c s]; cbn [quote_meta flat_map]; [exact I|].
  destruct (is_meta c) eqn:E; cbn [app post_free].
  - repeat split; discriminate.
  - apply is_meta_false in E. tauto.
Qed.

Ltac neq_false :=
  repeat match goal with
  | H : ?c <> ?k |- context [?c =? ?k] => rewrite (proj2 (Z.eqb_neq c k) H)
  end.

Lemma post_step (a : re) (t : str) : post_free t ->
  match t with
  | [] => Some (a, t, false)
  | q :: r2 =>
      if q =? 42 then Some (Star a, r2, true)
      else if q =? 43 then Some (Cat a (Star a), r2, true)
      else if q =? 63 then Some (Alt a Eps, r2, true)
      else if q =? 123 then
        match p_repeat r2 with
        | RepNone => Some (a, t, false)
        | RepBad => None
        | Rep mn mx r3 => Some (mk_rep a mn mx, r3, true)
        end
      else Some (a, t, false)
  end = Some (a, t, false).
Proof.
  destruct t as [|q r2]; [reflexivity|]. cbn [post_free]. intros (H1 & H2 & H3 & H4). neq_false. reflexivity.
Qed.

Lemma p_re_plain f c t alts cur n : is_meta c = false -> post_free t ->
  p_re (S f) (c :: t) alts cur n = p_re f t alts (Cat cur (chr c)) n.
Proof.
  intros Hm Hp. apply is_meta_false in Hm.
  destruct Hm as (H92 & H46 & H43 & H42 & H63 & H40 & H41 & H124 & H91 & H93 & H123 & H125 & H94 & H36).
  cbn [p_re]. unfold is_post. neq_false. cbn [orb].
  rewrite (post_step (chr c) t Hp). cbn [andb]. now rewrite Nat.add_0_r.
Qed.

Lemma p_re_esc f c t alts cur n : is_meta c = true -> post_free t ->
  p_re (S f) (92 :: c :: t) alts cur n = p_re f t alts (Cat cur (chr c)) n.
Proof.
  intros Hm Hp.
  assert (Hc : (c =? 100) = false /\ (c <? 128) && negb (is_alnum c) = true).
  { unfold is_meta in Hm. cbn [existsb] in Hm.
    repeat (apply orb_true_iff in Hm as [Hm|Hm]); try discriminate;
      apply Z.eqb_eq in Hm; subst c; split; reflexivity. }
  destruct Hc as [H100 Hpunct].
  cbn [p_re]. change (92 =? 41) with false. change (92 =? 124) with false. change (92 =? 40) with false.
  change (92 =? 91) with false. change (92 =? 46) with false. change (92 =? 92) with true.
  cbv iota. rewrite H100, Hpunct.
  rewrite (post_step (chr c) t Hp). cbn [andb]. now rewrite Nat.add_0_r.
Qed.

Lemma p_re_quote : forall s fuel alts cur n, (length s < fuel)%nat ->
  p_re fuel (quote_meta s) alts cur n = Some (addalt alts (qcat cur s), n, []).
Proof.
  induction s as [|c s IH]; intros fuel alts cur n Hf.
  - destruct fuel; [cbn in Hf; lia|]. reflexivity.
  - destruct fuel as [|f]; [cbn in Hf; lia|]. cbn [length] in Hf.
    change (quote_meta (c :: s)) with ((if is_meta c then [92; c] else [c]) ++ quote_meta s).
    destruct (is_meta c) eqn:E; cbn [app].
    + rewrite p_re_esc by (auto using quote_post_free). rewrite IH by lia. reflexivity.
    + rewrite p_re_plain by (auto using quote_post_free). rewrite IH by lia. reflexivity.
Qed.

Lemma quote_meta_length s : (length s <= length (quote_meta s))%nat.
Proof.
  induction s as [|c s IH]; [cbn; lia|].
  change (quote_meta (c :: s)) with ((if is_meta c then [92; c] else [c]) ++ quote_meta s).
  rewrite app_length. destruct (is_meta c); cbn [length]; lia.
Qed.

Theorem quote_meta_language s :
  exists r, parse_re (quote_meta s) = Some (r, O) /\ forall v, L r v <-> v = s.
Proof.
  exists (qcat Eps s). split.
  - unfold parse_re. rewrite p_re_quote by (pose proof (quote_meta_length s); lia). reflexivity.
  - intros v. rewrite L_qcat. split.
    + intros (u & -> & H). apply L_eps_inv in H as ->. reflexivity.
    + intros ->. exists []. split; [reflexivity|constructor].
Qed.

Theorem conc_dispatch : forall c0 sched d, c_log c0 = [] ->
  In d (c_log (run_conc c0 sched)) ->
  (exists s1 s2, sched = s1 ++ s2 /\ d_routes d = st_routes (c_st (run_conc c0 s1))) /\
  match d_sel d with
  | Some r => In r (map snd (d_routes d)) /\ path_match r (d_path d) = true /\
              (Permutation (visit (d_order d) (d_routes d)) (map snd (d_routes d)) ->
               maximal_match (map snd (d_routes d)) (d_path d) r)
  | None => Permutation (visit (d_order d) (d_routes d)) (map snd (d_routes d)) ->
            forall r, In r (map snd (d_routes d)) -> path_match r (d_path d) = false
  end.
Proof.
  intros c0 sched d H0 Hin. destruct (run_conc_log c0 H0 sched d Hin) as [Hs Hex].
  split; [exact Hex|]. rewrite Hs.
  destruct (scan (visit (d_order d) (d_routes d)) (d_path d) None O) as [r|] eqn:E.
  - pose proof (scan_some _ _ _ E) as (Hi & Hm & Hmax). split; [now apply visit_in in Hi|]. split; [exact Hm|].
    intros Hp. apply scan_exact. eauto.
  - intros Hp r Hi. eapply scan_none; [exact E|]. eapply Permutation_in; [symmetry|]; eauto.
Qed.

(* ------------------------------------------------------------------ *)
(** * the model satisfies the property predicate of Spec.v *)

Fixpoint keys_distinct (l : list (str * str)) : bool :=
  match l with [] => true
  | kv :: r => negb (existsb (fun kv' => str_eqb (fst kv') (fst kv)) r) && keys_distinct r end.

Fixpoint vlookup (m : list (str * str)) (k : str) : option str :=
  match m with [] => None | (k', v) :: r => if str_eqb k' k then Some v else vlookup r k end.

Lemma vmap_set_lookup m k v k0 :
  vlookup (vmap_set m k v) k0 = if str_eqb k k0 then Some v else vlookup m k0.
Proof.
  induction m as [|[k' v'] m IH]; cbn [vmap_set vlookup].
  - reflexivity.
  - destruct (str_eqb k' k) eqn:E.
    + apply str_eqb_eq in E as ->. cbn [vlookup]. destruct (str_eqb k k0); reflexivity.
    + cbn [vlookup]. rewrite IH. destruct (str_eqb k' k0) eqn:E0; [|reflexivity].
      apply str_eqb_eq in E0 as ->. now rewrite (proj2 (str_eqb_neq k k0)) by (apply str_eqb_neq in E; congruence).
Qed.

Lemma vmap_set_keys m k v k0 : In k0 (map fst (vmap_set m k v)) <-> k0 = k \/ In k0 (map fst m).
Proof.
  induction m as [|[k' v'] m IH]; cbn [vmap_set map fst In].
  - split; [intros [<-|[]]; now left| intros [->|[]]; now left].
  - destruct (str_eqb k' k) eqn:E.
    + apply str_eqb_eq in E as ->. cbn [map fst In]. intuition (subst; auto).
    + cbn [map fst In]. rewrite IH. intuition (subst; auto).
Qed.

Lemma vmap_set_nodup m k v : NoDup (map fst m) -> NoDup (map fst (vmap_set m k v)).
Proof.
  induction m as [|[k' v'] m IH]; cbn [vmap_set map fst]; intros H.
  - constructor; [intros []|constructor].
  - inversion H as [|? ? Hni Hnd]; subst. destruct (str_eqb k' k) eqn:E.
    + apply str_eqb_eq in E as ->. cbn [map fst]. now constructor.
    + apply str_eqb_neq in E. cbn [map fst]. constructor; [|now apply IH].
      rewrite vmap_set_keys. intros [->|Hin]; [congruence|contradiction].
Qed.

Lemma vars_map_lookup : forall ns vs m k0,
  vlookup (vars_map ns vs m) k0 = last_binding ns vs k0 (vlookup m k0).
Proof.
  induction ns as [|n ns IH]; intros vs m k0; cbn [vars_map last_binding]; [reflexivity|].
  destruct vs as [|v vs]; [reflexivity|]. rewrite IH, vmap_set_lookup. reflexivity.
Qed.
Lemma vars_map_nodup : forall ns vs m, NoDup (map fst m) -> NoDup (map fst (vars_map ns vs m)).
Proof.
  induction ns as [|n ns IH]; intros vs m H; cbn [vars_map]; [exact H|].
  destruct vs as [|v vs]; [exact H|]. apply IH. now apply vmap_set_nodup.
Qed.
Lemma vars_map_keys : forall ns vs m k0, length ns = length vs ->
  (In k0 ns \/ In k0 (map fst m)) -> In k0 (map fst (vars_map ns vs m)).
Proof.
  induction ns as [|n ns IH]; intros vs m k0 Hl H; cbn [vars_map].
  - destruct H as [[]|H]; exact H.
  - destruct vs as [|v vs]; [discriminate|]. cbn in Hl. apply IH; [lia|].
    rewrite vmap_set_keys. destruct H as [[<-|H]|H]; auto.
Qed.

Lemma vlookup_in m k v : NoDup (map fst m) -> In (k, v) m -> vlookup m k = Some v.
Proof.
  induction m as [|[k' v'] m IH]; cbn [vlookup map fst]; intros Hnd Hin; [destruct Hin|].
  inversion Hnd as [|? ? Hni Hnd']; subst. destruct Hin as [[= -> ->]|Hin].
  - now rewrite str_eqb_refl.
  - destruct (str_eqb k' k) eqn:E; [|now apply IH].
    apply str_eqb_eq in E as ->. exfalso. apply Hni. apply in_map_iff. exists (k, v). now split.
Qed.

Lemma keys_distinct_nodup m : NoDup (map fst m) -> keys_distinct m = true.
Proof.
  induction m as [|[k v] m IH]; cbn [keys_distinct map fst]; intros H; [reflexivity|].
  inversion H as [|? ? Hni Hnd]; subst. rewrite IH by assumption. rewrite andb_true_r.
  apply negb_true_iff. destruct (existsb _ m) eqn:E; [|reflexivity].
  apply existsb_exists in E as ([k' v'] & Hin & Hk). cbn in Hk. apply str_eqb_eq in Hk as ->.
  exfalso. apply Hni. apply in_map_iff. exists (k, v'). now split.
Qed.

Lemma nodup_fix_eq : forall obs : list (str * str),
  (fix nodup (l : list (str * str)) : bool :=
     match l with [] => true
     | kv :: r => negb (existsb (fun kv' => str_eqb (fst kv') (fst kv)) r) && nodup r end) obs
  = keys_distinct obs.
Proof. induction obs as [|kv r IH]; [reflexivity|]. cbn [keys_distinct]. now rewrite <- IH. Qed.

Lemma vars_map_is_map names vals : length names = length vals ->
  is_map_of names vals (vars_map names vals []) = true.
Proof.
  intros Hl. unfold is_map_of. rewrite nodup_fix_eq.
  assert (Hnd : NoDup (map fst (vars_map names vals []))) by (apply vars_map_nodup; constructor).
  rewrite !andb_true_iff. split; [split|].
  - apply forallb_forall. intros [k v] Hin. cbn [fst snd].
    pose proof (vlookup_in _ _ _ Hnd Hin) as E. rewrite vars_map_lookup in E. cbn [vlookup] in E.
    rewrite E. apply str_eqb_refl.
  - apply forallb_forall. intros n Hin. apply existsb_exists.
    assert (Hk : In n (map fst (vars_map names vals []))) by (apply vars_map_keys; auto).
    apply in_map_iff in Hk as (kv & <- & Hkv). exists kv. split; [exact Hkv| apply str_eqb_refl].
  - now apply keys_distinct_nodup.
Qed.

Definition sroute_of (r : route) : sroute := mkS (r_pat r) (r_h r) (r_parts r).
Definition sregs_of (st : rstate) : list sroute := map sroute_of (routes_of st).

Lemma wf_pats st : wf st -> NoDup (map r_pat (routes_of st)).
Proof.
  intros [Hnd Hr]. unfold routes_of. rewrite map_map.
  replace (map (fun x => r_pat (snd x)) (st_routes st)) with (map fst (st_routes st)); [exact Hnd|].
  apply map_ext_in. intros [k r] Hin. cbn. symmetry. now apply (Hr k r).
Qed.

Lemma filter_none (tmpl : str) rs : (forall x, In x rs -> r_pat x <> tmpl) ->
  filter (fun x => str_eqb (s_pat x) tmpl) (map sroute_of rs) = [].
Proof.
  induction rs as [|r0 rs IH]; intros H; [reflexivity|]. cbn [map filter sroute_of s_pat].
  rewrite (proj2 (str_eqb_neq _ _)) by (apply H; now left). apply IH. intros x Hx. apply H. now right.
Qed.

Lemma filter_unique r : forall rs, NoDup (map r_pat rs) -> In r rs ->
  filter (fun x => str_eqb (s_pat x) (r_pat r)) (map sroute_of rs) = [sroute_of r].
Proof.
  induction rs as [|r0 rs IH]; intros Hnd Hin; [destruct Hin|].
  cbn [map] in Hnd. inversion Hnd as [|? ? Hni Hnd']; subst.
  cbn [map filter]. change (s_pat (sroute_of r0)) with (r_pat r0).
  destruct Hin as [->|Hin].
  - rewrite str_eqb_refl. f_equal. apply filter_none. intros x Hx E. apply Hni. rewrite <- E. now apply in_map.
  - rewrite (proj2 (str_eqb_neq _ _)); [now apply IH|].
    intros E. apply Hni. rewrite E. now apply in_map.
Qed.

Lemma ev_eqb_refl e : ev_eqb e e = true.
Proof. destruct e; cbn; apply Z.eqb_refl. Qed.
Lemma trace_eqb_refl t : list_eqb ev_eqb t t = true.
Proof. induction t as [|e t IH]; cbn [list_eqb]; [reflexivity|]. now rewrite ev_eqb_refl, IH. Qed.

Lemma handlers_of_in l : handlers_of (map MwIn l) = [].
Proof. induction l; [reflexivity|exact IHl]. Qed.
Lemma handlers_of_out l : handlers_of (map MwOut l) = [].
Proof. induction l; [reflexivity|exact IHl]. Qed.

Lemma spec_trace_pass mws h : snd (passing_prefix mws) = true -> handlers_of (spec_trace mws (Some h)) = [h].
Proof.
  unfold spec_trace. destruct (passing_prefix mws) as [ids pass]. cbn [snd]. intros ->.
  now rewrite !handlers_of_app, handlers_of_in, handlers_of_out.
Qed.
Lemma spec_trace_block mws h : snd (passing_prefix mws) = false -> spec_trace mws h = spec_trace mws None.
Proof. unfold spec_trace. destruct (passing_prefix mws) as [ids pass]. cbn [snd]. now intros ->. Qed.

Lemma filter_nomatch rs path : (forall r, In r rs -> path_match r path = false) ->
  filter (fun r => spec_matches (s_parts r) path) (map sroute_of rs) = [].
Proof.
  induction rs as [|r0 rs IH]; intros Hno; [reflexivity|]. cbn [map filter].
  change (s_parts (sroute_of r0)) with (r_parts r0). rewrite spec_matches_iff, Hno by now left.
  apply IH. intros r Hr. apply Hno. now right.
Qed.

(* the model satisfies the property predicate: for every reachable state,
   middleware list (also with middlewares that answer themselves), iteration
   order and request *)
Theorem dispatch_spec st mws order segs : wf st -> Permutation order (routes_of st) ->
  let path := filter_path (path_of segs) in
  dispatch_class (sregs_of st) (st_default st) mws path
    (fst (serve st mws order segs)) (snd (serve st mws order segs)) = 0%N.
Proof.
  intros Hwf Hp path. unfold serve. fold path.
  destruct (scan order path None O) as [r|] eqn:E; cbn [finish_serve fst snd].
  - assert (Hmax : maximal_match (routes_of st) path r) by (apply scan_exact; eauto).
    destruct Hmax as (Hin & Hm & Hmax).
    destruct (match_result_vars r path Hm) as (vals & Hex & Hd & Hlen & ->).
    unfold dispatch_class. unfold sregs_of. rewrite (filter_unique r _ (wf_pats st Hwf) Hin).
    change (s_parts (sroute_of r)) with (r_parts r). change (s_pat (sroute_of r)) with (r_pat r).
    change (s_h (sroute_of r)) with (r_h r).
    rewrite spec_matches_iff, Hm. cbn [negb].
    match goal with |- context [existsb ?f ?l] => destruct (existsb f l) eqn:Eex end.
    { exfalso. apply existsb_exists in Eex as (x & Hx & Hlt). apply filter_In in Hx as [Hx Hsm].
      apply in_map_iff in Hx as (r' & <- & Hr'). change (s_parts (sroute_of r')) with (r_parts r') in Hsm.
      rewrite spec_matches_iff in Hsm. change (s_pat (sroute_of r')) with (r_pat r') in Hlt.
      apply Nat.ltb_lt in Hlt. specialize (Hmax r' Hr' Hsm). lia. }
    rewrite str_eqb_refl. cbn [andb].
    assert (Hv : vars_ok (sroute_of r) path (vars_map (var_names (r_parts r)) vals []) = true).
    { unfold vars_ok. apply existsb_exists. exists vals. split; [now apply decomps_spec|].
      apply vars_map_is_map. now symmetry. }
    rewrite Hv. cbn [negb]. rewrite run_chain_spec.
    destruct (snd (passing_prefix mws)) eqn:Epass.
    + rewrite spec_trace_pass by assumption. rewrite Z.eqb_refl. cbn [negb]. now rewrite trace_eqb_refl.
    + rewrite (spec_trace_block mws (Some (r_h r))) by assumption. now rewrite trace_eqb_refl.
  - assert (Hno : forall r, In r (routes_of st) -> path_match r path = false).
    { intros r Hin. eapply scan_none; [exact E|]. eapply Permutation_in; [symmetry|]; eauto. }
    unfold dispatch_class, match_result.
    assert (Hf : filter (fun r => spec_matches (s_parts r) path) (sregs_of st) = []).
    { unfold sregs_of. now apply filter_nomatch. }
    rewrite Hf. cbn [is_nil negb].
    destruct (st_default st) as [d|]; [|reflexivity].
    rewrite run_chain_spec. destruct (snd (passing_prefix mws)) eqn:Epass.
    + rewrite spec_trace_pass by assumption. rewrite Z.eqb_refl. cbn [negb]. now rewrite trace_eqb_refl.
    + rewrite (spec_trace_block mws (Some d)) by assumption. now rewrite trace_eqb_refl.
Qed.

(* ------------------------------------------------------------------ *)
(** * histories: operations and dispatches interleaved on one router *)

Lemma apply_ops_app st a b : apply_ops st (a ++ b) = apply_ops (apply_ops st a) b.
Proof. unfold apply_ops. apply fold_left_app. Qed.

Lemma hops_app a b : hops (a ++ b) = hops a ++ hops b.
Proof. unfold hops. apply flat_map_app. Qed.

Lemma run_hist_app mws : forall a b st,
  run_hist st mws (a ++ b) = run_hist st mws a ++ run_hist (apply_ops st (hops a)) mws b.
Proof.
  induction a as [|s a IH]; intros b st; [reflexivity|].
  destruct s as [o|segs order]; cbn [app run_hist].
  - rewrite IH. reflexivity.
  - rewrite IH. reflexivity.
Qed.

Lemma run_hist_length mws : forall h st, length (run_hist st mws h) = hserves h.
Proof.
  induction h as [|s h IH]; intros st; [reflexivity|].
  destruct s as [o|segs order]; cbn [run_hist]; unfold hserves in *; cbn [filter length]; now rewrite IH.
Qed.

(* HISTORY INDEPENDENCE: the k-th dispatch of a history is the dispatch of a
   router on which only the OPERATIONS before it were performed -- the dispatches
   before it (of the same or of other paths) have no influence -- and it
   satisfies the property predicate against the routes registered at that
   moment *)
Theorem hist_dispatch st0 mws pre segs order post : wf st0 ->
  let st := apply_ops st0 (hops pre) in
  nth_error (run_hist st0 mws (pre ++ HServe segs order :: post)) (hserves pre)
    = Some (serve st mws order segs) /\
  (Permutation order (routes_of st) ->
   dispatch_class (sregs_of st) (st_default st) mws (filter_path (path_of segs))
     (fst (serve st mws order segs)) (snd (serve st mws order segs)) = 0%N).
Proof.
  intros Hwf st. split.
  - rewrite run_hist_app. cbn [run_hist]. fold st.
    rewrite nth_error_app2 by (rewrite run_hist_length; lia).
    rewrite run_hist_length, Nat.sub_diag. reflexivity.
  - intros Hp. apply dispatch_spec; [|exact Hp]. unfold st. now apply apply_ops_wf.
Qed.

(* what an operation does to the registered set, pattern by pattern *)
Lemma map_set_get m k v k0 :
  map_get (map_set m k v) k0 = if str_eqb k k0 then Some v else map_get m k0.
Proof.
  induction m as [|[k' v'] m IH]; cbn [map_set map_get].
  - reflexivity.
  - destruct (str_eqb k' k) eqn:E.
    + apply str_eqb_eq in E. subst k'. cbn [map_get]. destruct (str_eqb k k0); reflexivity.
    + cbn [map_get]. destruct (str_eqb k' k0) eqn:E0.
      * apply str_eqb_eq in E0. subst k0. apply str_eqb_neq in E.
        rewrite (proj2 (str_eqb_neq k k')); [reflexivity|congruence].
      * exact IH.
Qed.

Lemma map_del_get m k k0 :
  map_get (map_del m k) k0 = if str_eqb k k0 then None else map_get m k0.
Proof.
  induction m as [|[k' v'] m IH]; cbn [map_del map_get].
  - now destruct (str_eqb k k0).
  - destruct (str_eqb k' k) eqn:E.
    + apply str_eqb_eq in E. subst k'. rewrite IH. destruct (str_eqb k k0); reflexivity.
    + cbn [map_get]. destruct (str_eqb k' k0) eqn:E0.
      * apply str_eqb_eq in E0. subst k0. apply str_eqb_neq in E.
        rewrite (proj2 (str_eqb_neq k k')); [reflexivity|congruence].
      * exact IH.
Qed.

Lemma map_get_in m k r : map_get m k = Some r -> In (k, r) m.
Proof.
  induction m as [|[k' v'] m IH]; cbn [map_get]; [discriminate|].
  destruct (str_eqb k' k) eqn:E.
  - apply str_eqb_eq in E. subst k'. intros [= ->]. now left.
  - intros H. right. now apply IH.
Qed.

Lemma in_map_get m k r : NoDup (map fst m) -> In (k, r) m -> map_get m k = Some r.
Proof.
  induction m as [|[k' v'] m IH]; intros Hnd Hin; [destruct Hin|].
  cbn [map fst] in Hnd. inversion Hnd as [|? ? Hni Hnd']; subst. cbn [map_get].
  destruct Hin as [[= -> ->]|Hin].
  - now rewrite str_eqb_refl.
  - destruct (str_eqb k' k) eqn:E.
    + apply str_eqb_eq in E. subst k'. exfalso. apply Hni. change k with (fst (k, r)). now apply in_map.
    + now apply IH.
Qed.

(* the registered set is a finite map pattern -> route *)
Theorem registered_lookup st k r : wf st ->
  (map_get (st_routes st) k = Some r <-> In r (routes_of st) /\ r_pat r = k).
Proof.
  intros [Hnd Hr]. split.
  - intros H. apply map_get_in in H. split; [|now apply (Hr k r)].
    unfold routes_of. change r with (snd (k, r)). now apply in_map.
  - intros [Hin Hk]. unfold routes_of in Hin. apply in_map_iff in Hin as ([k' r'] & Heq & Hin).
    cbn in Heq. subst r'. destruct (Hr k' r Hin) as [Hp _]. rewrite Hp in Hk. subst k'.
    now apply in_map_get.
Qed.

(* Handle(pat, h) that returned nil: pat is registered with h (a route of the
   same pattern is replaced), every other pattern keeps its route *)
Theorem handle_effect st pat h : snd (apply_op st (OHandle pat (Some h))) = ResOk ->
  let st' := fst (apply_op st (OHandle pat (Some h))) in
  (exists cs, new_route_regexp (filter_path pat) = COk cs /\
     map_get (st_routes st') (filter_path pat) = Some (mkRoute h (filter_path pat) cs)) /\
  (forall k, k <> filter_path pat -> map_get (st_routes st') k = map_get (st_routes st) k) /\
  st_default st' = st_default st.
Proof.
  cbn [apply_op]. destruct (new_route_regexp (filter_path pat)) as [cs| |] eqn:E; cbn [fst snd]; try discriminate.
  intros _. cbn [st_routes st_default]. split; [|split].
  - exists cs. split; [reflexivity|]. now rewrite map_set_get, str_eqb_refl.
  - intros k Hk. rewrite map_set_get. rewrite (proj2 (str_eqb_neq _ _)); [reflexivity|congruence].
  - reflexivity.
Qed.

(* HandleRemove(pat) that returned nil: pat is no longer registered, every
   other pattern keeps its route *)
Theorem remove_effect st pat : snd (apply_op st (ORemove pat)) = ResOk ->
  let st' := fst (apply_op st (ORemove pat)) in
  map_get (st_routes st') (filter_path pat) = None /\
  (forall k, k <> filter_path pat -> map_get (st_routes st') k = map_get (st_routes st) k) /\
  st_default st' = st_default st.
Proof.
  cbn [apply_op]. destruct (map_has (st_routes st) (filter_path pat)); cbn [fst snd]; try discriminate.
  intros _. cbn [st_routes st_default]. split; [|split].
  - now rewrite map_del_get, str_eqb_refl.
  - intros k Hk. rewrite map_del_get. rewrite (proj2 (str_eqb_neq _ _)); [reflexivity|congruence].
  - reflexivity.
Qed.

(* an operation that failed (error or panic) changes nothing; DefaultHandle
   changes the default handler only *)
Theorem failed_op_effect st o : snd (apply_op st o) <> ResOk -> fst (apply_op st o) = st.
Proof.
  destruct o as [pat [h|]|pat|h]; cbn [apply_op].
  - destruct (new_route_regexp (filter_path pat)); cbn [fst snd]; congruence.
  - reflexivity.
  - destruct (map_has (st_routes st) (filter_path pat)); cbn [fst snd]; congruence.
  - cbn [fst snd]. congruence.
Qed.
Theorem default_effect st h :
  st_routes (fst (apply_op st (ODefault h))) = st_routes st /\ st_default (fst (apply_op st (ODefault h))) = h.
Proof. split; reflexivity. Qed.

Lemma nodup_pat_unique rs : NoDup (map r_pat rs) -> forall a b, In a rs -> In b rs -> r_pat a = r_pat b -> a = b.
Proof.
  induction rs as [|r0 rs IH]; intros Hnd a b Ha Hb E; [destruct Ha|].
  cbn [map] in Hnd. inversion Hnd as [|? ? Hni Hnd']; subst.
  destruct Ha as [->|Ha], Hb as [->|Hb].
  - reflexivity.
  - exfalso. apply Hni. rewrite E. now apply in_map.
  - exfalso. apply Hni. rewrite <- E. now apply in_map.
  - now apply IH.
Qed.

(* TAKE-OVER: whatever was dispatched before (in particular the same path,
   while another route was its longest match), a dispatch goes to the route [b]
   that is, at that moment, registered, matching and strictly longer than every
   other matching registered route -- e.g. a route registered by the last
   operation *)
Theorem hist_takeover st0 mws pre segs order post b : wf st0 ->
  Forall (fun m => snd m = true) mws ->
  let st := apply_ops st0 (hops pre) in
  let path := filter_path (path_of segs) in
  Permutation order (routes_of st) ->
  In b (routes_of st) -> path_match b path = true ->
  (forall r, In r (routes_of st) -> path_match r path = true -> r_pat r <> r_pat b ->
             (length (r_pat r) < length (r_pat b))%nat) ->
  exists out, nth_error (run_hist st0 mws (pre ++ HServe segs order :: post)) (hserves pre) = Some out /\
              handlers_of (fst out) = [r_h b] /\ snd out = match_result (Some b) path.
Proof.
  intros Hwf Hmw st path Hp Hb Hbm Hlong.
  destruct (hist_dispatch st0 mws pre segs order post Hwf) as [Hnth _]. fold st in Hnth.
  exists (serve st mws order segs). split; [exact Hnth|].
  destruct (serve_select st mws order segs Hp Hmw) as [(r & (Hin & Hm & Hmax) & Hh & Hpar)|(Hno & _ & _)].
  - fold path in Hm, Hmax, Hpar.
    assert (r = b) as ->; [|now split].
    assert (Hwf' : wf st) by (unfold st; now apply apply_ops_wf).
    apply (nodup_pat_unique _ (wf_pats st Hwf')); [exact Hin|exact Hb|].
    destruct (str_eqb (r_pat r) (r_pat b)) eqn:E; [now apply str_eqb_eq|].
    apply str_eqb_neq in E. specialize (Hlong r Hin Hm E). specialize (Hmax b Hb Hbm). lia.
  - fold path in Hno. rewrite (Hno b Hb) in Hbm. discriminate.
Qed.
