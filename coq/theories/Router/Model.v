(* C17 -- model of mux/router.go, mux/regexp.go, mux/middleware.go and
   message/options.go (Options.Path), transcribed as the code is.

   Strings are byte lists (Z in 0..255).  Go's regexp package is NOT verified:
   it is modelled by (a) a parser for the class of regular expressions used in
   generation, (b) a priority-ordered ("leftmost-first") enumeration of the
   match ends of a sub-expression ([ends]), (c) a Brzozowski-derivative matcher
   ([dmatch]) standing for regexp.MatchString.  Proofs.v shows (b) and (c)
   decide the same denotational language.  No proofs in this file. *)
From Coq Require Import ZArith NArith List Bool Lia.
From GoCoap Require Import Base.Bytes.
Import ListNotations.
Open Scope Z_scope.

Definition str := list Z.
Definition str_eqb : str -> str -> bool := list_eqb Z.eqb.
Definition is_nil {A} (l : list A) : bool := match l with [] => true | _ => false end.

(* ------------------------------------------------------------------ *)
(** * mux/regexp.go: braceIndices *)

(* loop state of braceIndices: position i, level, idx (start of the current
   first-level brace), pairs found so far (the Go slice holds them flattened) *)
Fixpoint brace_loop (s : str) (i : nat) (level : Z) (idx : nat) (acc : list (nat * nat))
  : option (list (nat * nat)) :=
  match s with
  | [] => if level =? 0 then Some (rev acc) else None
  | c :: r =>
      if c =? 123 then                      (* '{' *)
        let level' := level + 1 in
        brace_loop r (S i) level' (if level' =? 1 then i else idx) acc
      else if c =? 125 then                 (* '}' *)
        let level' := level - 1 in
        if level' =? 0 then brace_loop r (S i) level' idx ((idx, S i) :: acc)
        else if level' <? 0 then None
        else brace_loop r (S i) level' idx acc
      else brace_loop r (S i) level idx acc
  end.
Definition brace_indices (s : str) : option (list (nat * nat)) := brace_loop s O 0 O [].

(* s[a:b] for a <= b <= len s *)
Definition slice (s : str) (a b : nat) : str := firstn (b - a) (skipn a s).

(* strings.SplitN(s, ":", 2) *)
Fixpoint split_colon (s : str) : str * option str :=
  match s with
  | [] => ([], None)
  | c :: r => if c =? 58 then ([], Some r)
              else let '(a, b) := split_colon r in (c :: a, b)
  end.

Inductive part := Lit (s : str) | Var (name re : str).

Definition default_pattern : str := [91; 94; 47; 93; 43].   (* "[^/]+" *)

(* the loop of newRouteRegexp over the brace pairs; [end_] is the Go variable
   [end]; None = the "missing name or pattern" error *)
Fixpoint parts_loop (path : str) (idxs : list (nat * nat)) (end_ : nat) : option (list part) :=
  match idxs with
  | [] => Some [Lit (skipn end_ path)]
  | (a, b) :: r =>
      let raw := slice path end_ a in
      let '(name, po) := split_colon (slice path (S a) (b - 1)) in
      let patt := match po with Some p => p | None => default_pattern end in
      if is_nil name || is_nil patt then None
      else match parts_loop path r b with
           | Some ps => Some (Lit raw :: Var name patt :: ps)
           | None => None
           end
  end.

Definition parse_template (t : str) : option (list part) :=
  match brace_indices t with
  | None => None
  | Some idxs => parts_loop t idxs O
  end.

(* regexp.QuoteMeta: the bytes \.+*?()|[]{}^$ get a backslash *)
Definition is_meta (c : Z) : bool :=
  existsb (Z.eqb c) [92; 46; 43; 42; 63; 40; 41; 124; 91; 93; 123; 125; 94; 36].
Definition quote_meta (s : str) : str := flat_map (fun c => if is_meta c then [92; c] else [c]) s.

(* strconv.Itoa on a non-negative number *)
Fixpoint itoa_aux (fuel : nat) (n : Z) (acc : str) : str :=
  match fuel with
  | O => acc
  | S f => let acc' := (48 + n mod 10) :: acc in
           if n / 10 =? 0 then acc' else itoa_aux f (n / 10) acc'
  end.
Definition itoa (n : Z) : str := itoa_aux 20 n [].

(* the text handed to regexp.Compile: ^ quote(raw) (?P<vK> patt ) ... quote(raw) $ *)
Fixpoint regexp_body (ps : list part) (k : Z) : str :=
  match ps with
  | [] => []
  | Lit raw :: r => quote_meta raw ++ regexp_body r k
  | Var _ patt :: r => [40; 63; 80; 60; 118] ++ itoa k ++ [62] ++ patt ++ [41] ++ regexp_body r (k + 1)
  end.
Definition regexp_src (ps : list part) : str := [94] ++ regexp_body ps 0 ++ [36].

(* ------------------------------------------------------------------ *)
(** * the modelled class of regular expressions (trusted stand-in for regexp/syntax) *)

Inductive re :=
| Nul | Eps
| Sym (neg : bool) (rs : list (Z * Z))      (* one byte in / not in the ranges *)
| Cat (a b : re) | Alt (a b : re) | Star (a : re).

Definition in_ranges (rs : list (Z * Z)) (c : Z) : bool :=
  existsb (fun p => (fst p <=? c) && (c <=? snd p)) rs.
Definition sym_mem (neg : bool) (rs : list (Z * Z)) (c : Z) : bool := xorb neg (in_ranges rs c).

Definition chr (c : Z) : re := Sym false [(c, c)].
Fixpoint lit_re (s : str) : re := match s with [] => Eps | c :: r => Cat (chr c) (lit_re r) end.

(* x{n,m} as regexp/syntax simplifies it: n copies, then nested optional copies *)
Fixpoint rep_n (n : nat) (a tail : re) : re := match n with O => tail | S k => Cat a (rep_n k a tail) end.
Fixpoint opt_n (k : nat) (a : re) : re := match k with O => Eps | S j => Alt (Cat a (opt_n j a)) Eps end.
Definition mk_rep (a : re) (mn : Z) (mx : option Z) : re :=
  match mx with
  | None => rep_n (Z.to_nat mn) a (Star a)
  | Some m => rep_n (Z.to_nat mn) a (opt_n (Z.to_nat (m - mn)) a)
  end.

Definition is_digit (c : Z) : bool := (48 <=? c) && (c <=? 57).
Definition is_alnum (c : Z) : bool :=
  is_digit c || ((65 <=? c) && (c <=? 90)) || ((97 <=? c) && (c <=? 122)).

Fixpoint p_digits (s : str) (acc : Z) : Z * str :=
  match s with
  | c :: r => if is_digit c then p_digits r (acc * 10 + (c - 48)) else (acc, s)
  | [] => (acc, s)
  end.
(* regexp/syntax parseInt: digits, no leading zero unless the number is "0" *)
Definition p_int (s : str) : option (Z * str) :=
  match s with
  | c :: r =>
      if is_digit c then
        match r with
        | d :: _ => if (c =? 48) && is_digit d then None else Some (p_digits s 0)
        | [] => Some (p_digits s 0)
        end
      else None
  | [] => None
  end.

Inductive repq := RepNone | RepBad | Rep (mn : Z) (mx : option Z) (rest : str).
Definition chk_rep (mn : Z) (mx : option Z) (rest : str) : repq :=
  if (1000 <? mn) then RepBad else
  match mx with
  | Some m => if (1000 <? m) || (m <? mn) then RepBad else Rep mn mx rest
  | None => Rep mn mx rest
  end.
(* parseRepeat on the text after '{'; RepNone = "{ is a literal" *)
Definition p_repeat (s : str) : repq :=
  match p_int s with
  | None => RepNone
  | Some (n, r1) =>
      match r1 with
      | 125 :: r2 => chk_rep n (Some n) r2
      | 44 :: 125 :: r2 => chk_rep n None r2
      | 44 :: r2 => match p_int r2 with
                    | Some (m, 125 :: r3) => chk_rep n (Some m) r3
                    | _ => RepNone
                    end
      | _ => RepNone
      end
  end.

(* one character inside [...]: a plain byte or '\' + ASCII punctuation *)
Definition p_cchar (s : str) : option (Z * str) :=
  match s with
  | 92 :: c :: r => if (c <? 128) && negb (is_alnum c) then Some (c, r) else None
  | 92 :: [] => None
  | c :: r => Some (c, r)
  | [] => None
  end.
Fixpoint p_class (fuel : nat) (s : str) (acc : list (Z * Z)) : option (list (Z * Z) * str) :=
  match fuel with
  | O => None
  | S f =>
      match s with
      | [] => None
      | 93 :: r => Some (rev acc, r)
      | _ =>
          match p_cchar s with
          | None => None
          | Some (lo, r1) =>
              match r1 with
              | 45 :: c2 :: r2 =>
                  if c2 =? 93 then p_class f r1 ((lo, lo) :: acc)
                  else match p_cchar (c2 :: r2) with
                       | None => None
                       | Some (hi, r3) => if hi <? lo then None else p_class f r3 ((lo, hi) :: acc)
                       end
              | _ => p_class f r1 ((lo, lo) :: acc)
              end
          end
      end
  end.

Definition addalt (alts : option re) (cur : re) : re :=
  match alts with None => cur | Some a => Alt a cur end.
Definition is_post (c : Z) : bool := (c =? 42) || (c =? 43) || (c =? 63).
Definition next_is_post (s : str) : bool :=
  match s with
  | c :: r => is_post c || ((c =? 123) && match p_repeat r with RepNone => false | _ => true end)
  | [] => false
  end.

(* alternation up to ')' or the end; result: expression, number of capturing
   groups, remaining text.  None = a syntax error of regexp.Compile, or syntax
   outside the modelled class (lazy operators, flags, anchors, named groups,
   \-classes other than \d, POSIX classes, ']' first in a class). *)
Fixpoint p_re (fuel : nat) (s : str) (alts : option re) (cur : re) (ncap : nat)
  : option (re * nat * str) :=
  match fuel with
  | O => None
  | S f =>
      match s with
      | [] => Some (addalt alts cur, ncap, [])
      | c :: r =>
          if c =? 41 then Some (addalt alts cur, ncap, s)
          else if c =? 124 then p_re f r (Some (addalt alts cur)) Eps ncap
          else
          let atom : option (re * nat * str) :=
            if c =? 40 then
              let '(capt, body) :=
                match r with
                | 63 :: 58 :: b => (O, Some b)
                | 63 :: _ => (O, None)
                | _ => (1%nat, Some r)
                end in
              match body with
              | None => None
              | Some b =>
                  match p_re f b None Eps O with
                  | Some (g, n, 41 :: rest) => Some (g, (n + capt)%nat, rest)
                  | _ => None
                  end
              end
            else if c =? 91 then
              let '(neg, b) := match r with 94 :: b => (true, b) | _ => (false, r) end in
              match b with
              | 93 :: _ => None
              | _ => match p_class (S (length b)) b [] with
                     | Some (rs, rest) => Some (Sym neg rs, O, rest)
                     | None => None
                     end
              end
            else if c =? 46 then Some (Sym true [(10, 10)], O, r)
            else if c =? 92 then
              match r with
              | d :: r' => if d =? 100 then Some (Sym false [(48, 57)], O, r')
                           else if (d <? 128) && negb (is_alnum d) then Some (chr d, O, r')
                           else None
              | [] => None
              end
            else if is_post c || (c =? 94) || (c =? 36) then None
            else if c =? 123 then
              match p_repeat r with RepNone => Some (chr c, O, r) | _ => None end
            else Some (chr c, O, r) in
          match atom with
          | None => None
          | Some (a, n, r1) =>
              let post : option (re * str * bool) :=
                match r1 with
                | [] => Some (a, r1, false)
                | q :: r2 =>
                    if q =? 42 then Some (Star a, r2, true)
                    else if q =? 43 then Some (Cat a (Star a), r2, true)
                    else if q =? 63 then Some (Alt a Eps, r2, true)
                    else if q =? 123 then
                      match p_repeat r2 with
                      | RepNone => Some (a, r1, false)
                      | RepBad => None
                      | Rep mn mx r3 => Some (mk_rep a mn mx, r3, true)
                      end
                    else Some (a, r1, false)
                end in
              match post with
              | None => None
              | Some (a', r2, had) =>
                  if had && next_is_post r2 then None
                  else p_re f r2 alts (Cat cur a') (ncap + n)%nat
              end
          end
      end
  end.

Definition parse_re (s : str) : option (re * nat) :=
  match p_re (S (length s)) s None Eps O with
  | Some (r, n, []) => Some (r, n)
  | _ => None
  end.

(* priority-ordered ("leftmost-first", greedy) list of the lengths of the
   prefixes of [s] matched by [r]: the order in which a backtracking matcher
   tries them *)
Fixpoint star_ends (f : str -> list nat) (fuel : nat) (s : str) : list nat :=
  match fuel with
  | O => [O]
  | S k =>
      flat_map (fun i => match i with
                         | O => []
                         | S _ => map (Nat.add i) (star_ends f k (skipn i s))
                         end) (f s) ++ [O]
  end.
Fixpoint ends (r : re) (s : str) : list nat :=
  match r with
  | Nul => []
  | Eps => [O]
  | Sym neg rs => match s with c :: _ => if sym_mem neg rs c then [1%nat] else [] | [] => [] end
  | Cat a b => flat_map (fun i => map (Nat.add i) (ends b (skipn i s))) (ends a s)
  | Alt a b => ends a s ++ ends b s
  | Star a => star_ends (ends a) (S (length s)) s
  end.

(* Brzozowski derivatives: the stand-in for regexp.MatchString *)
Fixpoint nullable (r : re) : bool :=
  match r with
  | Nul => false | Eps => true | Sym _ _ => false
  | Cat a b => nullable a && nullable b
  | Alt a b => nullable a || nullable b
  | Star _ => true
  end.
Fixpoint deriv (c : Z) (r : re) : re :=
  match r with
  | Nul => Nul | Eps => Nul
  | Sym neg rs => if sym_mem neg rs c then Eps else Nul
  | Cat a b => if nullable a then Alt (Cat (deriv c a) b) (deriv c b) else Cat (deriv c a) b
  | Alt a b => Alt (deriv c a) (deriv c b)
  | Star a => Cat (deriv c a) (Star a)
  end.
Fixpoint dmatch (r : re) (s : str) : bool :=
  match s with [] => nullable r | c :: s' => dmatch (deriv c r) s' end.

(* ------------------------------------------------------------------ *)
(** * compiled routes; matching and submatch extraction, generic in the
      sub-expression type RE and its priority enumeration *)
Section Route.
  Variable RE : Type.
  Variable prio : RE -> str -> list nat.

  Inductive cpart := CLit (s : str) | CVar (name : str) (r : RE).

  Fixpoint strip_prefix (p s : str) : option str :=
    match p, s with
    | [], _ => Some s
    | c :: p', d :: s' => if c =? d then strip_prefix p' s' else None
    | _ :: _, [] => None
    end.

  Fixpoint first_some {A B} (f : A -> option B) (l : list A) : option B :=
    match l with
    | [] => None
    | x :: r => match f x with Some y => Some y | None => first_some f r end
    end.

  (* FindStringSubmatchIndex of ^ l0 (v0) l1 (v1) ... $ : the first complete
     match in priority order; result = the text of each group *)
  Fixpoint match_parts (ps : list cpart) (s : str) : option (list str) :=
    match ps with
    | [] => match s with [] => Some [] | _ => None end
    | CLit l :: rest =>
        match strip_prefix l s with Some s' => match_parts rest s' | None => None end
    | CVar _ r :: rest =>
        first_some (fun n => match match_parts rest (skipn n s) with
                             | Some vs => Some (firstn n s :: vs)
                             | None => None
                             end) (prio r s)
    end.

  Fixpoint var_names (ps : list cpart) : list str :=
    match ps with
    | [] => []
    | CLit _ :: r => var_names r
    | CVar n _ :: r => n :: var_names r
    end.
End Route.
Arguments CLit {RE}. Arguments CVar {RE}.
Arguments match_parts {RE}. Arguments var_names {RE}.

Inductive cres (A : Type) := COk (a : A) | CErr | CPanic.
Arguments COk {A}. Arguments CErr {A}. Arguments CPanic {A}.

(* regexp.Compile of every "^patt$" and of the whole expression (any failure
   is the returned error); captures = NumSubexp() - number of variables *)
Fixpoint compile_parts (ps : list part) : option (list (cpart re) * nat) :=
  match ps with
  | [] => Some ([], O)
  | Lit l :: r => match compile_parts r with
                  | Some (cs, n) => Some (CLit l :: cs, n)
                  | None => None
                  end
  | Var name patt :: r =>
      match parse_re patt with
      | None => None
      | Some (x, k) => match compile_parts r with
                       | Some (cs, n) => Some (CVar name x :: cs, (k + n)%nat)
                       | None => None
                       end
      end
  end.

Definition new_route_regexp (t : str) : cres (list (cpart re)) :=
  match parse_template t with
  | None => CErr
  | Some ps =>
      match compile_parts ps with
      | None => CErr
      | Some (cs, O) => COk cs
      | Some (_, S _) => CPanic      (* "route ... contains capture groups" *)
      end
  end.

Fixpoint route_re (ps : list (cpart re)) : re :=
  match ps with
  | [] => Eps
  | CLit l :: r => Cat (lit_re l) (route_re r)
  | CVar _ x :: r => Cat x (route_re r)
  end.

(* ------------------------------------------------------------------ *)
(** * mux/router.go *)

Record route := mkRoute { r_h : Z; r_pat : str; r_parts : list (cpart re) }.

(* pathMatch: regexp.MatchString *)
Definition path_match (r : route) (path : str) : bool := dmatch (route_re (r_parts r)) path.
(* extractRouteParams: FindStringSubmatchIndex + extractVars *)
Definition extract (r : route) (path : str) : option (list str) := match_parts ends (r_parts r) path.

Definition filter_path (p : str) : str := match p with [] => [47] | _ => p end.

(* message/options.go Options.Path over the run of Uri-Path options *)
Definition path_of (segs : list str) : str := flat_map (fun s => 47 :: s) segs.

(* the map z as an association list (Go's iteration order is unspecified: the
   scan below takes the order as an argument) *)
Record rstate := mkSt { st_routes : list (str * route); st_default : option Z }.

Fixpoint map_set (m : list (str * route)) (k : str) (v : route) : list (str * route) :=
  match m with
  | [] => [(k, v)]
  | (k', v') :: r => if str_eqb k' k then (k, v) :: r else (k', v') :: map_set r k v
  end.
Fixpoint map_has (m : list (str * route)) (k : str) : bool :=
  match m with [] => false | (k', _) :: r => str_eqb k' k || map_has r k end.
Fixpoint map_del (m : list (str * route)) (k : str) : list (str * route) :=
  match m with
  | [] => []
  | (k', v') :: r => if str_eqb k' k then map_del r k else (k', v') :: map_del r k
  end.

(* NewRouter: the built-in NotFound default handler is handler 0 *)
Definition init_state : rstate := mkSt [] (Some 0).

Inductive op := OHandle (pat : str) (h : option Z) | ORemove (pat : str) | ODefault (h : option Z).
Inductive opres := ResOk | ResErr | ResPanic.

(* each of these runs as ONE critical section under the write lock (the
   compilation in Handle happens before the lock is taken) *)
Definition apply_op (st : rstate) (o : op) : rstate * opres :=
  match o with
  | OHandle pat h =>
      let pat := filter_path pat in
      match h with
      | None => (st, ResErr)
      | Some h =>
          match new_route_regexp pat with
          | CErr => (st, ResErr)
          | CPanic => (st, ResPanic)
          | COk cs => (mkSt (map_set (st_routes st) pat (mkRoute h pat cs)) (st_default st), ResOk)
          end
      end
  | ORemove pat =>
      let pat := filter_path pat in
      if map_has (st_routes st) pat then (mkSt (map_del (st_routes st) pat) (st_default st), ResOk)
      else (st, ResErr)
  | ODefault h => (mkSt (st_routes st) h, ResOk)
  end.

Definition apply_ops (st : rstate) (os : list op) : rstate := fold_left (fun s o => fst (apply_op s o)) os st.

Definition is_none {A} (o : option A) : bool := match o with None => true | Some _ => false end.

(* the loop of Router.Match over the map in iteration order [order] *)
Fixpoint scan (order : list route) (path : str) (best : option route) (n : nat) : option route :=
  match order with
  | [] => best
  | r :: rest =>
      if path_match r path then
        if is_none best || (n <? length (r_pat r))%nat
        then scan rest path (Some r) (length (r_pat r))
        else scan rest path best n
      else scan rest path best n
  end.

Definition routes_of (st : rstate) : list route := map snd (st_routes st).

(* extractVars writes output[name] = submatch: a later variable of the same
   name overwrites an earlier one.  The map is represented by its bindings in
   order of first occurrence. *)
Fixpoint vmap_set (m : list (str * str)) (k v : str) : list (str * str) :=
  match m with
  | [] => [(k, v)]
  | (k', v') :: r => if str_eqb k' k then (k, v) :: r else (k', v') :: vmap_set r k v
  end.
Fixpoint vars_map (names vals : list str) (m : list (str * str)) : list (str * str) :=
  match names, vals with
  | n :: ns, v :: vs => vars_map ns vs (vmap_set m n v)
  | _, _ => m
  end.

(* what a dispatch makes observable *)
Inductive ev := MwIn (i : Z) | MwOut (i : Z) | Hd (h : Z).
(* RouteParams after the call: Path, PathTemplate, Vars *)
Definition rparams := option (str * str * list (str * str)).

(* middleware i is a function Handler -> Handler; the recording ones either call
   the wrapped handler (true) or answer themselves (false) *)
Fixpoint run_chain (mws : list (Z * bool)) (h : option Z) : list ev :=
  match mws with
  | [] => match h with Some k => [Hd k] | None => [] end
  | (i, true) :: r => MwIn i :: run_chain r h ++ [MwOut i]
  | (i, false) :: r => [MwIn i; MwOut i]
  end.

(* Router.Match after the scan *)
Definition match_result (sel : option route) (path : str) : rparams :=
  match sel with
  | None => None
  | Some r =>
      match extract r path with
      | Some vals => Some (path, r_pat r, vars_map (var_names (r_parts r)) vals [])
      | None => Some (path, r_pat r, [])        (* len(matches) == 0: Vars stays empty *)
      end
  end.

(* Router.ServeCOAP, given the default handler read in the first read-locked
   section and the route selected in the second *)
Definition finish_serve (mws : list (Z * bool)) (dflt : option Z) (sel : option route) (path : str)
  : list ev * rparams :=
  let h := match sel with Some r => Some (r_h r) | None => dflt end in
  (match h with None => [] | Some _ => run_chain mws h end, match_result sel path).

Definition serve (st : rstate) (mws : list (Z * bool)) (order : list route) (segs : list str)
  : list ev * rparams :=
  let path := filter_path (path_of segs) in
  finish_serve mws (st_default st) (scan order path None O) path.

(* ------------------------------------------------------------------ *)
(** * concurrency: threads of jobs; every step is one critical section *)

(* visit the map in the order given by a list of positions *)
Definition visit (order : list nat) (m : list (str * route)) : list route :=
  flat_map (fun i => match nth_error m i with Some kv => [snd kv] | None => [] end) order.

Inductive job := JOp (o : op) | JServe (segs : list str) (order : list nat).

(* a thread: the default handler read by a dispatch in progress, jobs left *)
Record thread := mkThread { t_local : option (option Z); t_jobs : list job }.

(* record written when a dispatch finishes its scan *)
Record drec := mkDrec {
  d_tid : nat; d_path : str;
  d_routes : list (str * route);   (* the map at the moment of the scan *)
  d_order : list nat;
  d_dflt : option Z;               (* default handler read in the first section *)
  d_sel : option route }.

Inductive lockmode := RLock | WLock.
(* which lock a step holds and whether it writes the guarded fields *)
Definition step_mode (t : thread) : option (lockmode * bool) :=
  match t_jobs t with
  | [] => None
  | JOp _ :: _ => Some (WLock, true)
  | JServe _ _ :: _ => Some (RLock, false)
  end.

Fixpoint set_nth {A} (l : list A) (i : nat) (x : A) : list A :=
  match l, i with
  | [], _ => []
  | _ :: r, O => x :: r
  | y :: r, S j => y :: set_nth r j x
  end.

Record config := mkCfg { c_st : rstate; c_threads : list thread; c_log : list drec }.

Definition cstep (c : config) (tid : nat) : config :=
  match nth_error (c_threads c) tid with
  | None => c
  | Some t =>
      match t_jobs t with
      | [] => c
      | JOp o :: js =>
          mkCfg (fst (apply_op (c_st c) o)) (set_nth (c_threads c) tid (mkThread (t_local t) js)) (c_log c)
      | JServe segs order :: js =>
          match t_local t with
          | None =>     (* RLock; defaultHandler := r.defaultHandler; RUnlock *)
              mkCfg (c_st c) (set_nth (c_threads c) tid (mkThread (Some (st_default (c_st c))) (t_jobs t))) (c_log c)
          | Some d =>   (* Match: RLock; scan; RUnlock *)
              let path := filter_path (path_of segs) in
              let sel := scan (visit order (st_routes (c_st c))) path None O in
              mkCfg (c_st c) (set_nth (c_threads c) tid (mkThread None js))
                    (c_log c ++ [mkDrec tid path (st_routes (c_st c)) order d sel])
          end
      end
  end.

Definition run_conc (c : config) (sched : list nat) : config := fold_left cstep sched c.

(* ------------------------------------------------------------------ *)
(** * histories: operations and complete dispatches interleaved on ONE router *)

(* Router.Match / Router.ServeCOAP only READ the router: besides the route map
   [z], [defaultHandler], [middlewares] and [errors] the Router has no field,
   and both sections of a dispatch hold the read lock only.  A completed
   dispatch therefore leaves the state unchanged, and the next one scans the
   map again -- there is no memory of earlier resolutions.  [order] is the
   iteration order of that scan (a parameter, as in [serve]). *)
Inductive hstep := HOp (o : op) | HServe (segs : list str) (order : list route).

Fixpoint run_hist (st : rstate) (mws : list (Z * bool)) (h : list hstep) : list (list ev * rparams) :=
  match h with
  | [] => []
  | HOp o :: r => run_hist (fst (apply_op st o)) mws r
  | HServe segs order :: r => serve st mws order segs :: run_hist st mws r
  end.

(* the operations of a history, and the number of its dispatches *)
Definition hops (h : list hstep) : list op :=
  flat_map (fun s => match s with HOp o => [o] | HServe _ _ => [] end) h.
Definition hserves (h : list hstep) : nat :=
  length (filter (fun s => match s with HOp _ => false | HServe _ _ => true end) h).

(* lookup in the route map *)
Fixpoint map_get (m : list (str * route)) (k : str) : option route :=
  match m with [] => None | (k', v) :: r => if str_eqb k' k then Some v else map_get r k end.

(* ------------------------------------------------------------------ *)
(** * RouteParams as the in/out argument of Router.Match; mux.ToHandler *)

(* Router.Match does not build a RouteParams, it WRITES INTO the one the caller
   hands in: "routeParams.Path = path; if routeParams.Vars == nil { Vars =
   make(map) }; routeParams.PathTemplate = matchedPattern; extractRouteParams"
   and extractVars assigns output[name] = submatch for the variables of the
   selected route only -- bindings already in the map stay.  When no route
   matches, Match returns before touching it.  [rp_vars = None] is the nil map. *)
Record rp := mkRp { rp_path : str; rp_tmpl : str; rp_vars : option (list (str * str)) }.

(* new(RouteParams) *)
Definition rp_new : rp := mkRp [] [] None.

Definition rp_map (p : rp) : list (str * str) := match rp_vars p with Some m => m | None => [] end.

Definition match_into (sel : option route) (path : str) (p0 : rp) : rp :=
  match sel with
  | None => p0
  | Some r =>
      mkRp path (r_pat r)
           (Some (match extract r path with
                  | Some vals => vars_map (var_names (r_parts r)) vals (rp_map p0)
                  | None => rp_map p0
                  end))
  end.

(* what a handler can read of its RouteParams (a nil and an empty Vars map are
   indistinguishable for a reader): nothing at all, or Path, PathTemplate, Vars *)
Definition rp_obs (p : rp) : rparams :=
  if is_nil (rp_map p) && is_nil (rp_tmpl p) && is_nil (rp_path p) then None
  else Some (rp_path p, rp_tmpl p, rp_map p).

(* Router.ServeCOAP on a request whose RouteParams is [p0] *)
Definition serve_into (st : rstate) (mws : list (Z * bool)) (order : list route) (segs : list str) (p0 : rp)
  : list ev * rp :=
  let path := filter_path (path_of segs) in
  let sel := scan order path None O in
  let h := match sel with Some r => Some (r_h r) | None => st_default st end in
  (match h with None => [] | Some _ => run_chain mws h end, match_into sel path p0).

(* mux.ToHandler (the adapter the udp/tcp/dtls servers call): every request gets
   "&Message{Message: r, RouteParams: new(RouteParams)}" *)
Definition to_handler (st : rstate) (mws : list (Z * bool)) (order : list route) (segs : list str)
  : list ev * rp := serve_into st mws order segs rp_new.

(* a history served through the adapter *)
Fixpoint run_adapter (st : rstate) (mws : list (Z * bool)) (h : list hstep) : list (list ev * rp) :=
  match h with
  | [] => []
  | HOp o :: r => run_adapter (fst (apply_op st o)) mws r
  | HServe segs order :: r => to_handler st mws order segs :: run_adapter st mws r
  end.

(* ONE *mux.Message -- hence one RouteParams object -- dispatched again and
   again (a router nested as handler of another router after a handler that
   rewrote the Uri-Path; glue code that recycles the mux.Message and only
   changes the options): every dispatch is handed the RouteParams the previous
   one left behind.  Router.ServeCOAP reads its path from the message's
   Uri-Path options AS THEY ARE NOW ("path, err := req.Options().Path()") --
   [serve_into] takes it from [segs], never from the RouteParams -- and Match
   writes into the RouteParams it is given. *)
Fixpoint run_reuse (st : rstate) (mws : list (Z * bool)) (h : list hstep) (p : rp) : list (list ev * rp) :=
  match h with
  | [] => []
  | HOp o :: r => run_reuse (fst (apply_op st o)) mws r p
  | HServe segs order :: r =>
      let out := serve_into st mws order segs p in
      out :: run_reuse st mws r (snd out)
  end.

(* the RouteParams handed to the dispatch that follows the history [h] *)
Fixpoint reuse_params (st : rstate) (mws : list (Z * bool)) (h : list hstep) (p : rp) : rp :=
  match h with
  | [] => p
  | HOp o :: r => reuse_params (fst (apply_op st o)) mws r p
  | HServe segs order :: r => reuse_params st mws r (snd (serve_into st mws order segs p))
  end.

(* ------------------------------------------------------------------ *)
(** * fine-grained locking: sync.RWMutex explicit, the scan one route at a time *)

(* [cstep] above executes a whole critical section as one step.  Here the lock
   is part of the state (number of readers, writer flag), taking it is a step
   that may be refused (the thread stays where it is: blocked), and the loop
   "for pattern, route := range r.z" of Router.Match is one step PER ROUTE, each
   reading the live map.  Between two of these steps any other thread may run. *)

Inductive fpc :=
| FIdle
(* inside Match, read lock held: path, default handler read earlier, positions
   still to visit, best route so far and its pattern length.  [order] (all
   positions) and [snap] (the map when the lock was taken) are ghost fields
   for the dispatch record, the code has no such variables *)
| FScan (path : str) (d : option Z) (order todo : list nat) (best : option route) (n : nat)
        (snap : list (str * route))
(* inside Handle / HandleRemove / DefaultHandle, write lock held *)
| FWrite (o : op).

Record fthread := mkF { f_pc : fpc; f_local : option (option Z); f_jobs : list job }.

Record fconfig := mkFC {
  fc_st : rstate; fc_readers : nat; fc_writer : bool;
  fc_threads : list fthread; fc_log : list drec; fc_results : list (nat * opres) }.

(* Handle returns before it takes the lock when the handler is nil or the
   pattern does not compile (error or panic) *)
Definition op_prelock (o : op) : option opres :=
  match o with
  | OHandle pat None => Some ResErr
  | OHandle pat (Some _) =>
      match new_route_regexp (filter_path pat) with
      | CErr => Some ResErr
      | CPanic => Some ResPanic
      | COk _ => None
      end
  | _ => None
  end.

(* the next step of thread [tid] needs the lock and cannot have it now *)
Definition fblocked (c : fconfig) (tid : nat) : bool :=
  match nth_error (fc_threads c) tid with
  | None => false
  | Some t =>
      match f_pc t, f_jobs t with
      | FIdle, JOp o :: _ =>
          match op_prelock o with
          | Some _ => false
          | None => negb (Nat.eqb (fc_readers c) 0) || fc_writer c    (* Lock *)
          end
      | FIdle, JServe _ _ :: _ => fc_writer c                          (* RLock *)
      | _, _ => false
      end
  end.

Definition fstep (c : fconfig) (tid : nat) : fconfig :=
  match nth_error (fc_threads c) tid with
  | None => c
  | Some t =>
      let upd := fun t' => set_nth (fc_threads c) tid t' in
      match f_pc t with
      | FWrite o =>      (* the assignment / delete, then Unlock *)
          let '(st', res) := apply_op (fc_st c) o in
          mkFC st' (fc_readers c) false (upd (mkF FIdle (f_local t) (f_jobs t))) (fc_log c)
               (fc_results c ++ [(tid, res)])
      | FScan path d order todo best n snap =>
          match todo with
          | i :: rest =>   (* one iteration of the range loop: reads r.z as it is NOW *)
              let pc' :=
                match nth_error (st_routes (fc_st c)) i with
                | Some kv =>
                    let r := snd kv in
                    if path_match r path then
                      if is_none best || (n <? length (r_pat r))%nat
                      then FScan path d order rest (Some r) (length (r_pat r)) snap
                      else FScan path d order rest best n snap
                    else FScan path d order rest best n snap
                | None => FScan path d order rest best n snap
                end in
              mkFC (fc_st c) (fc_readers c) (fc_writer c) (upd (mkF pc' (f_local t) (f_jobs t)))
                   (fc_log c) (fc_results c)
          | [] =>          (* RUnlock *)
              mkFC (fc_st c) (pred (fc_readers c)) (fc_writer c) (upd (mkF FIdle None (f_jobs t)))
                   (fc_log c ++ [mkDrec tid path snap order d best]) (fc_results c)
          end
      | FIdle =>
          match f_jobs t with
          | [] => c
          | JOp o :: js =>
              match op_prelock o with
              | Some res =>
                  mkFC (fc_st c) (fc_readers c) (fc_writer c) (upd (mkF FIdle (f_local t) js))
                       (fc_log c) (fc_results c ++ [(tid, res)])
              | None =>    (* Lock: only when nobody reads or writes *)
                  if Nat.eqb (fc_readers c) 0 && negb (fc_writer c)
                  then mkFC (fc_st c) (fc_readers c) true (upd (mkF (FWrite o) (f_local t) js))
                            (fc_log c) (fc_results c)
                  else c
              end
          | JServe segs order :: js =>
              if fc_writer c then c      (* RLock refused while a writer holds the lock *)
              else
                match f_local t with
                | None =>   (* RLock; defaultHandler := r.defaultHandler; RUnlock *)
                    mkFC (fc_st c) (fc_readers c) (fc_writer c)
                         (upd (mkF FIdle (Some (st_default (fc_st c))) (f_jobs t))) (fc_log c) (fc_results c)
                | Some d => (* RLock of Match *)
                    mkFC (fc_st c) (S (fc_readers c)) (fc_writer c)
                         (upd (mkF (FScan (filter_path (path_of segs)) d order order None O (st_routes (fc_st c)))
                                   (f_local t) js))
                         (fc_log c) (fc_results c)
                end
          end
      end
  end.

Definition frun (c : fconfig) (sched : list nat) : fconfig := fold_left fstep sched c.

Definition finit (st : rstate) (jobs : list (list job)) : fconfig :=
  mkFC st O false (map (fun js => mkF FIdle None js) jobs) [] [].

Definition is_scan (t : fthread) : bool := match f_pc t with FScan _ _ _ _ _ _ _ => true | _ => false end.
Definition is_write (t : fthread) : bool := match f_pc t with FWrite _ => true | _ => false end.
