(* Evaluators used by the correspondence shards of C17. A case carries the
   input and the output observed on the Go implementation (mux.Router). *)
From Coq Require Import ZArith NArith List Bool.
From GoCoap Require Import Base.Cases Base.Bytes Router.Model Router.Spec.
Import ListNotations.
Open Scope Z_scope.

(* result codes as the harness writes them: 0 = nil error, 1 = error, 2 = panic *)
Definition res_code (r : opres) : Z := match r with ResOk => 0 | ResErr => 1 | ResPanic => 2 end.

Definition req := (list str * list ev * rparams)%type.

(* one step of a history: an operation with its observed result code, or a
   request with the observed trace and RouteParams *)
Inductive hobs := HO (o : op) (code : Z) | HQ (q : req).

Inductive case :=
(* Router.Handle(pat, h) on a fresh router: result and, when it succeeded,
   Route.GetRouteRegexp() of the stored route *)
| Reg (pat : str) (o_res : Z) (o_src : str)
(* operations on a fresh router with their observed results, middlewares
   (id, calls next), then requests given by their Uri-Path options, each with
   the observed event trace and RouteParams after ServeCOAP returned *)
| Disp (ops : list (op * Z)) (mws : list (Z * bool)) (reqs : list req)
(* concurrent run: [stable] routes (pattern, handler) registered before and
   never touched, [pool] routes added/removed by mutator goroutines while
   dispatchers run, default handler switched between [d1] and [d2];
   observations of the dispatchers *)
| Conc (stable pool : list (str * Z)) (d1 d2 : Z) (obs : list req)
(* a HISTORY on one router: middlewares first, then operations (with their
   observed results) and requests (with their observations) interleaved in the
   order in which they were executed -- the same path is typically sent again
   after later operations *)
| Hist (mws : list (Z * bool)) (steps : list hobs)
(* a history like [Hist], but every request goes through the adapter
   mux.ToHandler(router) (the function the udp/tcp/dtls servers call), and the
   RouteParams are those the first middleware / the handler SAW when it was
   invoked (None: nothing to see -- no variables, empty Path and PathTemplate) *)
| Adapt (mws : list (Z * bool)) (steps : list hobs)
(* lock discipline, witnessed: operations [pre] on a fresh router, then ONE
   request [segs] whose scan visited the patterns [visited] in this order;
   [held]: at each visit, was the router's lock held (probe: TryLock fails);
   when the scan was about to look at its [k]-th route (0-based) another
   goroutine called operation [o]: [inside] = that call returned while the
   scanning goroutine was still parked at this visit (false = it was seen
   waiting for the lock), [code] its result; [q] what the request observed;
   [post] the same request once more after both have finished *)
| Excl (pre : list (op * Z)) (segs : list str) (visited : list str) (k : nat) (held : list bool)
       (o : op) (inside : bool) (code : Z) (q : req) (post : req)
(* the concurrent run ended with the Go runtime aborting the process
   (kind 1: "fatal error: concurrent map ...", 2: any other abnormal exit) *)
| ConcAbort (stable pool : list (str * Z)) (kind : Z)
(* a history like [Hist] in which every request is the SAME *mux.Message with
   the same RouteParams object: only its Uri-Path options are replaced between
   two dispatches.  [p0] is what the RouteParams held before the first dispatch
   (None: new(RouteParams); Some: what an outer router, whose handler rewrote
   the Uri-Path and called this router, had written).  Observed RouteParams =
   the object after ServeCOAP returned. *)
| Reuse (mws : list (Z * bool)) (p0 : rparams) (steps : list hobs).

(* ---- model side ---- *)

Fixpoint replay (st : rstate) (ops : list (op * Z)) : rstate * bool :=
  match ops with
  | [] => (st, true)
  | (o, code) :: r =>
      let '(st', res) := apply_op st o in
      let '(st'', ok) := replay st' r in
      (st'', (res_code res =? code) && ok)
  end.

(* Go's map iteration order is unspecified: the observed outcome must be the
   model's outcome for SOME order; the order that visits the observed pattern
   first decides that (Proofs.scan_exact) *)
Definition order_for (st : rstate) (p : rparams) : list route :=
  match p with
  | Some (_, tmpl, _) =>
      filter (fun r => str_eqb (r_pat r) tmpl) (routes_of st) ++
      filter (fun r => negb (str_eqb (r_pat r) tmpl)) (routes_of st)
  | None => routes_of st
  end.

Definition params_eqb (a b : rparams) : bool :=
  match a, b with
  | None, None => true
  | Some (p, t, v), Some (p', t', v') => str_eqb p p' && str_eqb t t' && vmap_eqb v v'
  | _, _ => false
  end.

Definition req_agrees (st : rstate) (mws : list (Z * bool)) (q : req) : bool :=
  let '(segs, trace, params) := q in
  let '(mt, mp) := serve st mws (order_for st params) segs in
  list_eqb ev_eqb mt trace && params_eqb mp params.

Definition model_route (pat : str) (h : Z) : option route :=
  match new_route_regexp (filter_path pat) with
  | COk cs => Some (mkRoute h (filter_path pat) cs)
  | _ => None
  end.
Definition model_routes (l : list (str * Z)) : list route :=
  flat_map (fun ph => match model_route (fst ph) (snd ph) with Some r => [r] | None => [] end) l.

(* a dispatch observed during concurrent mutation: the pattern is one that was
   ever registered, it matches, handler and parameters are that route's; at
   least as long as every matching stable route; default only when no stable
   route matches *)
Definition conc_agrees (stable pool : list route) (d1 d2 : Z) (q : req) : bool :=
  let '(segs, trace, params) := q in
  let path := filter_path (path_of segs) in
  match params with
  | Some (_, tmpl, _) =>
      match filter (fun r => str_eqb (r_pat r) tmpl) (stable ++ pool) with
      | [] => false
      | r :: _ =>
          path_match r path &&
          forallb (fun r' => negb (path_match r' path) || (length (r_pat r') <=? length (r_pat r))%nat) stable &&
          list_eqb ev_eqb trace [Hd (r_h r)] &&
          params_eqb (match_result (Some r) path) params
      end
  | None =>
      forallb (fun r' => negb (path_match r' path)) stable &&
      (list_eqb ev_eqb trace [Hd d1] || list_eqb ev_eqb trace [Hd d2])
  end.

(* history: every request is compared with the model's dispatch in the state
   reached by the operations before it (Model.run_hist: a dispatch leaves the
   state unchanged) *)
Fixpoint hist_agrees (st : rstate) (mws : list (Z * bool)) (steps : list hobs) : bool :=
  match steps with
  | [] => true
  | HO o code :: r =>
      let '(st', res) := apply_op st o in
      (res_code res =? code) && hist_agrees st' mws r
  | HQ q :: r => req_agrees st mws q && hist_agrees st mws r
  end.

(* through the adapter: the model's [to_handler] (a new RouteParams per request) *)
Fixpoint adapt_agrees (st : rstate) (mws : list (Z * bool)) (steps : list hobs) : bool :=
  match steps with
  | [] => true
  | HO o code :: r =>
      let '(st', res) := apply_op st o in
      (res_code res =? code) && adapt_agrees st' mws r
  | HQ (segs, trace, params) :: r =>
      let '(mt, mp) := to_handler st mws (order_for st params) segs in
      list_eqb ev_eqb mt trace && params_eqb (rp_obs mp) params && adapt_agrees st mws r
  end.

(* one RouteParams object through the whole history: each dispatch is handed
   what the previous one left (the observed object), Model.serve_into *)
Definition rp_of (p : rparams) : rp :=
  match p with None => rp_new | Some (pa, t, v) => mkRp pa t (Some v) end.
Fixpoint reuse_agrees (st : rstate) (mws : list (Z * bool)) (p : rp) (steps : list hobs) : bool :=
  match steps with
  | [] => true
  | HO o code :: r =>
      let '(st', res) := apply_op st o in
      (res_code res =? code) && reuse_agrees st' mws p r
  | HQ (segs, trace, params) :: r =>
      let '(mt, mp) := serve_into st mws (order_for st params) segs p in
      list_eqb ev_eqb mt trace && params_eqb (rp_obs mp) params && reuse_agrees st mws (rp_of params) r
  end.

(* position of a pattern in the route map *)
Fixpoint pos_of (m : list (str * route)) (pat : str) (i : nat) : list nat :=
  match m with
  | [] => []
  | (k, _) :: r => if str_eqb k pat then [i] else pos_of r pat (S i)
  end.

(* the fine-grained model on the observed scenario: thread 0 dispatches [segs]
   visiting the map in the observed order, thread 1 performs [o]; thread 0 runs
   up to its k-th visit, thread 1 tries, thread 0 finishes, thread 1 finishes *)
Definition excl_run (st : rstate) (segs : list str) (order : list nat) (k : nat) (o : op) : fconfig * fconfig :=
  let c0 := finit st [[JServe segs order]; [JOp o]] in
  let c1 := frun c0 ([0; 0] ++ repeat 0 k)%nat in
  (c1, frun c1 ([1] ++ repeat 0 (length order + 2) ++ [1; 1])%nat).

Definition excl_agrees (pre : list (op * Z)) (segs : list str) (visited : list str) (k : nat)
           (held : list bool) (o : op) (inside : bool) (code : Z) (q : req) (post : req) : bool :=
  let '(st, ok) := replay init_state pre in
  let order := flat_map (fun p => pos_of (st_routes st) p O) visited in
  let '(c1, c2) := excl_run st segs order k o in
  ok &&
  (* the scan visited every route of the map exactly once *)
  (length order =? length visited)%nat && (length order =? length (st_routes st))%nat &&
  forallb (fun i => existsb (Nat.eqb i) order) (seq 0 (length (st_routes st))) &&
  (k <? length order)%nat &&
  (* the lock is held at every visit; the operation waits iff the model says it is blocked *)
  (length held =? length order)%nat && forallb (fun b : bool => b) held &&
  Bool.eqb inside (negb (fblocked c1 1)) &&
  match fc_log c2, fc_results c2 with
  | [d], [(_, res)] =>
      let '(_, trace, params) := q in
      let '(mt, mp) := finish_serve [] (d_dflt d) (d_sel d) (d_path d) in
      list_eqb ev_eqb mt trace && params_eqb mp params && (res_code res =? code) &&
      req_agrees (fc_st c2) [] post
  | _, _ => false
  end.

Definition agrees (c : case) : bool :=
  match c with
  | Adapt mws steps => adapt_agrees init_state mws steps
  | Excl pre segs visited k held o inside code q post => excl_agrees pre segs visited k held o inside code q post
  | ConcAbort _ _ _ => false
  | Reg pat code src =>
      let '(st, res) := apply_op init_state (OHandle pat (Some 1)) in
      (res_code res =? code) &&
      match res with
      | ResOk => match parse_template (filter_path pat) with
                 | Some ps => str_eqb (regexp_src ps) src
                 | None => false
                 end
      | _ => true
      end
  | Disp ops mws reqs =>
      let '(st, ok) := replay init_state ops in
      ok && forallb (req_agrees st mws) reqs
  | Conc stable pool d1 d2 obs =>
      (length (model_routes stable) =? length stable)%nat &&
      (length (model_routes pool) =? length pool)%nat &&
      forallb (conc_agrees (model_routes stable) (model_routes pool) d1 d2) obs
  | Hist mws steps => hist_agrees init_state mws steps
  | Reuse mws p0 steps => reuse_agrees init_state mws (rp_of p0) steps
  end.

(* ---- property side: evaluated on the OBSERVED results only ---- *)

Definition spec_route (pat : str) (h : Z) : option sroute :=
  match new_route_regexp (filter_path pat) with
  | COk cs => Some (mkS (filter_path pat) h cs)
  | _ => None
  end.
Definition sregs_del (regs : list sroute) (pat : str) : list sroute :=
  filter (fun r => negb (str_eqb (s_pat r) pat)) regs.

(* the registered set and default handler according to the observed results *)
Fixpoint spec_replay (regs : list sroute) (d : option Z) (ops : list (op * Z)) : list sroute * option Z :=
  match ops with
  | [] => (regs, d)
  | (o, code) :: r =>
      if code =? 0 then
        match o with
        | OHandle pat (Some h) =>
            match spec_route pat h with
            | Some s => spec_replay (sregs_del regs (filter_path pat) ++ [s]) d r
            | None => spec_replay regs d r
            end
        | OHandle _ None => spec_replay regs d r
        | ORemove pat => spec_replay (sregs_del regs (filter_path pat)) d r
        | ODefault h => spec_replay regs h r
        end
      else spec_replay regs d r
  end.

Fixpoint first_class (l : list N) : N :=
  match l with [] => 0%N | c :: r => if N.eqb c 0 then first_class r else c end.

Definition spec_routes (l : list (str * Z)) : list sroute :=
  flat_map (fun ph => match spec_route (fst ph) (snd ph) with Some r => [r] | None => [] end) l.

(* classes 1..7 as in Spec.dispatch_class; 8 = concurrent dispatch to a pattern
   that does not match / was never registered, 9 = concurrent dispatch missed a
   stable route, 10 = wrong variables or handler in a concurrent dispatch *)
Definition conc_class (stable pool : list sroute) (d1 d2 : Z) (q : req) : N :=
  let '(segs, trace, params) := q in
  let path := filter_path (path_of segs) in
  match params with
  | Some (p, tmpl, vars) =>
      match filter (fun r => str_eqb (s_pat r) tmpl) (stable ++ pool) with
      | [] => 8%N
      | r :: _ =>
          if negb (spec_matches (s_parts r) path) then 8%N
          else if existsb (fun r' => spec_matches (s_parts r') path && (length (s_pat r) <? length (s_pat r'))%nat) stable then 9%N
          else if str_eqb p path && vars_ok r path vars && list_eqb ev_eqb trace [Hd (s_h r)] then 0%N
          else 10%N
      end
  | None =>
      if existsb (fun r' => spec_matches (s_parts r') path) stable then 9%N
      else if list_eqb ev_eqb trace [Hd d1] || list_eqb ev_eqb trace [Hd d2] then 0%N else 10%N
  end.

(* history: each request is judged against the set registered AT THAT MOMENT
   according to the observed results of the operations before it; first failure *)
Fixpoint hist_class (regs : list sroute) (d : option Z) (mws : list (Z * bool)) (steps : list hobs) : N :=
  match steps with
  | [] => 0%N
  | HO o code :: r => let '(regs', d') := spec_replay regs d [(o, code)] in hist_class regs' d' mws r
  | HQ (segs, trace, params) :: r =>
      let c := dispatch_class regs d mws (filter_path (path_of segs)) trace params in
      if N.eqb c 0 then hist_class regs d mws r else c
  end.

Fixpoint adapt_hist_class (regs : list sroute) (d : option Z) (mws : list (Z * bool)) (steps : list hobs) : N :=
  match steps with
  | [] => 0%N
  | HO o code :: r => let '(regs', d') := spec_replay regs d [(o, code)] in adapt_hist_class regs' d' mws r
  | HQ (segs, trace, params) :: r =>
      let c := adapt_class regs d mws (filter_path (path_of segs)) trace params in
      if N.eqb c 0 then adapt_hist_class regs d mws r else c
  end.

Fixpoint reuse_hist_class (regs : list sroute) (d : option Z) (mws : list (Z * bool)) (steps : list hobs) : N :=
  match steps with
  | [] => 0%N
  | HO o code :: r => let '(regs', d') := spec_replay regs d [(o, code)] in reuse_hist_class regs' d' mws r
  | HQ (segs, trace, params) :: r =>
      let c := reuse_class regs d mws (filter_path (path_of segs)) trace params in
      if N.eqb c 0 then reuse_hist_class regs d mws r else c
  end.

Definition req_class (regs : list sroute) (d : option Z) (q : req) : N :=
  let '(segs, trace, params) := q in dispatch_class regs d [] (filter_path (path_of segs)) trace params.

Definition pclass (c : case) : N :=
  match c with
  | Adapt mws steps => adapt_hist_class [] (Some 0) mws steps
  | Excl pre segs visited k held o inside code q post =>
      let '(regs, d) := spec_replay [] (Some 0) pre in
      let '(regs', d') := spec_replay regs d [(o, code)] in
      first_class [excl_class held (inside && (code =? 0)); req_class regs d q; req_class regs' d' post]
  | ConcAbort _ _ _ => 13%N
  | Reg _ _ _ => 0%N
  | Disp ops mws reqs =>
      let '(regs, d) := spec_replay [] (Some 0) ops in
      first_class (map (fun q : req => let '(segs, trace, params) := q in
                          dispatch_class regs d mws (filter_path (path_of segs)) trace params) reqs)
  | Conc stable pool d1 d2 obs =>
      first_class (map (conc_class (spec_routes stable) (spec_routes pool) d1 d2) obs)
  | Hist mws steps => hist_class [] (Some 0) mws steps
  | Reuse mws _ steps => reuse_hist_class [] (Some 0) mws steps
  end.

Definition mismatches (cs : list case) : list N := bad_indices (fun c => negb (agrees c)) cs.
Definition property_failures (cs : list case) : list (N * N) := classes pclass cs.
