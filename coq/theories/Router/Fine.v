(* C17 -- proofs about the two later parts of Router/Model.v:
   (1) RouteParams as the in/out argument of Router.Match and the mux.ToHandler
       adapter (a fresh RouteParams per request);
   (2) the fine-grained lock model (sync.RWMutex explicit, the scan of
       Router.Match one route per step). *)
From Coq Require Import ZArith NArith List Bool Lia Permutation.
From GoCoap Require Import Base.Bytes Router.Model Router.Spec Router.Proofs.
Import ListNotations.
Open Scope Z_scope.

(* ------------------------------------------------------------------ *)
(** * RouteParams through mux.ToHandler *)

Lemma filter_path_nonnil p : is_nil (filter_path p) = false.
Proof. destruct p; reflexivity. Qed.

(* Match on a NEW RouteParams leaves exactly [match_result] *)
Lemma match_into_new sel path : is_nil path = false ->
  rp_obs (match_into sel path rp_new) = match_result sel path.
Proof.
  intros Hp. destruct sel as [r|]; cbn [match_into match_result]; [|reflexivity].
  unfold rp_obs. cbn [rp_vars rp_tmpl rp_path rp_map]. rewrite Hp, !andb_false_r.
  unfold rp_map, rp_new. cbn [rp_vars]. destruct (extract r path); reflexivity.
Qed.

Definition aobs (o : list ev * rp) : list ev * rparams := (fst o, rp_obs (snd o)).

Theorem to_handler_serve st mws order segs :
  aobs (to_handler st mws order segs) = serve st mws order segs.
Proof.
  unfold aobs, to_handler, serve_into, serve, finish_serve. cbn [fst snd].
  rewrite match_into_new by apply filter_path_nonnil. reflexivity.
Qed.

Lemma run_adapter_app mws : forall a b st,
  run_adapter st mws (a ++ b) = run_adapter st mws a ++ run_adapter (apply_ops st (hops a)) mws b.
Proof.
  induction a as [|s a IH]; intros b st; [reflexivity|].
  destruct s as [o|segs order]; cbn [app run_adapter].
  - rewrite IH. reflexivity.
  - rewrite IH. reflexivity.
Qed.

Lemma run_adapter_length mws : forall h st, length (run_adapter st mws h) = hserves h.
Proof.
  induction h as [|s h IH]; intros st; [reflexivity|].
  destruct s as [o|segs order]; cbn [run_adapter]; unfold hserves in *; cbn [filter length]; now rewrite IH.
Qed.

(* what the handlers of a history served through the adapter see is what the
   history served directly (run_hist) produces *)
Theorem run_adapter_hist mws : forall h st, map aobs (run_adapter st mws h) = run_hist st mws h.
Proof.
  induction h as [|s h IH]; intros st; [reflexivity|].
  destruct s as [o|segs order]; cbn [run_adapter run_hist map]; [apply IH|].
  rewrite IH. f_equal. apply to_handler_serve.
Qed.

(* the k-th request of ANY history through the adapter: trace and RouteParams
   are those of a dispatch with a new RouteParams on a router on which only the
   operations before it were performed -- whatever was served before, and
   whatever variables those requests had -- and satisfy the property predicate *)
Theorem adapter_dispatch st0 mws pre segs order post : wf st0 ->
  let st := apply_ops st0 (hops pre) in
  let out := to_handler st mws order segs in
  nth_error (run_adapter st0 mws (pre ++ HServe segs order :: post)) (hserves pre) = Some out /\
  aobs out = serve st mws order segs /\
  (Permutation order (routes_of st) ->
   dispatch_class (sregs_of st) (st_default st) mws (filter_path (path_of segs))
     (fst out) (rp_obs (snd out)) = 0%N).
Proof.
  intros Hwf st out. split; [|split].
  - rewrite run_adapter_app. cbn [run_adapter]. fold st. fold out.
    rewrite nth_error_app2 by (rewrite run_adapter_length; lia).
    rewrite run_adapter_length, Nat.sub_diag. reflexivity.
  - apply to_handler_serve.
  - intros Hp. pose proof (to_handler_serve st mws order segs) as E. fold out in E.
    unfold aobs in E.
    pose proof (dispatch_spec st mws order segs) as D.
    rewrite <- E in D. cbn [fst snd] in D. apply D; [|exact Hp].
    unfold st. now apply apply_ops_wf.
Qed.

(* why the RouteParams has to be a new one: Match keeps every binding whose
   name is not a variable of the selected route *)
Lemma last_binding_notin : forall ns vs k acc, ~ In k ns -> last_binding ns vs k acc = acc.
Proof.
  induction ns as [|n ns IH]; intros vs k acc Hn; cbn [last_binding]; [reflexivity|].
  destruct vs as [|v vs]; [reflexivity|].
  rewrite IH by (intros H; apply Hn; now right).
  destruct (str_eqb n k) eqn:E; [|reflexivity].
  apply str_eqb_eq in E. exfalso. apply Hn. now left.
Qed.

Theorem recycled_params_keep r path p0 k :
  ~ In k (var_names (r_parts r)) ->
  vlookup (rp_map (match_into (Some r) path p0)) k = vlookup (rp_map p0) k.
Proof.
  intros Hn. cbn [match_into]. unfold rp_map at 1. cbn [rp_vars].
  destruct (extract r path) as [vals|]; [|reflexivity].
  rewrite vars_map_lookup. now apply last_binding_notin.
Qed.

(* ------------------------------------------------------------------ *)
(** * one RouteParams object dispatched again and again (recycled message, nested routers) *)

(* which handler runs (the whole trace) does not depend on the RouteParams the
   request carries: ServeCOAP takes the path from the Uri-Path options *)
Lemma serve_into_trace st mws order segs p0 :
  fst (serve_into st mws order segs p0) = fst (serve st mws order segs).
Proof. reflexivity. Qed.

Lemma serve_into_params st mws order segs p0 :
  let path := filter_path (path_of segs) in
  snd (serve_into st mws order segs p0) = match_into (scan order path None O) path p0.
Proof. reflexivity. Qed.

Lemma last_binding_acc : forall ns vs k acc,
  last_binding ns vs k acc =
  match last_binding ns vs k None with Some v => Some v | None => acc end.
Proof.
  induction ns as [|n ns IH]; intros vs k acc; cbn [last_binding]; [reflexivity|].
  destruct vs as [|v vs]; [reflexivity|].
  destruct (str_eqb n k); [|apply IH].
  rewrite (IH vs k (Some v)). destruct (last_binding ns vs k None); reflexivity.
Qed.

(* Match on a used RouteParams: Path and PathTemplate are overwritten, every
   variable of the selected route gets the value it gets in a NEW RouteParams,
   every other name keeps what the object held *)
Theorem reused_params r path p0 :
  rp_path (match_into (Some r) path p0) = path /\
  rp_tmpl (match_into (Some r) path p0) = r_pat r /\
  forall k, vlookup (rp_map (match_into (Some r) path p0)) k =
            match vlookup (rp_map (match_into (Some r) path rp_new)) k with
            | Some v => Some v
            | None => vlookup (rp_map p0) k
            end.
Proof.
  split; [reflexivity|]. split; [reflexivity|]. intros k.
  cbn [match_into]. unfold rp_map, rp_new. cbn [rp_vars].
  destruct (extract r path) as [vals|].
  - rewrite !vars_map_lookup. cbn [vlookup]. apply last_binding_acc.
  - reflexivity.
Qed.

Lemma run_reuse_app mws : forall a b st p,
  run_reuse st mws (a ++ b) p =
  run_reuse st mws a p ++ run_reuse (apply_ops st (hops a)) mws b (reuse_params st mws a p).
Proof.
  induction a as [|s a IH]; intros b st p; [reflexivity|].
  destruct s as [o|segs order]; cbn [app run_reuse reuse_params].
  - rewrite IH. reflexivity.
  - rewrite IH. reflexivity.
Qed.

Lemma run_reuse_length mws : forall h st p, length (run_reuse st mws h p) = hserves h.
Proof.
  induction h as [|s h IH]; intros st p; [reflexivity|].
  destruct s as [o|segs order]; cbn [run_reuse]; unfold hserves in *; cbn [filter length]; now rewrite IH.
Qed.

(* the k-th dispatch of ANY history in which one RouteParams object is handed
   from dispatch to dispatch, starting from ANY content [p0] (new, or what an
   outer router wrote): the handler trace is that of a dispatch with a new
   RouteParams on a router on which only the operations before it were
   performed -- so the property predicate holds for it with the RouteParams of
   that dispatch --, and the object afterwards is [match_into] of the selected
   route for the CURRENT path applied to what the object held *)
Theorem reuse_dispatch st0 mws pre segs order post p0 : wf st0 ->
  let st := apply_ops st0 (hops pre) in
  let p := reuse_params st0 mws pre p0 in
  let path := filter_path (path_of segs) in
  let out := serve_into st mws order segs p in
  nth_error (run_reuse st0 mws (pre ++ HServe segs order :: post) p0) (hserves pre) = Some out /\
  fst out = fst (serve st mws order segs) /\
  snd out = match_into (scan order path None O) path p /\
  (Permutation order (routes_of st) ->
   dispatch_class (sregs_of st) (st_default st) mws path
     (fst out) (snd (serve st mws order segs)) = 0%N).
Proof.
  intros Hwf st p path out. split; [|split; [|split]].
  - rewrite run_reuse_app. cbn [run_reuse]. fold st. fold p. fold out.
    rewrite nth_error_app2 by (rewrite run_reuse_length; lia).
    rewrite run_reuse_length, Nat.sub_diag. reflexivity.
  - reflexivity.
  - reflexivity.
  - intros Hp. change (fst out) with (fst (serve st mws order segs)).
    apply dispatch_spec; [|exact Hp]. unfold st. now apply apply_ops_wf.
Qed.

Lemma filter_andb {A} (f g : A -> bool) l : filter (fun x => f x && g x) l = filter g (filter f l).
Proof.
  induction l as [|a l IH]; [reflexivity|]. cbn [filter].
  destruct (f a); cbn [andb filter]; [destruct (g a)|]; now rewrite IH.
Qed.

Lemma nodup_fst_filter {A B} (f : A * B -> bool) l : NoDup (map fst l) -> NoDup (map fst (filter f l)).
Proof.
  induction l as [|a l IH]; intros H; [constructor|]. cbn [map] in H.
  inversion H as [|? ? Hni Hnd]; subst. cbn [filter]. destruct (f a); [|now apply IH].
  cbn [map]. constructor; [|now apply IH]. intros Hin. apply Hni.
  apply in_map_iff in Hin as (x & Ex & Hx). apply filter_In in Hx as [Hx _].
  apply in_map_iff. exists x. now split.
Qed.

Lemma last_binding_in : forall ns vs k, length ns = length vs -> In k ns ->
  exists v, last_binding ns vs k None = Some v.
Proof.
  induction ns as [|n ns IH]; intros vs k Hl Hin; [destruct Hin|].
  destruct vs as [|v vs]; [discriminate|]. cbn [last_binding]. cbn in Hl.
  destruct (str_eqb n k) eqn:E.
  - rewrite last_binding_acc. destruct (last_binding ns vs k None) as [v'|]; eauto.
  - apply IH; [lia|]. destruct Hin as [->|Hin]; [|exact Hin].
    rewrite str_eqb_refl in E. discriminate.
Qed.

Lemma restrict_is_map names vals m0 : length names = length vals -> NoDup (map fst m0) ->
  is_map_of names vals (restrict_vars names (vars_map names vals m0)) = true.
Proof.
  intros Hl Hnd0.
  assert (HndM : NoDup (map fst (vars_map names vals m0))) by (now apply vars_map_nodup).
  unfold is_map_of. rewrite nodup_fix_eq. rewrite !andb_true_iff. split; [split|].
  - apply forallb_forall. intros [k v] Hin. cbn [fst snd].
    apply filter_In in Hin as [Hin Hk]. cbn [fst] in Hk.
    apply existsb_exists in Hk as (n & Hn & En). apply str_eqb_eq in En. subst n.
    pose proof (vlookup_in _ _ _ HndM Hin) as E. rewrite vars_map_lookup, last_binding_acc in E.
    destruct (last_binding_in names vals k Hl Hn) as (v' & Ev). rewrite Ev in E |- *.
    injection E as ->. apply str_eqb_refl.
  - apply forallb_forall. intros n Hn. apply existsb_exists.
    assert (Hk : In n (map fst (vars_map names vals m0))) by (apply vars_map_keys; auto).
    apply in_map_iff in Hk as (kv & Ek & Hkv). exists kv. split; [|rewrite Ek; apply str_eqb_refl].
    apply filter_In. split; [exact Hkv|]. apply existsb_exists. exists n. split; [exact Hn|].
    rewrite Ek. apply str_eqb_refl.
  - apply keys_distinct_nodup. unfold restrict_vars. now apply nodup_fst_filter.
Qed.

(* the predicate for used RouteParams objects holds on the model's output:
   every reachable router, every middleware list, every iteration order, every
   request, every content of the object handed in (a Go map: no key twice);
   handler identities as the harness uses them: the default handler is not also
   the handler of a route *)
Theorem reuse_spec st mws order segs p0 : wf st -> Permutation order (routes_of st) ->
  NoDup (map fst (rp_map p0)) ->
  (forall r d, In r (routes_of st) -> st_default st = Some d -> r_h r <> d) ->
  let path := filter_path (path_of segs) in
  let out := serve_into st mws order segs p0 in
  reuse_class (sregs_of st) (st_default st) mws path (fst out) (rp_obs (snd out)) = 0%N.
Proof.
  intros Hwf Hp Hnd0 Hids path out. unfold out, serve_into. fold path.
  destruct (scan order path None O) as [r|] eqn:E; cbn [fst snd].
  - assert (Hmax : maximal_match (routes_of st) path r) by (apply scan_exact; eauto).
    destruct Hmax as (Hin & Hm & Hmax).
    destruct (match_result_vars r path Hm) as (vals & Hex & Hd & Hlen & _).
    unfold reuse_class. rewrite run_chain_spec.
    destruct (snd (passing_prefix mws)) eqn:Epass; cbn [negb].
    2:{ rewrite (spec_trace_block mws (Some (r_h r))) by assumption. now rewrite trace_eqb_refl. }
    rewrite spec_trace_pass by assumption.
    assert (Hnn : is_nil path = false) by apply filter_path_nonnil.
    unfold rp_obs. cbn [match_into rp_path rp_tmpl]. rewrite Hnn, !andb_false_r. rewrite Hex.
    match goal with |- context [rp_map (mkRp ?a ?b (Some ?m))] => change (rp_map (mkRp a b (Some m))) with m end.
    rewrite filter_andb. unfold sregs_of. rewrite (filter_unique r _ (wf_pats st Hwf) Hin).
    cbn [filter]. change (s_h (sroute_of r)) with (r_h r). rewrite Z.eqb_refl.
    unfold dispatch_class. rewrite (filter_unique r _ (wf_pats st Hwf) Hin).
    change (s_parts (sroute_of r)) with (r_parts r). change (s_pat (sroute_of r)) with (r_pat r).
    change (s_h (sroute_of r)) with (r_h r).
    rewrite spec_matches_iff, Hm. cbn [negb].
    match goal with |- context [existsb ?f ?l] => destruct (existsb f l) eqn:Eex end.
    { exfalso. apply existsb_exists in Eex as (x & Hx & Hlt). apply filter_In in Hx as [Hx Hsm].
      apply in_map_iff in Hx as (r' & <- & Hr'). change (s_parts (sroute_of r')) with (r_parts r') in Hsm.
      rewrite spec_matches_iff in Hsm. change (s_pat (sroute_of r')) with (r_pat r') in Hlt.
      apply Nat.ltb_lt in Hlt. specialize (Hmax r' Hr' Hsm). lia. }
    rewrite str_eqb_refl. cbn [andb].
    assert (Hv : vars_ok (sroute_of r) path
                   (restrict_vars (var_names (r_parts r)) (vars_map (var_names (r_parts r)) vals (rp_map p0))) = true).
    { unfold vars_ok. apply existsb_exists. exists vals. split; [now apply decomps_spec|].
      apply restrict_is_map; [now symmetry|exact Hnd0]. }
    rewrite Hv. cbn [negb]. rewrite Epass. rewrite spec_trace_pass by assumption.
    rewrite Z.eqb_refl. cbn [negb]. now rewrite trace_eqb_refl.
  - assert (Hno : forall r, In r (routes_of st) -> path_match r path = false).
    { intros r Hin. eapply scan_none; [exact E|]. eapply Permutation_in; [symmetry|]; eauto. }
    assert (Hf : filter (fun r => spec_matches (s_parts r) path) (sregs_of st) = []).
    { unfold sregs_of. now apply filter_nomatch. }
    cbn [match_into]. unfold reuse_class.
    destruct (snd (passing_prefix mws)) eqn:Epass; cbn [negb].
    2:{ destruct (st_default st) as [d|].
        - rewrite run_chain_spec, (spec_trace_block mws (Some d)) by assumption. now rewrite trace_eqb_refl.
        - rewrite Hf. cbn [is_nil andb]. now destruct (list_eqb ev_eqb [] (spec_trace mws None)). }
    assert (Hrouted :
      match rp_obs p0, handlers_of (match st_default st with Some _ => run_chain mws (st_default st) | None => [] end) with
      | Some (p, tmpl, vars), [h] =>
          match filter (fun r => str_eqb (s_pat r) tmpl && (s_h r =? h)) (sregs_of st) with
          | r :: _ => Some (p, tmpl, restrict_vars (var_names (s_parts r)) vars)
          | [] => None
          end
      | _, _ => None
      end = None).
    { destruct (rp_obs p0) as [[[p tmpl] vars]|]; [|reflexivity].
      destruct (st_default st) as [d|] eqn:Ed; [|reflexivity].
      rewrite run_chain_spec, spec_trace_pass by assumption.
      destruct (filter (fun r : sroute => str_eqb (s_pat r) tmpl && (s_h r =? d)) (sregs_of st)) as [|x l] eqn:Ef; [reflexivity|]. exfalso.
      assert (Hx : In x (x :: l)) by now left. rewrite <- Ef in Hx.
      apply filter_In in Hx as [Hx Hc]. apply andb_true_iff in Hc as [_ Hh]. apply Z.eqb_eq in Hh.
      unfold sregs_of in Hx. apply in_map_iff in Hx as (r' & <- & Hr').
      change (s_h (sroute_of r')) with (r_h r') in Hh. exact (Hids r' d Hr' eq_refl Hh). }
    rewrite Hrouted.
    pose proof (dispatch_spec st mws order segs Hwf Hp) as D. cbn zeta in D. unfold serve in D. fold path in D.
    rewrite E in D. cbn [finish_serve fst snd match_result] in D. exact D.
Qed.

(* ------------------------------------------------------------------ *)
(** * fine-grained locking *)

Definition count {A} (f : A -> bool) (l : list A) : nat := length (filter f l).

Lemma count_set_nth {A} (f : A -> bool) : forall (l : list A) i x y, nth_error l i = Some y ->
  (count f (set_nth l i x) + (if f y then 1 else 0) = count f l + (if f x then 1 else 0))%nat.
Proof.
  induction l as [|z l IH]; intros i x y E; destruct i as [|i]; cbn in E; try discriminate.
  - injection E as ->. unfold count. cbn [set_nth filter]. destruct (f x), (f y); cbn [length]; lia.
  - unfold count in *. cbn [set_nth filter]. specialize (IH i x y E). destruct (f z); cbn [length]; lia.
Qed.

Lemma count_same {A} (f : A -> bool) l i x y : nth_error l i = Some y -> f y = f x ->
  count f (set_nth l i x) = count f l.
Proof. intros E H. pose proof (count_set_nth f l i x y E) as C. rewrite H in C. destruct (f x); lia. Qed.
Lemma count_inc {A} (f : A -> bool) l i x y : nth_error l i = Some y -> f y = false -> f x = true ->
  count f (set_nth l i x) = S (count f l).
Proof. intros E H1 H2. pose proof (count_set_nth f l i x y E) as C. rewrite H1, H2 in C. lia. Qed.
Lemma count_dec {A} (f : A -> bool) l i x y : nth_error l i = Some y -> f y = true -> f x = false ->
  S (count f (set_nth l i x)) = count f l.
Proof. intros E H1 H2. pose proof (count_set_nth f l i x y E) as C. rewrite H1, H2 in C. lia. Qed.

Lemma count_zero {A} (f : A -> bool) : forall l, count f l = 0%nat -> forall x, In x l -> f x = false.
Proof.
  unfold count. induction l as [|a l IH]; intros H x Hin; [destruct Hin|].
  cbn [filter] in H. destruct (f a) eqn:E; [discriminate|].
  destruct Hin as [<-|Hin]; [exact E|now apply IH].
Qed.
Lemma count_pos {A} (f : A -> bool) : forall l x, In x l -> f x = true -> (1 <= count f l)%nat.
Proof.
  unfold count. induction l as [|a l IH]; intros x Hin Hx; [destruct Hin|].
  cbn [filter]. destruct Hin as [->|Hin].
  - rewrite Hx. cbn [length]. lia.
  - specialize (IH x Hin Hx). destruct (f a); cbn [length]; lia.
Qed.

Lemma Forall_set_nth {A} (P : A -> Prop) : forall l i x, Forall P l -> P x -> Forall P (set_nth l i x).
Proof.
  induction l as [|a l IH]; intros i x H Hx; [destruct i; constructor|].
  inversion H as [|? ? Ha Hl]; subst. destruct i as [|i]; cbn [set_nth]; constructor; auto.
Qed.
Lemma Forall_nth {A} (P : A -> Prop) l i (y : A) : Forall P l -> nth_error l i = Some y -> P y.
Proof. intros H E. rewrite Forall_forall in H. apply H. eapply nth_error_In; eauto. Qed.

(* a scanning thread: the map has not changed since it took the read lock, and
   what is left of the scan leads to the result of scanning that map in the
   thread's whole iteration order *)
Definition scan_ok (st : rstate) (t : fthread) : Prop :=
  match f_pc t with
  | FScan path d order todo best n snap =>
      snap = st_routes st /\ scan (visit todo snap) path best n = scan (visit order snap) path None O
  | _ => True
  end.
Definition drec_scan (d : drec) : Prop :=
  d_sel d = scan (visit (d_order d) (d_routes d)) (d_path d) None O.

Record finv (c : fconfig) : Prop := mkFinv {
  fi_readers : fc_readers c = count is_scan (fc_threads c);
  fi_writer : count is_write (fc_threads c) = if fc_writer c then 1%nat else 0%nat;
  fi_excl : fc_writer c = true -> fc_readers c = 0%nat;
  fi_scan : Forall (scan_ok (fc_st c)) (fc_threads c);
  fi_log : Forall drec_scan (fc_log c) }.

Lemma scan_ok_other st st' t : is_scan t = false -> scan_ok st t -> scan_ok st' t.
Proof. unfold is_scan, scan_ok. destruct (f_pc t); [auto|discriminate|auto]. Qed.

Lemma no_scan_any st l : count is_scan l = 0%nat -> Forall (scan_ok st) l.
Proof.
  intros H. apply Forall_forall. intros t Hin. pose proof (count_zero _ _ H t Hin) as E.
  unfold is_scan in E. unfold scan_ok. destruct (f_pc t); [exact I|discriminate|exact I].
Qed.

Lemma visit_cons i rest m :
  visit (i :: rest) m = (match nth_error m i with Some kv => [snd kv] | None => [] end) ++ visit rest m.
Proof. reflexivity. Qed.

(* a thread that holds the write lock excludes every scan *)
Lemma writer_excludes c i t : finv c -> nth_error (fc_threads c) i = Some t -> is_write t = true ->
  fc_writer c = true /\ fc_readers c = 0%nat /\ count is_scan (fc_threads c) = 0%nat.
Proof.
  intros [Hr Hw Hx _ _] E Ht.
  assert (W : fc_writer c = true).
  { pose proof (count_pos is_write _ t (nth_error_In _ _ E) Ht) as P.
    destruct (fc_writer c); [reflexivity|lia]. }
  split; [exact W|]. specialize (Hx W). split; [exact Hx|]. now rewrite <- Hr.
Qed.

Theorem fstep_inv c tid : finv c -> finv (fstep c tid).
Proof.
  intros Hinv. pose proof Hinv as [Hr Hw Hx Hs Hl].
  unfold fstep. destruct (nth_error (fc_threads c) tid) as [t|] eqn:E; [|exact Hinv].
  pose proof (Forall_nth _ _ _ _ Hs E) as Hst.
  destruct (f_pc t) as [|path d order todo best n snap|o] eqn:Epc.
  - (* idle *)
    assert (Hts : is_scan t = false) by (unfold is_scan; now rewrite Epc).
    assert (Htw : is_write t = false) by (unfold is_write; now rewrite Epc).
    destruct (f_jobs t) as [|[o|segs order] js] eqn:Ej; [exact Hinv| |].
    + destruct (op_prelock o) as [res|].
      * constructor; cbn [fc_st fc_readers fc_writer fc_threads fc_log].
        -- rewrite (count_same is_scan _ _ _ _ E); [exact Hr|now rewrite Hts].
        -- rewrite (count_same is_write _ _ _ _ E); [exact Hw|now rewrite Htw].
        -- exact Hx.
        -- apply Forall_set_nth; [exact Hs|exact I].
        -- exact Hl.
      * destruct (Nat.eqb (fc_readers c) 0 && negb (fc_writer c)) eqn:Ec; [|exact Hinv].
        apply andb_true_iff in Ec as [Er Ew]. apply Nat.eqb_eq in Er. apply negb_true_iff in Ew.
        constructor; cbn [fc_st fc_readers fc_writer fc_threads fc_log].
        -- rewrite (count_same is_scan _ _ _ _ E); [exact Hr|now rewrite Hts].
        -- rewrite (count_inc is_write _ _ _ _ E Htw); [|reflexivity]. rewrite Hw, Ew. reflexivity.
        -- intros _. exact Er.
        -- apply Forall_set_nth; [exact Hs|exact I].
        -- exact Hl.
    + destruct (fc_writer c) eqn:Ew; [exact Hinv|].
      destruct (f_local t) as [d|].
      * constructor; cbn [fc_st fc_readers fc_writer fc_threads fc_log].
        -- rewrite (count_inc is_scan _ _ _ _ E Hts); [|reflexivity]. now rewrite Hr.
        -- rewrite (count_same is_write _ _ _ _ E); [exact Hw|now rewrite Htw].
        -- discriminate.
        -- apply Forall_set_nth; [exact Hs|]. unfold scan_ok. cbn [f_pc]. split; reflexivity.
        -- exact Hl.
      * constructor; cbn [fc_st fc_readers fc_writer fc_threads fc_log].
        -- rewrite (count_same is_scan _ _ _ _ E); [exact Hr|now rewrite Hts].
        -- rewrite (count_same is_write _ _ _ _ E); [exact Hw|now rewrite Htw].
        -- discriminate.
        -- apply Forall_set_nth; [exact Hs|exact I].
        -- exact Hl.
  - (* scanning *)
    assert (Hts : is_scan t = true) by (unfold is_scan; now rewrite Epc).
    assert (Htw : is_write t = false) by (unfold is_write; now rewrite Epc).
    unfold scan_ok in Hst. rewrite Epc in Hst. destruct Hst as [Hsnap Hgoal].
    destruct todo as [|i rest].
    + (* RUnlock *)
      constructor; cbn [fc_st fc_readers fc_writer fc_threads fc_log].
      * pose proof (count_dec is_scan _ _ (mkF FIdle None (f_jobs t)) _ E Hts eq_refl) as C. rewrite Hr. lia.
      * rewrite (count_same is_write _ _ _ _ E); [exact Hw|now rewrite Htw].
      * intros W. rewrite (Hx W). reflexivity.
      * apply Forall_set_nth; [exact Hs|exact I].
      * apply Forall_app. split; [exact Hl|]. constructor; [|constructor].
        unfold drec_scan. cbn [d_sel d_order d_routes d_path]. rewrite <- Hgoal. reflexivity.
    + (* one route *)
      set (pc' := match nth_error (st_routes (fc_st c)) i with
                  | Some kv => _ | None => _ end).
      assert (Hpc : scan_ok (fc_st c) (mkF pc' (f_local t) (f_jobs t)) /\ is_scan (mkF pc' (f_local t) (f_jobs t)) = true).
      { unfold scan_ok, is_scan. cbn [f_pc]. subst pc'.
        rewrite visit_cons in Hgoal. rewrite Hsnap in Hgoal at 1.
        destruct (nth_error (st_routes (fc_st c)) i) as [kv|].
        - cbn [app scan] in Hgoal.
          destruct (path_match (snd kv) path).
          + destruct (is_none best || (n <? length (r_pat (snd kv)))%nat); split; try reflexivity; split; auto.
          + split; [|reflexivity]. split; auto.
        - cbn [app] in Hgoal. split; [|reflexivity]. split; auto. }
      destruct Hpc as [Hok Hsc].
      constructor; cbn [fc_st fc_readers fc_writer fc_threads fc_log].
      * rewrite (count_same is_scan _ _ _ _ E); [exact Hr|now rewrite Hts, Hsc].
      * rewrite (count_same is_write _ _ _ _ E); [exact Hw|]. rewrite Htw. unfold is_write. cbn [f_pc].
        subst pc'. destruct (nth_error (st_routes (fc_st c)) i) as [kv|]; [|reflexivity].
        destruct (path_match (snd kv) path); [|reflexivity].
        destruct (is_none best || (n <? length (r_pat (snd kv)))%nat); reflexivity.
      * exact Hx.
      * apply Forall_set_nth; [exact Hs|exact Hok].
      * exact Hl.
  - (* the write, then Unlock *)
    assert (Hts : is_scan t = false) by (unfold is_scan; now rewrite Epc).
    assert (Htw : is_write t = true) by (unfold is_write; now rewrite Epc).
    destruct (writer_excludes c tid t Hinv E Htw) as (W & R0 & S0).
    destruct (apply_op (fc_st c) o) as [st' res].
    constructor; cbn [fc_st fc_readers fc_writer fc_threads fc_log].
    + rewrite (count_same is_scan _ _ _ _ E); [exact Hr|now rewrite Hts].
    + pose proof (count_dec is_write _ _ (mkF FIdle (f_local t) (f_jobs t)) _ E Htw eq_refl) as C.
      rewrite Hw, W in C. lia.
    + discriminate.
    + apply Forall_set_nth; [|exact I]. now apply no_scan_any.
    + exact Hl.
Qed.

Lemma frun_snoc c s t : frun c (s ++ [t]) = fstep (frun c s) t.
Proof. unfold frun. now rewrite fold_left_app. Qed.

Theorem frun_inv c : finv c -> forall sched, finv (frun c sched).
Proof.
  intros H sched. induction sched as [|t sched IH] using rev_ind; [exact H|].
  rewrite frun_snoc. now apply fstep_inv.
Qed.

Lemma count_idle (f : fthread -> bool) (jobs : list (list job)) :
  (forall js, f (mkF FIdle None js) = false) -> count f (map (fun js => mkF FIdle None js) jobs) = 0%nat.
Proof.
  intros H. unfold count. induction jobs as [|j jobs IH]; [reflexivity|].
  cbn [map filter]. now rewrite H.
Qed.

Theorem finit_inv st jobs : finv (finit st jobs).
Proof.
  constructor; cbn [finit fc_st fc_readers fc_writer fc_threads fc_log].
  - now rewrite count_idle.
  - now rewrite count_idle.
  - discriminate.
  - apply Forall_forall. intros t Hin. apply in_map_iff in Hin as (js & <- & _). exact I.
  - constructor.
Qed.

(* MUTUAL EXCLUSION: while a thread is inside Handle / HandleRemove /
   DefaultHandle with the write lock, no thread is inside the scan of Match *)
Theorem fine_exclusion st jobs sched :
  let c := frun (finit st jobs) sched in
  forall i t, nth_error (fc_threads c) i = Some t -> is_write t = true ->
  forall u, In u (fc_threads c) -> is_scan u = false.
Proof.
  intros c i t E Ht u Hin.
  pose proof (frun_inv _ (finit_inv st jobs) sched) as Hinv. fold c in Hinv.
  destruct (writer_excludes c i t Hinv E Ht) as (_ & _ & S0).
  now apply (count_zero _ _ S0).
Qed.

(* ... and the registered state changes only in the step of a thread that holds
   the write lock, at a moment when no scan is in progress: every iteration of
   every scan therefore reads the map its thread saw when it took the read lock *)
Theorem fine_write_excl c tid : finv c -> fc_st (fstep c tid) <> fc_st c ->
  exists t o, nth_error (fc_threads c) tid = Some t /\ f_pc t = FWrite o /\ fc_writer c = true /\
              forall u, In u (fc_threads c) -> is_scan u = false.
Proof.
  intros Hinv Hne. unfold fstep in Hne.
  destruct (nth_error (fc_threads c) tid) as [t|] eqn:E; [|congruence].
  destruct (f_pc t) as [|path d order todo best n snap|o] eqn:Epc.
  - exfalso. destruct (f_jobs t) as [|[o|segs order] js]; [congruence| |].
    + destruct (op_prelock o); [cbn [fc_st] in Hne; congruence|].
      destruct (Nat.eqb (fc_readers c) 0 && negb (fc_writer c)); cbn [fc_st] in Hne; congruence.
    + destruct (fc_writer c); [congruence|]. destruct (f_local t); cbn [fc_st] in Hne; congruence.
  - exfalso. destruct todo; cbn [fc_st] in Hne; congruence.
  - assert (Htw : is_write t = true) by (unfold is_write; now rewrite Epc).
    destruct (writer_excludes c tid t Hinv E Htw) as (W & _ & S0).
    exists t, o. repeat split; auto. intros u Hin. now apply (count_zero _ _ S0).
Qed.

Lemma fstep_log c tid d : finv c -> In d (fc_log (fstep c tid)) ->
  In d (fc_log c) \/ d_routes d = st_routes (fc_st c).
Proof.
  intros Hinv. pose proof Hinv as [_ _ _ Hs _]. unfold fstep.
  destruct (nth_error (fc_threads c) tid) as [t|] eqn:E; [|now left].
  pose proof (Forall_nth _ _ _ _ Hs E) as Hst.
  destruct (f_pc t) as [|path d0 order todo best n snap|o] eqn:Epc.
  - destruct (f_jobs t) as [|[o|segs order] js]; [now left| |].
    + destruct (op_prelock o); [now left|].
      destruct (Nat.eqb (fc_readers c) 0 && negb (fc_writer c)); now left.
    + destruct (fc_writer c); [now left|]. destruct (f_local t); now left.
  - destruct todo as [|i rest]; [|now left].
    cbn [fc_log]. intros H. apply in_app_iff in H as [H|[<-|[]]]; [now left|].
    right. cbn [d_routes]. unfold scan_ok in Hst. rewrite Epc in Hst. apply Hst.
  - destruct (apply_op (fc_st c) o). now left.
Qed.

(* ATOMICITY of the scan: under EVERY schedule of the fine-grained model each
   completed dispatch selected what one scan of ONE map gives -- the map of the
   state reached by a prefix of the schedule -- exactly as in the coarse model
   [run_conc] in which the whole section is a single step *)
Theorem fine_log st jobs sched d : In d (fc_log (frun (finit st jobs) sched)) ->
  drec_scan d /\
  exists s1 s2, sched = s1 ++ s2 /\ d_routes d = st_routes (fc_st (frun (finit st jobs) s1)).
Proof.
  intros Hin. split.
  - pose proof (frun_inv _ (finit_inv st jobs) sched) as [_ _ _ _ Hl].
    rewrite Forall_forall in Hl. now apply Hl.
  - revert d Hin. induction sched as [|t sched IH] using rev_ind; intros d Hin.
    + destruct Hin.
    + rewrite frun_snoc in Hin.
      apply fstep_log in Hin as [Hin|Hr]; [| |apply frun_inv, finit_inv].
      * destruct (IH d Hin) as (s1 & s2 & -> & Hr). exists s1, (s2 ++ [t]). now rewrite app_assoc.
      * exists sched, [t]. split; [reflexivity|exact Hr].
Qed.

Theorem fine_dispatch st jobs sched d : In d (fc_log (frun (finit st jobs) sched)) ->
  (exists s1 s2, sched = s1 ++ s2 /\ d_routes d = st_routes (fc_st (frun (finit st jobs) s1))) /\
  match d_sel d with
  | Some r => In r (map snd (d_routes d)) /\ path_match r (d_path d) = true /\
              (Permutation (visit (d_order d) (d_routes d)) (map snd (d_routes d)) ->
               maximal_match (map snd (d_routes d)) (d_path d) r)
  | None => Permutation (visit (d_order d) (d_routes d)) (map snd (d_routes d)) ->
            forall r, In r (map snd (d_routes d)) -> path_match r (d_path d) = false
  end.
Proof.
  intros Hin. destruct (fine_log st jobs sched d Hin) as [Hs Hex].
  split; [exact Hex|]. unfold drec_scan in Hs. rewrite Hs.
  destruct (scan (visit (d_order d) (d_routes d)) (d_path d) None O) as [r|] eqn:E.
  - pose proof (scan_some _ _ _ E) as (Hi & Hm & Hmax). split; [now apply visit_in in Hi|]. split; [exact Hm|].
    intros Hp. apply scan_exact. eauto.
  - intros Hp r Hi. eapply scan_none; [exact E|]. eapply Permutation_in; [symmetry|]; eauto.
Qed.

(* the registered state stays well formed *)
Lemma fstep_wf c tid : wf (fc_st c) -> wf (fc_st (fstep c tid)).
Proof.
  intros H. unfold fstep. destruct (nth_error (fc_threads c) tid) as [t|]; [|exact H].
  destruct (f_pc t) as [|path d order todo best n snap|o].
  - destruct (f_jobs t) as [|[o|segs order] js]; [exact H| |].
    + destruct (op_prelock o); [exact H|].
      destruct (Nat.eqb (fc_readers c) 0 && negb (fc_writer c)); exact H.
    + destruct (fc_writer c); [exact H|]. destruct (f_local t); exact H.
  - destruct todo; exact H.
  - pose proof (apply_op_wf (fc_st c) o H) as W. destruct (apply_op (fc_st c) o). exact W.
Qed.
Theorem frun_wf c : wf (fc_st c) -> forall sched, wf (fc_st (frun c sched)).
Proof.
  intros H sched. induction sched as [|t sched IH] using rev_ind; [exact H|].
  rewrite frun_snoc. now apply fstep_wf.
Qed.

(* an operation that returns before taking the lock has the result [apply_op] gives and changes nothing *)
Lemma op_prelock_spec st o res : op_prelock o = Some res -> apply_op st o = (st, res).
Proof.
  destruct o as [pat [h|]|pat|h]; cbn [op_prelock apply_op]; try discriminate.
  - destruct (new_route_regexp (filter_path pat)); [discriminate| |]; now intros [= <-].
  - now intros [= <-].
Qed.
