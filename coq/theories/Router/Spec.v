(* C17 -- the property as executable predicates, written from the property
   text: "dispatch invokes exactly one handler: a registered one whose pattern
   matches the entire path and for which no other matching pattern is longer,
   or the default handler exactly when nothing matches; the route variables
   equal the corresponding substrings of the path; middlewares wrap the handler
   in registration order".

   Reference semantics of "pattern matches the entire path": the path is the
   concatenation lit0 ++ v1 ++ lit1 ++ ... with every v_i in the language of the
   i-th variable's expression ([decomps] enumerates ALL such decompositions by
   brute force; membership in the language is decided by the derivative matcher,
   proved equal to the denotational language in Proofs.v).  The syntax of
   templates and of sub-expressions is shared with the model. *)
From Coq Require Import ZArith NArith List Bool.
From GoCoap Require Import Base.Bytes Router.Model.
Import ListNotations.
Open Scope Z_scope.

Fixpoint is_prefix (p s : str) : bool :=
  match p, s with
  | [], _ => true
  | c :: p', d :: s' => (c =? d) && is_prefix p' s'
  | _ :: _, [] => false
  end.

Fixpoint decomps (ps : list (cpart re)) (s : str) : list (list str) :=
  match ps with
  | [] => if is_nil s then [[]] else []
  | CLit l :: r => if is_prefix l s then decomps r (skipn (length l) s) else []
  | CVar _ x :: r =>
      flat_map (fun n => if dmatch x (firstn n s)
                         then map (cons (firstn n s)) (decomps r (skipn n s)) else [])
               (seq 0 (S (length s)))
  end.

Definition spec_matches (ps : list (cpart re)) (s : str) : bool := negb (is_nil (decomps ps s)).

(* a registered route as the property sees it: pattern text, handler, meaning *)
Record sroute := mkS { s_pat : str; s_h : Z; s_parts : list (cpart re) }.

(* the variable map {name_i -> v_i} of one decomposition (later names win),
   compared as a finite map with the observed one *)
Definition kv_eqb (a b : str * str) : bool := str_eqb (fst a) (fst b) && str_eqb (snd a) (snd b).
Definition kv_mem (x : str * str) (l : list (str * str)) : bool := existsb (kv_eqb x) l.
Definition vmap_eqb (a b : list (str * str)) : bool :=
  (length a =? length b)%nat && forallb (fun x => kv_mem x b) a && forallb (fun x => kv_mem x a) b.

Fixpoint last_binding (names vals : list str) (k : str) (acc : option str) : option str :=
  match names, vals with
  | n :: ns, v :: vs => last_binding ns vs k (if str_eqb n k then Some v else acc)
  | _, _ => acc
  end.
(* [obs] is the map of [names -> vals] *)
Definition is_map_of (names vals : list str) (obs : list (str * str)) : bool :=
  forallb (fun kv => match last_binding names vals (fst kv) None with
                     | Some v => str_eqb v (snd kv) | None => false end) obs &&
  forallb (fun n => existsb (fun kv => str_eqb (fst kv) n) obs) names &&
  (* no key twice in the observed map *)
  (fix nodup (l : list (str * str)) : bool :=
     match l with [] => true
     | kv :: r => negb (existsb (fun kv' => str_eqb (fst kv') (fst kv)) r) && nodup r end) obs.

Definition vars_ok (r : sroute) (path : str) (obs : list (str * str)) : bool :=
  existsb (fun vals => is_map_of (var_names (s_parts r)) vals obs) (decomps (s_parts r) path).

(* middlewares in registration order around the handler: the first registered
   is entered first and left last; one that answers itself ends the chain *)
Fixpoint passing_prefix (mws : list (Z * bool)) : list Z * bool :=
  match mws with
  | [] => ([], true)
  | (i, true) :: r => let '(l, p) := passing_prefix r in (i :: l, p)
  | (i, false) :: _ => ([i], false)
  end.
Definition spec_trace (mws : list (Z * bool)) (h : option Z) : list ev :=
  let '(ids, pass) := passing_prefix mws in
  map MwIn ids ++ (if pass then match h with Some k => [Hd k] | None => [] end else []) ++ map MwOut (rev ids).

Definition ev_eqb (a b : ev) : bool :=
  match a, b with
  | MwIn i, MwIn j => i =? j | MwOut i, MwOut j => i =? j | Hd i, Hd j => i =? j
  | _, _ => false
  end.
Definition handlers_of (t : list ev) : list Z :=
  flat_map (fun e => match e with Hd h => [h] | _ => [] end) t.

(* failure classes:
   1 not exactly one handler ran                 2 the handler/pattern is not a registered one
   3 the dispatched pattern does not match        4 a longer matching pattern exists
   5 default handler ran although a route matches, or nothing ran/matched wrongly
   6 path / variables are not the substrings      7 middleware order *)
Definition dispatch_class (regs : list sroute) (dflt : option Z) (mws : list (Z * bool))
           (path : str) (trace : list ev) (params : option (str * str * list (str * str))) : N :=
  let matching := filter (fun r => spec_matches (s_parts r) path) regs in
  let pass := snd (passing_prefix mws) in
  match params with
  | Some (p, tmpl, vars) =>
      match filter (fun r => str_eqb (s_pat r) tmpl) regs with
      | [] => 2%N
      | r :: _ =>
          if negb (spec_matches (s_parts r) path) then 3%N
          else if existsb (fun r' => (length (s_pat r) <? length (s_pat r'))%nat) matching then 4%N
          else if negb (str_eqb p path && vars_ok r path vars) then 6%N
          else if pass then
            match handlers_of trace with
            | [h] => if negb (h =? s_h r) then 2%N
                     else if list_eqb ev_eqb trace (spec_trace mws (Some h)) then 0%N else 7%N
            | _ => 1%N
            end
          else if list_eqb ev_eqb trace (spec_trace mws None) then 0%N else 7%N
      end
  | None =>
      if negb (is_nil matching) then 5%N
      else
        match dflt with
        | None => if is_nil trace then 0%N else 1%N   (* no default handler set: nothing to wrap, nothing runs *)
        | Some d =>
            if pass then
              match handlers_of trace with
              | [h] => if negb (h =? d) then 2%N
                       else if list_eqb ev_eqb trace (spec_trace mws (Some h)) then 0%N else 7%N
              | _ => 1%N
              end
            else if list_eqb ev_eqb trace (spec_trace mws None) then 0%N else 7%N
        end
  end.

(* ------------------------------------------------------------------ *)
(* Requests served through the adapter mux.ToHandler (what the udp/tcp/dtls
   servers call).  "The route variables passed to the handler equal the
   corresponding substrings of the path": the handler of a request that no route
   matches has no route, hence no route variables.  A registered pattern is
   never empty (FilterPath turns "" into "/"), so an empty PathTemplate means
   that no route was selected. *)
Definition adapt_class (regs : list sroute) (dflt : option Z) (mws : list (Z * bool))
           (path : str) (trace : list ev) (params : option (str * str * list (str * str))) : N :=
  match params with
  | Some (_, [], vars) =>
      if negb (is_nil vars) then 6%N else dispatch_class regs dflt mws path trace None
  | _ => dispatch_class regs dflt mws path trace params
  end.

(* A request whose RouteParams object was used before (a recycled *mux.Message,
   a router nested in a handler of another router).  What the caller left in the
   object is the caller's business; the property speaks about the handler that
   runs and about "the route variables" -- the variables of the pattern the
   request was dispatched on.  So: the handler that ran decides whether a route
   was selected (it is the handler of the registered route named by
   PathTemplate), the Vars map is cut down to the variable names of that
   pattern, and then the predicate is [dispatch_class] for the path the message
   has NOW; when no route handler ran, the request must be one that no
   registered pattern matches and the default handler must have run.  When a
   middleware answers itself no handler runs and only the trace is judged
   (nothing at all runs when no default handler is set and nothing matches). *)
Definition restrict_vars (names : list str) (vars : list (str * str)) : list (str * str) :=
  filter (fun kv => existsb (str_eqb (fst kv)) names) vars.

Definition reuse_class (regs : list sroute) (dflt : option Z) (mws : list (Z * bool))
           (path : str) (trace : list ev) (params : option (str * str * list (str * str))) : N :=
  if negb (snd (passing_prefix mws)) then
    (if list_eqb ev_eqb trace (spec_trace mws None) then 0%N
     else match dflt with
          | None =>   (* no default handler set and nothing matches: nothing to wrap, nothing runs *)
              if is_nil trace && is_nil (filter (fun r => spec_matches (s_parts r) path) regs) then 0%N else 7%N
          | Some _ => 7%N
          end)
  else
    let routed :=
      match params, handlers_of trace with
      | Some (p, tmpl, vars), [h] =>
          match filter (fun r => str_eqb (s_pat r) tmpl && (s_h r =? h)) regs with
          | r :: _ => Some (p, tmpl, restrict_vars (var_names (s_parts r)) vars)
          | [] => None
          end
      | _, _ => None
      end in
    dispatch_class regs dflt mws path trace routed.

(* "registering or removing routes concurrently with dispatch is free of data
   races": the route table is guarded by the router's lock, so (11) every time
   the longest-match scan looks at a route the lock is held (by the scanning
   goroutine, for reading), and (12) no Handle / HandleRemove / DefaultHandle
   that takes effect runs to completion while another goroutine is in the
   middle of its scan.
   [held]: the lock was found held at each visit of the scan; [inside]: an
   operation issued by another goroutine during the scan took effect and
   returned before the scan went on. *)
Definition excl_class (held : list bool) (inside : bool) : N :=
  if negb (forallb (fun b : bool => b) held) then 11%N else if inside then 12%N else 0%N.
