"""Registry of the per-property configuration used by bin/check."""

COMMON_TRUSTED = [
    'Coq 8.16.1 kernel (coqc; vm_compute used for correspondence evaluation and finite sweeps; no native_compute)',
    'no axioms: every theorem in coq/theories/Properties must print "Closed under the global context"',
    'generator `hx gen` (harness/gen.go): prints live constants/tables of the compiled /repo as Gallina',
    'correspondence harness `hx` (harness/*.go) + bin/check parsing of coqc output',
    'Go compiler/runtime semantics are modelled (integer wrap, slices), not verified',
]

PROPS = {
    'C18': {
        'run_vo': 'Monitor/Run.vo', 'props_vo': 'Properties/C18.vo', 'level': 'proof',
        'classes': {1: 'closed-while-active', 2: 'keepalive-failure-counted-while-active', 3: 'no-action-at-first-idle-tick',
                    4: 'keepalive-closed-before-max-plus-one-consecutive-failures', 5: 'keepalive-not-closed-at-failure-max-plus-one',
                    7: 'monitor-acted-outside-tick-or-after-close'},
        'trusted': ['virtual clock of the harness: activity stamps are the real time.Now() of Monitor.Notify read back through Monitor.LastActivity(); ticks are CheckInactivity(stamp + virtual distance)',
                    'generator reads the 10 ms look-ahead of udp/server.getConn from the syntax tree of the compiled source file (harness/gen_c18.go)'],
        'assumptions': ['time.Time/time.Duration modelled as unbounded Z nanoseconds (no saturation of time.Add near +-292 years)',
                        'message arrival times of a history are non-decreasing (monotonic clock)',
                        'atomic operations of Monitor/KeepAlive are modelled sequentially: one event at a time (no concurrent Notify/CheckInactivity interleaving inside one event)'],
        'level_text': 'Coq theorems (Properties/C18.v) over ALL event histories of {message received, pong for generation g, pong callback, tick at t, server datagram-path tick}: every trace of the model of inactivity.Monitor + KeepAlive (as wired by options.WithKeepAlive) passes the property judge written from the property text (closed only if idle for a full period, closed/acted at the first idle tick, keep-alive closes exactly at failure max+1 counted since the last received message or credited pong, late pongs not credited). Model tied to the real Monitor/KeepAlive, udp and tcp client Conn, pkg/connections and the udp server by differential evaluation of event histories on a nanosecond-exact virtual clock.',
        'level_note': 'Trusted: Coq kernel + vm_compute, the harness and its virtual clock. Sequential model of the atomics (one event at a time). On the udp server datagram path the idle distance is produced by moving the activity stamp (reflect+unsafe) and bracketing the real clock read of getConn.',
        'explanation': 'Theorems: model traces satisfy the judge for all histories (C18_spec_all) with corollaries only_if_idle, first_tick, keepalive_close, reset, late_pong. Correspondence: histories with spacings at period -200ms/-1ns/0/+1ns/+200ms, several ticks per period, pongs for old pings, retry limits 0-3, failing ping writes, on inactivity.Monitor/KeepAlive directly, through pkg/connections, through a udp client Conn over an in-memory session, a tcp client Conn over a pipe and the udp server (periodic tick + datagram path with the generated look-ahead), all wired by the options package.',
    },
    'C19': {
        'run_vo': 'Block/Run.vo', 'props_vo': 'Properties/C19.vo', 'level': 'proof',
        'classes': {1: 'decoder-inside-24bit-domain', 2: 'decoder-accepts-above-24bit', 3: 'encoder-inside-domain',
                    4: 'encoder-accepts-outside-domain', 5: 'size-table', 6: 'buffer-size'},
        'trusted': ['hook net/blockwise/export_verif.go (build tag verif) exposing the constants read by gen'],
        'assumptions': ['uint32/int64 arithmetic of Go modelled in Z with explicit mod 2^32'],
        'level_text': 'Coq theorems (Properties/C19.v): decode total on all 24-bit values, encode total on szx 0-7 x 20-bit NUM, refusal outside, mutual inverses, size table and BERT buffer, stated over constants regenerated from the source; model tied to the Go functions by differential evaluation (boundary/random values, checksum sweeps; whole 2^24 / 18x2^20 domains in thorough).',
        'level_note': 'Trusted: Coq kernel + vm_compute, the constant generator, the harness; Go integer semantics modelled in Z with explicit uint32 wrap.',
        'explanation': 'Theorems: decode/encode total on the RFC 7959 domain, refusal outside, mutual inverses, size table, BERT buffer; stated over constants regenerated from the source. Correspondence: model vs EncodeBlockOption/DecodeBlockOption/SZX.Size/bufferSize on boundary+random values and checksum sweeps.',
    },
    'C20': {
        'run_vo': 'NoResp/Run.vo', 'props_vo': 'Properties/C20.vo', 'level': 'proof',
        'classes': {1: 'suppressed-class-accepted', 2: 'unsuppressed-class-refused', 3: 'writer-differs-from-rfc'},
        'trusted': [],
        'assumptions': ['uint32 bit operations of Go modelled with Z.land/Z.shiftl on non-negative Z'],
        'level_text': 'Coq theorems (Properties/C20.v): the decision equals the RFC 7967 class/bit rule for every code and every (unbounded) value; the response writer refuses exactly per the first No-Response option. Model tied to IsNoResponseCode and ResponseWriter.SetResponse by differential evaluation, exhaustive over 256 codes x values 0..63.',
        'level_note': 'Trusted: Coq kernel + vm_compute, the harness. The wire clause (bare ACK / nothing on the wire) is covered by the datagram connection model of C05.',
        'explanation': 'Theorems: IsNoResponseCode model equals the RFC 7967 class/bit decision for every code and every value (unbounded), only bits 1,3,4 matter, other classes always pass, the response writer refuses exactly per the first No-Response option. Correspondence: exhaustive bit tables for all 256 codes x values 0..63, boundary/random 32-bit values, 16-bit codes, ResponseWriter.SetResponse over generated request option lists.',
    },
}

NOT_APPLICABLE = {}
