"""Registry of the per-property configuration used by bin/check."""

COMMON_TRUSTED = [
    'Coq 8.16.1 kernel (coqc; vm_compute used for correspondence evaluation and finite sweeps; no native_compute)',
    'no axioms: every theorem in coq/theories/Properties must print "Closed under the global context"',
    'generator `hx gen` (harness/gen.go): prints live constants/tables of the compiled /repo as Gallina',
    'correspondence harness `hx` (harness/*.go) + bin/check parsing of coqc output',
    'Go compiler/runtime semantics are modelled (integer wrap, slices), not verified',
]

PROPS = {
    'C19': {
        'run_vo': 'Block/Run.vo', 'props_vo': 'Properties/C19.vo', 'level': 'proof',
        'classes': {1: 'decoder-inside-24bit-domain', 2: 'decoder-accepts-above-24bit', 3: 'encoder-inside-domain',
                    4: 'encoder-accepts-outside-domain', 5: 'size-table', 6: 'buffer-size'},
        'trusted': ['hook net/blockwise/export_verif.go (build tag verif) exposing the constants read by gen'],
        'assumptions': ['uint32/int64 arithmetic of Go modelled in Z with explicit mod 2^32'],
        'level_text': 'Coq theorems (Properties/C19.v): decode total on all 24-bit values, encode total on szx 0-7 x 20-bit NUM, refusal outside, mutual inverses, size table and BERT buffer, stated over constants regenerated from the source; model tied to the Go functions by differential evaluation (boundary/random values, checksum sweeps; whole 2^24 / 18x2^20 domains in thorough).',
        'level_note': 'Trusted: Coq kernel + vm_compute, the constant generator, the harness; Go integer semantics modelled in Z with explicit uint32 wrap.',
        'explanation': 'Theorems: decode/encode total on the RFC 7959 domain, refusal outside, mutual inverses, size table, BERT buffer; stated over constants regenerated from the source. Correspondence: model vs EncodeBlockOption/DecodeBlockOption/SZX.Size/bufferSize on boundary+random values and checksum sweeps.',
    },
    'C20': {
        'run_vo': 'NoResp/Run.vo', 'props_vo': 'Properties/C20.vo', 'level': 'proof',
        'classes': {1: 'suppressed-class-accepted', 2: 'unsuppressed-class-refused', 3: 'writer-differs-from-rfc'},
        'trusted': [],
        'assumptions': ['uint32 bit operations of Go modelled with Z.land/Z.shiftl on non-negative Z'],
        'level_text': 'Coq theorems (Properties/C20.v): the decision equals the RFC 7967 class/bit rule for every code and every (unbounded) value; the response writer refuses exactly per the first No-Response option. Model tied to IsNoResponseCode and ResponseWriter.SetResponse by differential evaluation, exhaustive over 256 codes x values 0..63.',
        'level_note': 'Trusted: Coq kernel + vm_compute, the harness. The wire clause (bare ACK / nothing on the wire) is covered by the datagram connection model of C05.',
        'explanation': 'Theorems: IsNoResponseCode model equals the RFC 7967 class/bit decision for every code and every value (unbounded), only bits 1,3,4 matter, other classes always pass, the response writer refuses exactly per the first No-Response option. Correspondence: exhaustive bit tables for all 256 codes x values 0..63, boundary/random 32-bit values, 16-bit codes, ResponseWriter.SetResponse over generated request option lists.',
    },
}

PROPS['C01'] = {
    'run_vo': 'Codec/RunC01.vo', 'props_vo': 'Properties/C01.vo', 'level': 'proof',
    'classes': {1: 'size-differs-from-encoding-length', 2: 'small-buffer-not-reported-or-touched', 3: 'bytes-differ-from-rfc-encoding-or-overrun',
                4: 'decode-of-encode-differs', 5: 'stream-header-preparse-differs', 6: 'pooled-roundtrip-differs',
                7: 'outside-preconditions-accepted', 9: 'datagram-type-4-255-truncated'},
    'trusted': ['hook tcp/coder/export_verif.go (build tag verif) exposing messageMaxLen read by gen'],
    'assumptions': ['Go int/uint8/uint16/uint32 conversions modelled in Z with explicit mod', 'slices modelled as lists; a destination buffer by its length and content'],
    'level_text': "Coq theorems (Properties/C01.v) over a transcription of message/option(s).go, udp/coder, tcp/coder and the pooled marshal path: the option nibble/extension encoding and parseExtOpt are inverse for each class 0-12/13-268/269-65804; both passes of Options.Marshal equal the RFC 7252 encoding; Options.Unmarshal inverts it (and answers ErrOptionsTooSmall exactly when the capacity is short); for EVERY well-formed message both coders' Size = bytes written = RFC encoding, Decode returns the same message consuming exactly those bytes, DecodeHeader reports the frame; too-small buffers return (size, ErrTooSmall) with the buffer unchanged; token>8 / MID / type outside 0..255 are refused. The generated option tables are proved equal to the RFC registries. Type 4..255 is accepted and truncated (C01_type_truncation_refuted, known finding F9), so the refusal theorem is the _partial one. Model tied to the Go code by differential evaluation on generated messages aimed at 13/269/65805 (Size, Encode into 0/1/size-1/size/size+7 buffers with sentinel, Decode, DecodeHeader, pooled Marshal/Unmarshal).",
    'level_note': 'Trusted: Coq kernel + vm_compute, the generator (option tables, MaxTokenSize, ExtendOption*, MessageLength*, messageMaxLen), the harness. Not covered: bodies >= messageMaxLen (2 GiB - 64 KiB; getHeader silently writes Len=0 there, model only), code > 255 (byte(m.Code) truncates; outside the stated preconditions), memory safety of the Go runtime itself.',
    'explanation': "Coq theorems (Properties/C01.v) over a transcription of message/option(s).go, udp/coder, tcp/coder and the pooled marshal path: the option nibble/extension encoding and parseExtOpt are inverse for each class 0-12/13-268/269-65804; both passes of Options.Marshal equal the RFC 7252 encoding; Options.Unmarshal inverts it (and answers ErrOptionsTooSmall exactly when the capacity is short); for EVERY well-formed message both coders' Size = bytes written = RFC encoding, Decode returns the same message consuming exactly those bytes, DecodeHeader reports the frame; too-small buffers return (size, ErrT",
}

PROPS['C02'] = {
    'run_vo': 'Codec/RunC02.vo', 'props_vo': 'Properties/C02.vo', 'level': 'proof',
    'classes': {1: 'decoder-panicked-or-hung', 2: 'datagram-decode-differs-from-reference', 3: 'stream-header-differs-from-reference',
                4: 'stream-decode-differs-from-reference', 5: 'accepted-message-not-canonical', 6: 'pooled-message-aliases-caller-buffer',
                7: 'pooled-decode-differs-from-reference'},
    'trusted': ['hook tcp/coder/export_verif.go (build tag verif) exposing messageMaxLen read by gen'],
    'assumptions': ['Go slices modelled as lists with explicit bounds checks (Panic result)', 'uint32 header arithmetic modelled in Z with explicit mod 2^32', 'inputs are byte strings (values 0..255) shorter than 4 GiB'],
    'level_text': 'Coq theorems (Properties/C02.v): the guarded option loop agrees with a grammar-shaped reference parser written from RFC 7252 3.1 on every byte string and every capacity (hence never panics, never exhausts its fuel); the datagram decoder = ref_udp, the stream header pre-parse = ref_tcp_header (Short / Invalid / fields, no uint32 wrap), the stream decoder = ref_tcp (only the declared frame is parsed; inputs < 4 GiB); accepted datagrams are well-formed (C01 preconditions), so they re-encode and decode to the same message (canonicalisation); the pooled capacity-retry loop terminates from any capacity >= 0 within 2+log2_up(|input|+2) decoder calls for both coders. Accepted stream frames up to messageMaxLen bytes are well-formed and canonicalise (_partial: see O-1 in notes/C02.md). Pre-repair behaviour (F7, F16, F17, F8) is refuted on the reported inputs (ModelPre.v). Model tied to the Go code by differential evaluation: exhaustive short strings over a nibble-class alphabet, every first byte, truncations at every offset, mutations, random bytes through udp Decode, tcp DecodeHeader, tcp Decode, re-encode+decode, pooled decodes on fresh/recycled/capacity-0 messages under recover()+watchdog with the overwrite (no-alias) test.',
    'level_note': 'Trusted: Coq kernel + vm_compute, the generator, the harness (incl. its watchdog and alias test). The reference adopts four leniencies of the library: illegal-length options dropped, option 0 dropped, marker+nothing = no payload, and the Code 0.00 emptiness rule of RFC 7252 section 3 is not enforced by the codec (see notes/C02.md). No-alias is by construction in the model; its tie is the harness test. Bounded time = bounded recursion depth; wall-clock only observed.',
    'explanation': 'Coq theorems (Properties/C02.v): the guarded option loop agrees with a grammar-shaped reference parser written from RFC 7252 3.1 on every byte string and every capacity (hence never panics, never exhausts its fuel); the datagram decoder = ref_udp, the stream header pre-parse = ref_tcp_header (Short / Invalid / fields, no uint32 wrap), the stream decoder = ref_tcp (only the declared frame is parsed; inputs < 4 GiB); accepted datagrams are well-formed (C01 preconditions), so they re-encode and decode to the same message (canonicalisation); the pooled capacity-retry loop terminates from any capac',
}

NOT_APPLICABLE = {}
