"""Registry of the per-property configuration used by bin/check."""

COMMON_TRUSTED = [
    'Coq 8.16.1 kernel (coqc; vm_compute used for correspondence evaluation and finite sweeps; no native_compute)',
    'no axioms: every theorem in coq/theories/Properties must print "Closed under the global context"',
    'generator `hx gen` (harness/gen.go): prints live constants/tables of the compiled /repo as Gallina',
    'correspondence harness `hx` (harness/*.go) + bin/check parsing of coqc output',
    'Go compiler/runtime semantics are modelled (integer wrap, slices), not verified',
]

PROPS = {
    'C19': {
        'run_vo': 'Block/Run.vo', 'props_vo': 'Properties/C19.vo', 'level': 'proof',
        'classes': {1: 'decoder-inside-24bit-domain', 2: 'decoder-accepts-above-24bit', 3: 'encoder-inside-domain',
                    4: 'encoder-accepts-outside-domain', 5: 'size-table', 6: 'buffer-size'},
        'trusted': ['hook net/blockwise/export_verif.go (build tag verif) exposing the constants read by gen'],
        'assumptions': ['uint32/int64 arithmetic of Go modelled in Z with explicit mod 2^32'],
        'level_text': 'Coq theorems (Properties/C19.v): decode total on all 24-bit values, encode total on szx 0-7 x 20-bit NUM, refusal outside, mutual inverses, size table and BERT buffer, stated over constants regenerated from the source; model tied to the Go functions by differential evaluation (boundary/random values, checksum sweeps; whole 2^24 / 18x2^20 domains in thorough).',
        'level_note': 'Trusted: Coq kernel + vm_compute, the constant generator, the harness; Go integer semantics modelled in Z with explicit uint32 wrap.',
        'explanation': 'Theorems: decode/encode total on the RFC 7959 domain, refusal outside, mutual inverses, size table, BERT buffer; stated over constants regenerated from the source. Correspondence: model vs EncodeBlockOption/DecodeBlockOption/SZX.Size/bufferSize on boundary+random values and checksum sweeps.',
    },
    'C20': {
        'run_vo': 'NoResp/Run.vo', 'props_vo': 'Properties/C20.vo', 'level': 'proof',
        'classes': {1: 'suppressed-class-accepted', 2: 'unsuppressed-class-refused', 3: 'writer-differs-from-rfc'},
        'trusted': [],
        'assumptions': ['uint32 bit operations of Go modelled with Z.land/Z.shiftl on non-negative Z'],
        'level_text': 'Coq theorems (Properties/C20.v): the decision equals the RFC 7967 class/bit rule for every code and every (unbounded) value; the response writer refuses exactly per the first No-Response option. Model tied to IsNoResponseCode and ResponseWriter.SetResponse by differential evaluation, exhaustive over 256 codes x values 0..63.',
        'level_note': 'Trusted: Coq kernel + vm_compute, the harness. The wire clause (bare ACK / nothing on the wire) is covered by the datagram connection model of C05.',
        'explanation': 'Theorems: IsNoResponseCode model equals the RFC 7967 class/bit decision for every code and every value (unbounded), only bits 1,3,4 matter, other classes always pass, the response writer refuses exactly per the first No-Response option. Correspondence: exhaustive bit tables for all 256 codes x values 0..63, boundary/random 32-bit values, 16-bit codes, ResponseWriter.SetResponse over generated request option lists.',
    },
    'C17': {
        'run_vo': 'Router/Run.vo', 'props_vo': 'Properties/C17.vo', 'level': 'partial',
        'classes': {1: 'not-exactly-one-handler', 2: 'handler-or-pattern-not-registered', 3: 'dispatched-pattern-does-not-match',
                    4: 'longer-matching-pattern-exists', 5: 'default-although-a-route-matches', 6: 'variables-not-the-substrings',
                    7: 'middleware-order', 8: 'concurrent-dispatch-to-non-matching-pattern', 9: 'concurrent-dispatch-missed-stable-route',
                    10: 'concurrent-dispatch-wrong-handler-or-variables'},
        'trusted': [
            "Go's regexp package (regexp.Compile, MatchString, FindStringSubmatchIndex) is NOT verified: it is modelled by Router/Model.v (parser of the generated expression class, leftmost-first enumeration `ends`, derivative matcher `dmatch`) and tied by differential execution on ASCII inputs only",
            'sync.RWMutex: the critical sections of mux/router.go are modelled as atomic steps; data-race freedom in the sense of the Go memory model is not a theorem',
        ],
        'assumptions': [
            'paths and patterns are ASCII in the correspondence runs (Go matches runes, the model bytes; they coincide on ASCII)',
            'sub-expressions stay inside the modelled class: literals, ., \\d, [..] classes with ranges/negation, (?:..), |, greedy * + ? {n} {n,} {n,m}; star bodies are not nullable',
            'Router.Use is not called concurrently with ServeCOAP (it is not synchronised in the code and not named by the property)',
        ],
        'level_text': 'Coq theorems (Properties/C17.v), all closed: QuoteMeta text denotes exactly the literal; derivative matcher and leftmost-first enumeration decide the denotational language; a compiled route matches iff the entire path decomposes as lit0 v1 lit1 .. with v_i in L(re_i) (generic in the sub-expression semantics, and for the concrete class); Router.Match under every map iteration order returns exactly the longest matching routes; ServeCOAP runs exactly one handler (longest match, else the default iff nothing matches); variables are the pieces of a decomposition; middlewares wrap in registration order; under every interleaving of write-locked Handle/HandleRemove/DefaultHandle steps and read-locked dispatch steps each dispatch selects a route registered at its scan whose pattern matches. Model tied to the real Router by differential execution (registration results and compiled regexp text, operation sequences + dispatch, exhaustive small route sets, concurrent mutation run).',
        'level_note': "Partial: Go's regexp engine is trusted to implement the modelled language/priority semantics (checked by differential execution on the generated class, ASCII only); data-race freedom is proved only as lock discipline of the model (every write to the guarded fields is inside a write-locked step, read-locked steps do not change the state) and supported by a concurrent mutation run, not by the Go memory model.",
        'explanation': 'Theorems: C17_quote, C17_matcher_correct, C17_enumeration_correct, C17_match_iff(_generic), C17_reference_semantics, C17_scan_exact, C17_select, C17_registered_invariant, C17_vars, C17_middleware_order, C17_concurrent(_invariant), C17_lock_discipline. Correspondence: Handle results + regexp text for catalogue/random templates (valid, malformed, capture-group panic), random operation sequences with overlapping/equal-length routes, metacharacter literals, custom sub-expressions, removals, default changes, middlewares, requests built from Uri-Path options; every set of <=2 (thorough: <=3) of 16 small templates x 19 paths; dispatch during concurrent Handle/HandleRemove/DefaultHandle.',
    },
}

NOT_APPLICABLE = {}
