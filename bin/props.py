"""Registry of the per-property configuration used by bin/check."""

COMMON_TRUSTED = [
    'Coq 8.16.1 kernel (coqc; vm_compute used for correspondence evaluation and finite sweeps; no native_compute)',
    'no axioms: every theorem in coq/theories/Properties must print "Closed under the global context"',
    'generator `hx gen` (harness/gen.go): prints live constants/tables of the compiled /repo as Gallina',
    'correspondence harness `hx` (harness/*.go) + bin/check parsing of coqc output',
    'Go compiler/runtime semantics are modelled (integer wrap, slices), not verified',
]

PROPS = {
    'C19': {
        'run_vo': 'Block/Run.vo', 'props_vo': 'Properties/C19.vo', 'level': 'proof',
        'classes': {1: 'decoder-inside-24bit-domain', 2: 'decoder-accepts-above-24bit', 3: 'encoder-inside-domain',
                    4: 'encoder-accepts-outside-domain', 5: 'size-table', 6: 'buffer-size'},
        'trusted': ['hook net/blockwise/export_verif.go (build tag verif) exposing the constants read by gen'],
        'assumptions': ['uint32/int64 arithmetic of Go modelled in Z with explicit mod 2^32'],
        'explanation': 'Theorems: decode/encode total on the RFC 7959 domain, refusal outside, mutual inverses, size table, BERT buffer; stated over constants regenerated from the source. Correspondence: model vs EncodeBlockOption/DecodeBlockOption/SZX.Size/bufferSize on boundary+random values and checksum sweeps.',
    },
}
