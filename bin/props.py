"""Registry of the per-property configuration used by bin/check."""

COMMON_TRUSTED = [
    'Coq 8.16.1 kernel (coqc; vm_compute used for correspondence evaluation and finite sweeps; no native_compute)',
    'no axioms: every theorem in coq/theories/Properties must print "Closed under the global context"',
    'generator `hx gen` (harness/gen.go): prints live constants/tables of the compiled /repo as Gallina',
    'correspondence harness `hx` (harness/*.go) + bin/check parsing of coqc output',
    'Go compiler/runtime semantics are modelled (integer wrap, slices), not verified',
]

PROPS = {
    'C19': {
        'run_vo': 'Block/Run.vo', 'props_vo': 'Properties/C19.vo', 'level': 'proof',
        'classes': {1: 'decoder-inside-24bit-domain', 2: 'decoder-accepts-above-24bit', 3: 'encoder-inside-domain',
                    4: 'encoder-accepts-outside-domain', 5: 'size-table', 6: 'buffer-size'},
        'trusted': ['hook net/blockwise/export_verif.go (build tag verif) exposing the constants read by gen'],
        'assumptions': ['uint32/int64 arithmetic of Go modelled in Z with explicit mod 2^32'],
        'level_text': 'Coq theorems (Properties/C19.v): decode total on all 24-bit values, encode total on szx 0-7 x 20-bit NUM, refusal outside, mutual inverses, size table and BERT buffer, stated over constants regenerated from the source; model tied to the Go functions by differential evaluation (boundary/random values, checksum sweeps; whole 2^24 / 18x2^20 domains in thorough).',
        'level_note': 'Trusted: Coq kernel + vm_compute, the constant generator, the harness; Go integer semantics modelled in Z with explicit uint32 wrap.',
        'explanation': 'Theorems: decode/encode total on the RFC 7959 domain, refusal outside, mutual inverses, size table, BERT buffer; stated over constants regenerated from the source. Correspondence: model vs EncodeBlockOption/DecodeBlockOption/SZX.Size/bufferSize on boundary+random values and checksum sweeps.',
    },
    'C20': {
        'run_vo': 'NoResp/Run.vo', 'props_vo': 'Properties/C20.vo', 'level': 'proof',
        'classes': {1: 'suppressed-class-accepted', 2: 'unsuppressed-class-refused', 3: 'writer-differs-from-rfc'},
        'trusted': [],
        'assumptions': ['uint32 bit operations of Go modelled with Z.land/Z.shiftl on non-negative Z'],
        'level_text': 'Coq theorems (Properties/C20.v): the decision equals the RFC 7967 class/bit rule for every code and every (unbounded) value; the response writer refuses exactly per the first No-Response option. Model tied to IsNoResponseCode and ResponseWriter.SetResponse by differential evaluation, exhaustive over 256 codes x values 0..63.',
        'level_note': 'Trusted: Coq kernel + vm_compute, the harness. The wire clause (bare ACK / nothing on the wire) is covered by the datagram connection model of C05.',
        'explanation': 'Theorems: IsNoResponseCode model equals the RFC 7967 class/bit decision for every code and every value (unbounded), only bits 1,3,4 matter, other classes always pass, the response writer refuses exactly per the first No-Response option. Correspondence: exhaustive bit tables for all 256 codes x values 0..63, boundary/random 32-bit values, 16-bit codes, ResponseWriter.SetResponse over generated request option lists.',
    },
    'C07': {
        'run_vo': 'Stream/Run.vo', 'props_vo': 'Properties/C07.vo', 'level': 'proof',
        'classes': {1: 'message-missing-altered-duplicated-or-reordered', 2: 'delivered-from-or-after-oversize-frame',
                    3: 'oversize-frame-did-not-close-with-error', 4: 'kept-reading-after-oversize-header',
                    5: 'error-on-stream-of-valid-frames', 6: 'panic-or-hang', 7: 'header-answer-changes-on-longer-prefix'},
        'trusted': ['hook tcp/coder/export_stream_verif.go (build tag verif) exposing messageMaxLen to gen'],
        'assumptions': ['uint32 arithmetic of DecodeHeader modelled in Z with explicit mod 2^32',
                        'the goroutine hand-off from the receive queue to the handler is C11\'s subject: the harness keeps the connection open (on-close callback) until every accepted message was dispatched'],
        'level_text': 'Coq theorems (Properties/C07.v) about a Gallina transcription of DecodeHeader, the option walk, processBuffer and Run: two reads equal one read of the concatenation from every state (C07_feed_app); for ALL chunkings the final state is that of one read of the whole stream (C07_segmentation); DecodeHeader is short exactly on proper prefixes of a header and a decided answer is stable (C07_header_prefix, C07_header_stable); a stream of RFC 8323-encoded messages within the limit is delivered exactly, once, in order, buffer empty, for every chunking (C07_exact); after k good messages a frame start declaring more than max (unbounded RFC arithmetic) fails the connection at its header with exactly the k messages delivered, for every chunking and every continuation (C07_oversize, C07_oversize_message); failure is absorbing and deliveries only extend (C07_failed_absorbing, C07_delivery_monotone); the pre-repair arithmetic refutes the oversize clause (C07_oversize_refuted_before_fix). Model tied to the real tcp/client.Conn by differential execution over a scripted net.Conn.',
        'level_note': 'Trusted: Coq kernel + vm_compute, the constant generator, the harness (scripted net.Conn, request-monitor / handler / signal logs). The hand-off from the receive queue to the handler goroutine is C11\'s; option values are C01/C02\'s (only the option walk that decides error / payload start is modelled).',
        'explanation': 'Theorems: feed_app, segmentation independence for all chunkings, header prefix-stability, exact delivery of encoded message sequences, oversize frames refused at the header with nothing after them delivered (no uint32 wrap after the repair; refuted instance for the arithmetic before it), absorbing failure, monotone delivery. Correspondence: real tcp/client.Conn over a scripted net.Conn with harness-chosen read sizes (1-byte, coalesced, header-splitting, frame-aligned with empty reads, random), cache sizes 1/7/2048/65535, max sizes 64/300/1152/65816/66000/70000, all Len-nibble classes, token lengths 0-8, signalling and ordinary codes, option delta/length extension classes, oversize / wrapping / malformed headers and trailing partial frames; compared: ordered accepted log, handler log, signal log, error class, reads and bytes consumed.',
    },
}

NOT_APPLICABLE = {}
