"""Registry of the per-property configuration used by bin/check."""

COMMON_TRUSTED = [
    'Coq 8.16.1 kernel (coqc; vm_compute used for correspondence evaluation and finite sweeps; no native_compute)',
    'no axioms: every theorem in coq/theories/Properties must print "Closed under the global context"',
    'generator `hx gen` (harness/gen.go): prints live constants/tables of the compiled /repo as Gallina',
    'correspondence harness `hx` (harness/*.go) + bin/check parsing of coqc output',
    'Go compiler/runtime semantics are modelled (integer wrap, slices), not verified',
]

PROPS = {
    'C19': {
        'run_vo': 'Block/Run.vo', 'props_vo': 'Properties/C19.vo', 'level': 'proof',
        'classes': {1: 'decoder-inside-24bit-domain', 2: 'decoder-accepts-above-24bit', 3: 'encoder-inside-domain',
                    4: 'encoder-accepts-outside-domain', 5: 'size-table', 6: 'buffer-size'},
        'trusted': ['hook net/blockwise/export_verif.go (build tag verif) exposing the constants read by gen'],
        'assumptions': ['uint32/int64 arithmetic of Go modelled in Z with explicit mod 2^32'],
        'level_text': 'Coq theorems (Properties/C19.v): decode total on all 24-bit values, encode total on szx 0-7 x 20-bit NUM, refusal outside, mutual inverses, size table and BERT buffer, stated over constants regenerated from the source; model tied to the Go functions by differential evaluation (boundary/random values, checksum sweeps; whole 2^24 / 18x2^20 domains in thorough).',
        'level_note': 'Trusted: Coq kernel + vm_compute, the constant generator, the harness; Go integer semantics modelled in Z with explicit uint32 wrap.',
        'explanation': 'Theorems: decode/encode total on the RFC 7959 domain, refusal outside, mutual inverses, size table, BERT buffer; stated over constants regenerated from the source. Correspondence: model vs EncodeBlockOption/DecodeBlockOption/SZX.Size/bufferSize on boundary+random values and checksum sweeps.',
    },
    'C20': {
        'run_vo': 'NoResp/Run.vo', 'props_vo': 'Properties/C20.vo', 'level': 'proof',
        'classes': {1: 'suppressed-class-accepted', 2: 'unsuppressed-class-refused', 3: 'writer-differs-from-rfc'},
        'trusted': [],
        'assumptions': ['uint32 bit operations of Go modelled with Z.land/Z.shiftl on non-negative Z'],
        'level_text': 'Coq theorems (Properties/C20.v): the decision equals the RFC 7967 class/bit rule for every code and every (unbounded) value; the response writer refuses exactly per the first No-Response option. Model tied to IsNoResponseCode and ResponseWriter.SetResponse by differential evaluation, exhaustive over 256 codes x values 0..63.',
        'level_note': 'Trusted: Coq kernel + vm_compute, the harness. The wire clause (bare ACK / nothing on the wire) is covered by the datagram connection model of C05.',
        'explanation': 'Theorems: IsNoResponseCode model equals the RFC 7967 class/bit decision for every code and every value (unbounded), only bits 1,3,4 matter, other classes always pass, the response writer refuses exactly per the first No-Response option. Correspondence: exhaustive bit tables for all 256 codes x values 0..63, boundary/random 32-bit values, 16-bit codes, ResponseWriter.SetResponse over generated request option lists.',
    },
}

PROPS['C01'] = {
    'run_vo': 'Codec/RunC01.vo', 'props_vo': 'Properties/C01.vo', 'level': 'proof',
    'classes': {1: 'size-differs-from-encoding-length', 2: 'small-buffer-not-reported-or-touched', 3: 'bytes-differ-from-rfc-encoding-or-overrun',
                4: 'decode-of-encode-differs', 5: 'stream-header-preparse-differs', 6: 'pooled-roundtrip-differs',
                7: 'outside-preconditions-accepted', 9: 'datagram-type-4-255-truncated'},
    'trusted': ['hook tcp/coder/export_verif.go (build tag verif) exposing messageMaxLen read by gen'],
    'assumptions': ['Go int/uint8/uint16/uint32 conversions modelled in Z with explicit mod', 'slices modelled as lists; a destination buffer by its length and content'],
    'level_text': 'TODO',
    'level_note': 'TODO',
    'explanation': 'TODO',
}

PROPS['C02'] = {
    'run_vo': 'Codec/RunC02.vo', 'props_vo': 'Properties/C02.vo', 'level': 'proof',
    'classes': {1: 'decoder-panicked-or-hung', 2: 'datagram-decode-differs-from-reference', 3: 'stream-header-differs-from-reference',
                4: 'stream-decode-differs-from-reference', 5: 'accepted-message-not-canonical', 6: 'pooled-message-aliases-caller-buffer',
                7: 'pooled-decode-differs-from-reference'},
    'trusted': ['hook tcp/coder/export_verif.go (build tag verif) exposing messageMaxLen read by gen'],
    'assumptions': ['Go slices modelled as lists with explicit bounds checks (Panic result)', 'uint32 header arithmetic modelled in Z with explicit mod 2^32'],
    'level_text': 'TODO',
    'level_note': 'TODO',
    'explanation': 'TODO',
}

NOT_APPLICABLE = {}
