"""Registry of the per-property configuration used by bin/check."""

COMMON_TRUSTED = [
    'Coq 8.16.1 kernel (coqc; vm_compute used for correspondence evaluation and finite sweeps; no native_compute)',
    'no axioms: every theorem in coq/theories/Properties must print "Closed under the global context"',
    'generator `hx gen` (harness/gen.go): prints live constants/tables of the compiled /repo as Gallina',
    'correspondence harness `hx` (harness/*.go) + bin/check parsing of coqc output',
    'Go compiler/runtime semantics are modelled (integer wrap, slices), not verified',
]

PROPS = {
    'C08': {
        'run_vo': 'Observe/Run.vo', 'props_vo': 'Properties/C08.vo', 'level': 'proof',
        'classes': {1: 'not-fresher-delivered', 2: 'foreign-token-hash-collision', 3: 'registration-outcome',
                    4: 'delivered-after-end', 5: 'fresher-refused', 6: 'malformed-case'},
        'trusted': ['hook net/observation/export_verif.go (build tag verif): shifts/reads an observation\'s lastEvent stamp and waiting flag',
                    'reflect+unsafe read of udp/client.Conn.observationHandler in the harness (to look a key up before injecting a message)'],
        'assumptions': ['uint32 arithmetic of ValidSequenceNumber modelled in Z with explicit mod 2^32; time.Time as unbounded Z nanoseconds, Time.Sub saturating',
                        'one event at a time: a message is fully processed (callback returned, Observe()/Cancel() returned) before the next event; goroutine interleavings inside one event are not modelled',
                        'C08_own_token_partial / C08_register_partial / C08_holds_partial assume that the tokens in play have distinct CRC-64 (Token.Hash); the collision class is the recorded finding F18',
                        '128 s branch on the real objects exercised by rewinding lastEvent (verif hook), never within 250 ms of the boundary; the exact boundary is covered on the exported predicate'],
        'level_text': 'Coq theorems (Properties/C08.v): ValidSequenceNumber equals the RFC 7641 3.4 rule for all uint32 pairs and all times (constant regenerated from the source), equals serial-number arithmetic mod 2^24, corollaries at 0 / 2^23 / 2^24-1; for every history of registrations, messages and cancellations the notifications delivered to each callback are consecutively fresher, state changes only on delivery, nothing is delivered after Cancel returned or registration failed, registration succeeds only on 2.05/2.03, deliveries carry a token with the registration\'s Token.Hash. Model tied to the code by differential execution: ~38 000 points of the exported predicate and ~1 400 histories through the real Handler/Observation over an in-memory UDP session (with and without block-wise) and directly.',
        'level_note': 'Trusted: Coq kernel + vm_compute, the generator, the harness and its verif hook. Own-token is proved up to CRC-64 collisions of tokens (refuted instance in the file, recorded as a known finding).',
        'explanation': 'Theorems: predicate = RFC 7641 3.4 (all uint32, all times; wrap = serial arithmetic mod 2^24), delivered subsequence pairwise fresher in any arrival history, state changes only on delivery, own token (up to Token.Hash collisions; refuted instance recorded), registration outcome by first response code, nothing after cancel/failed registration. Correspondence: bit tables of ValidSequenceNumber around 0, 2^23, 2^24-1 x time differences around 128 s; histories (permuted/duplicated/wrapping streams, several observations, responses without Observe, 2.05/2.03/4.04/5.00/... answers, cancel at every position, same-token re-registration, colliding tokens) on the real code, compared event by event.',
    },
    'C19': {
        'run_vo': 'Block/Run.vo', 'props_vo': 'Properties/C19.vo', 'level': 'proof',
        'classes': {1: 'decoder-inside-24bit-domain', 2: 'decoder-accepts-above-24bit', 3: 'encoder-inside-domain',
                    4: 'encoder-accepts-outside-domain', 5: 'size-table', 6: 'buffer-size'},
        'trusted': ['hook net/blockwise/export_verif.go (build tag verif) exposing the constants read by gen'],
        'assumptions': ['uint32/int64 arithmetic of Go modelled in Z with explicit mod 2^32'],
        'level_text': 'Coq theorems (Properties/C19.v): decode total on all 24-bit values, encode total on szx 0-7 x 20-bit NUM, refusal outside, mutual inverses, size table and BERT buffer, stated over constants regenerated from the source; model tied to the Go functions by differential evaluation (boundary/random values, checksum sweeps; whole 2^24 / 18x2^20 domains in thorough).',
        'level_note': 'Trusted: Coq kernel + vm_compute, the constant generator, the harness; Go integer semantics modelled in Z with explicit uint32 wrap.',
        'explanation': 'Theorems: decode/encode total on the RFC 7959 domain, refusal outside, mutual inverses, size table, BERT buffer; stated over constants regenerated from the source. Correspondence: model vs EncodeBlockOption/DecodeBlockOption/SZX.Size/bufferSize on boundary+random values and checksum sweeps.',
    },
    'C20': {
        'run_vo': 'NoResp/Run.vo', 'props_vo': 'Properties/C20.vo', 'level': 'proof',
        'classes': {1: 'suppressed-class-accepted', 2: 'unsuppressed-class-refused', 3: 'writer-differs-from-rfc'},
        'trusted': [],
        'assumptions': ['uint32 bit operations of Go modelled with Z.land/Z.shiftl on non-negative Z'],
        'level_text': 'Coq theorems (Properties/C20.v): the decision equals the RFC 7967 class/bit rule for every code and every (unbounded) value; the response writer refuses exactly per the first No-Response option. Model tied to IsNoResponseCode and ResponseWriter.SetResponse by differential evaluation, exhaustive over 256 codes x values 0..63.',
        'level_note': 'Trusted: Coq kernel + vm_compute, the harness. The wire clause (bare ACK / nothing on the wire) is covered by the datagram connection model of C05.',
        'explanation': 'Theorems: IsNoResponseCode model equals the RFC 7967 class/bit decision for every code and every value (unbounded), only bits 1,3,4 matter, other classes always pass, the response writer refuses exactly per the first No-Response option. Correspondence: exhaustive bit tables for all 256 codes x values 0..63, boundary/random 32-bit values, 16-bit codes, ResponseWriter.SetResponse over generated request option lists.',
    },
}

NOT_APPLICABLE = {}
