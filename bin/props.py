"""Registry of the per-property configuration used by bin/check."""

COMMON_TRUSTED = [
    'Coq 8.16.1 kernel (coqc; vm_compute used for correspondence evaluation and finite sweeps; no native_compute)',
    'no axioms: every theorem in coq/theories/Properties must print "Closed under the global context"',
    'generator `hx gen` (harness/gen.go): prints live constants/tables of the compiled /repo as Gallina',
    'correspondence harness `hx` (harness/*.go) + bin/check parsing of coqc output',
    'Go compiler/runtime semantics are modelled (integer wrap, slices), not verified',
]

PROPS = {
    'C19': {
        'run_vo': 'Block/Run.vo', 'props_vo': 'Properties/C19.vo', 'level': 'proof',
        'classes': {1: 'decoder-inside-24bit-domain', 2: 'decoder-accepts-above-24bit', 3: 'encoder-inside-domain',
                    4: 'encoder-accepts-outside-domain', 5: 'size-table', 6: 'buffer-size'},
        'trusted': ['hook net/blockwise/export_verif.go (build tag verif) exposing the constants read by gen'],
        'assumptions': ['uint32/int64 arithmetic of Go modelled in Z with explicit mod 2^32'],
        'level_text': 'Coq theorems (Properties/C19.v): decode total on all 24-bit values, encode total on szx 0-7 x 20-bit NUM, refusal outside, mutual inverses, size table and BERT buffer, stated over constants regenerated from the source; model tied to the Go functions by differential evaluation (boundary/random values, checksum sweeps; whole 2^24 / 18x2^20 domains in thorough).',
        'level_note': 'Trusted: Coq kernel + vm_compute, the constant generator, the harness; Go integer semantics modelled in Z with explicit uint32 wrap.',
        'explanation': 'Theorems: decode/encode total on the RFC 7959 domain, refusal outside, mutual inverses, size table, BERT buffer; stated over constants regenerated from the source. Correspondence: model vs EncodeBlockOption/DecodeBlockOption/SZX.Size/bufferSize on boundary+random values and checksum sweeps.',
    },
    'C20': {
        'run_vo': 'NoResp/Run.vo', 'props_vo': 'Properties/C20.vo', 'level': 'proof',
        'classes': {1: 'suppressed-class-accepted', 2: 'unsuppressed-class-refused', 3: 'writer-differs-from-rfc'},
        'trusted': [],
        'assumptions': ['uint32 bit operations of Go modelled with Z.land/Z.shiftl on non-negative Z'],
        'level_text': 'Coq theorems (Properties/C20.v): the decision equals the RFC 7967 class/bit rule for every code and every (unbounded) value; the response writer refuses exactly per the first No-Response option. Model tied to IsNoResponseCode and ResponseWriter.SetResponse by differential evaluation, exhaustive over 256 codes x values 0..63.',
        'level_note': 'Trusted: Coq kernel + vm_compute, the harness. The wire clause (bare ACK / nothing on the wire) is covered by the datagram connection model of C05.',
        'explanation': 'Theorems: IsNoResponseCode model equals the RFC 7967 class/bit decision for every code and every value (unbounded), only bits 1,3,4 matter, other classes always pass, the response writer refuses exactly per the first No-Response option. Correspondence: exhaustive bit tables for all 256 codes x values 0..63, boundary/random 32-bit values, 16-bit codes, ResponseWriter.SetResponse over generated request option lists.',
    },
    'C14': {
        'run_vo': 'Map/Run.vo', 'props_vo': 'Properties/C14.vo', 'level': 'proof',
        'classes': {1: 'history-not-linearizable', 2: 'store-if-absent-two-winners', 3: 'callback-not-on-current-value',
                    4: 'sweep-removed-or-replaced-live-entry', 5: 'call-hung'},
        'trusted': ['hooks pkg/sync/yield_verif.go, pkg/cache/yield_verif.go (build tag verif): verifYield at the boundaries between critical sections',
                    'cooperative scheduler harness/sched.go (goroutine ids from runtime.Stack); atomicity of one critical section rests on sync.RWMutex',
                    'brute-force linearizability checker Map/Spec.v lin_check (evaluates the property on observed histories; not proved complete/sound w.r.t. Interleave.linearizable)'],
        'assumptions': ['interleavings at critical-section granularity; Element.ValidUntil treated as immutable during a run; time.Now() inside Cache.Load/LoadOrStore abstracted to the start of the run (element deadlines are >= 10 h away from it)',
                        'Range/CheckExpirations are modelled as one atomic read per iteration step, the key order being the one Go\'s map iterator produced (oracle); sweep steps whose key the harness cannot observe are effect-free'],
        'level_text': 'Coq theorems (Properties/C14.v): general linearisation-point lemma (Base/Interleave.v) and its instantiation over the full sync.Map/cache.Cache API for all thread counts, programs, keys and schedules; store-if-absent has exactly one winner; callbacks are shown the current value; every sweep step removes only the examined, still-present, expired entry; refutation witnesses for the two-section LoadOrStore and the delete-by-key sweep. Model tied to the Go code by forcing every schedule of small configurations (2 threads x <=2 calls x <=2 keys, full API) through verif yields and comparing call/return histories with exec, plus hook-free lock-holding-callback barrier runs.',
        'level_note': 'Proof over all interleavings at critical-section granularity; atomicity of one section rests on sync.RWMutex. Trusted: Coq kernel + vm_compute, the yield hooks, the cooperative scheduler, the linearizability checker used on observed histories.',
        'explanation': 'Theorems: Interleave.lp_linearizable; C14_map_linearizable (+ macro-step variant); C14_store_if_absent; C14_callbacks_see_current; C14_sweep_safe; C14_store_if_absent_refuted / C14_sweep_refuted about the old shapes. Correspondence: all schedules of 2-thread configurations over the full API forced on the real code and compared event by event with the model; barrier-amplified store-if-absent runs checked for linearizability.',
    },
}

NOT_APPLICABLE = {}
