"""Registry of the per-property configuration used by bin/check."""

COMMON_TRUSTED = [
    'Coq 8.16.1 kernel (coqc; vm_compute used for correspondence evaluation and finite sweeps; no native_compute)',
    'no axioms: every theorem in coq/theories/Properties must print "Closed under the global context"',
    'generator `hx gen` (harness/gen.go): prints live constants/tables of the compiled /repo as Gallina',
    'correspondence harness `hx` (harness/*.go) + bin/check parsing of coqc output',
    'Go compiler/runtime semantics are modelled (integer wrap, slices), not verified',
]

PROPS = {
    'C19': {
        'run_vo': 'Block/Run.vo', 'props_vo': 'Properties/C19.vo', 'level': 'proof',
        'classes': {1: 'decoder-inside-24bit-domain', 2: 'decoder-accepts-above-24bit', 3: 'encoder-inside-domain',
                    4: 'encoder-accepts-outside-domain', 5: 'size-table', 6: 'buffer-size'},
        'trusted': ['hook net/blockwise/export_verif.go (build tag verif) exposing the constants read by gen'],
        'assumptions': ['uint32/int64 arithmetic of Go modelled in Z with explicit mod 2^32'],
        'level_text': 'Coq theorems (Properties/C19.v): decode total on all 24-bit values, encode total on szx 0-7 x 20-bit NUM, refusal outside, mutual inverses, size table and BERT buffer, stated over constants regenerated from the source; model tied to the Go functions by differential evaluation (boundary/random values, checksum sweeps; whole 2^24 / 18x2^20 domains in thorough).',
        'level_note': 'Trusted: Coq kernel + vm_compute, the constant generator, the harness; Go integer semantics modelled in Z with explicit uint32 wrap.',
        'explanation': 'Theorems: decode/encode total on the RFC 7959 domain, refusal outside, mutual inverses, size table, BERT buffer; stated over constants regenerated from the source. Correspondence: model vs EncodeBlockOption/DecodeBlockOption/SZX.Size/bufferSize on boundary+random values and checksum sweeps.',
    },
    'C20': {
        'run_vo': 'NoResp/Run.vo', 'props_vo': 'Properties/C20.vo', 'level': 'proof',
        'classes': {1: 'suppressed-class-accepted', 2: 'unsuppressed-class-refused', 3: 'writer-differs-from-rfc'},
        'trusted': [],
        'assumptions': ['uint32 bit operations of Go modelled with Z.land/Z.shiftl on non-negative Z'],
        'level_text': 'Coq theorems (Properties/C20.v): the decision equals the RFC 7967 class/bit rule for every code and every (unbounded) value; the response writer refuses exactly per the first No-Response option. Model tied to IsNoResponseCode and ResponseWriter.SetResponse by differential evaluation, exhaustive over 256 codes x values 0..63.',
        'level_note': 'Trusted: Coq kernel + vm_compute, the harness. The wire clause (bare ACK / nothing on the wire) is covered by the datagram connection model of C05.',
        'explanation': 'Theorems: IsNoResponseCode model equals the RFC 7967 class/bit decision for every code and every value (unbounded), only bits 1,3,4 matter, other classes always pass, the response writer refuses exactly per the first No-Response option. Correspondence: exhaustive bit tables for all 256 codes x values 0..63, boundary/random 32-bit values, 16-bit codes, ResponseWriter.SetResponse over generated request option lists.',
    },
    'C15': {
        'run_vo': 'Opt/Run.vo', 'props_vo': 'Properties/C15.vo', 'level': 'proof',
        'classes': {1: 'list-differs-from-reference', 2: 'refused-operation-changed-the-list', 3: 'invalid-operation-performed',
                    4: 'valid-operation-refused', 5: 'path-round-trip', 10: 'getter-find-has', 11: 'getter-first-bytes-string',
                    12: 'getter-uint32-media', 13: 'getter-GetUint32s', 14: 'getter-GetStrings', 15: 'getter-GetBytess',
                    16: 'getter-Path', 17: 'getter-LocationPath', 18: 'getter-Queries'},
        'trusted': ['hooks message/export_verif.go, message/pool/export_verif.go (build tag verif) exposing the constants read by gen',
                    'harness reads len(pool.Message.valueBuffer) with reflect (no hook)'],
        'assumptions': ['Go slices modelled as lists (level 1) and as views into arrays (level 2); append growth policy left open (any capacity)',
                        'int indices do not overflow (lists shorter than 2^62)'],
        'level_text': 'Coq theorems (Properties/C15.v): findPosition returns the split (last smaller, first larger) on every sorted list within its fuel; Set/Add/Remove/Find with their in-place shifting loops equal the sorted-multiset reference on every sorted list and keep it sorted; every operation except set-path refines the reference for message.Options (all operation sequences by induction) and for the pool.Message builder (grow-and-retry); refused ResetOptionsTo leaves the list unchanged; Clone is the identity; single and multi-value getters never index outside the slice and answer as the reference; uint values are minimal big-endian. Model tied to the Go code step by step (returns, list, every getter) on all 12^3 set/add/remove sequences, directed boundary cases and random sequences.',
        'level_note': 'set-path/path round trip (GetPathBufferSize, setPath, Path) and byte-level stability of values under value-buffer growth are covered by the correspondence check only (model vs code on empty/255/256-byte segments, buffers needed-1/needed/needed+1, values around 256 bytes, clone-then-overwrite), not by a theorem. Trusted: Coq kernel + vm_compute, generator, harness.',
        'explanation': 'Theorems: find_position specification, Set/Add/Remove/Find = splices = sorted-multiset reference, refinement of every non-path operation and of all operation sequences, builder (pool.Message) refinement, getters total and consistent, ResetOptionsTo/Clone. Correspondence: message.Options (capacities 0/1/16) and pool.Message driven by exhaustive small, directed and random operation sequences; after every step return values, len(valueBuffer), the list and nine getter kinds (exact/+1/-1 result slices) compared with the model and judged by the reference.',
    },
}

NOT_APPLICABLE = {}
