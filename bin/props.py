"""Registry of the per-property configuration used by bin/check."""

COMMON_TRUSTED = [
    'Coq 8.16.1 kernel (coqc; vm_compute used for correspondence evaluation and finite sweeps; no native_compute)',
    'no axioms: every theorem in coq/theories/Properties must print "Closed under the global context"',
    'generator `hx gen` (harness/gen.go): prints live constants/tables of the compiled /repo as Gallina',
    'correspondence harness `hx` (harness/*.go) + bin/check parsing of coqc output',
    'Go compiler/runtime semantics are modelled (integer wrap, slices), not verified',
]

PROPS = {
    'C19': {
        'run_vo': 'Block/Run.vo', 'props_vo': 'Properties/C19.vo', 'level': 'proof',
        'classes': {1: 'decoder-inside-24bit-domain', 2: 'decoder-accepts-above-24bit', 3: 'encoder-inside-domain',
                    4: 'encoder-accepts-outside-domain', 5: 'size-table', 6: 'buffer-size'},
        'trusted': ['hook net/blockwise/export_verif.go (build tag verif) exposing the constants read by gen'],
        'assumptions': ['uint32/int64 arithmetic of Go modelled in Z with explicit mod 2^32'],
        'level_text': 'Coq theorems (Properties/C19.v): decode total on all 24-bit values, encode total on szx 0-7 x 20-bit NUM, refusal outside, mutual inverses, size table and BERT buffer, stated over constants regenerated from the source; model tied to the Go functions by differential evaluation (boundary/random values, checksum sweeps; whole 2^24 / 18x2^20 domains in thorough).',
        'level_note': 'Trusted: Coq kernel + vm_compute, the constant generator, the harness; Go integer semantics modelled in Z with explicit uint32 wrap.',
        'explanation': 'Theorems: decode/encode total on the RFC 7959 domain, refusal outside, mutual inverses, size table, BERT buffer; stated over constants regenerated from the source. Correspondence: model vs EncodeBlockOption/DecodeBlockOption/SZX.Size/bufferSize on boundary+random values and checksum sweeps.',
    },
    'C20': {
        'run_vo': 'NoResp/Run.vo', 'props_vo': 'Properties/C20.vo', 'level': 'proof',
        'classes': {1: 'suppressed-class-accepted', 2: 'unsuppressed-class-refused', 3: 'writer-differs-from-rfc'},
        'trusted': [],
        'assumptions': ['uint32 bit operations of Go modelled with Z.land/Z.shiftl on non-negative Z'],
        'level_text': 'Coq theorems (Properties/C20.v): the decision equals the RFC 7967 class/bit rule for every code and every (unbounded) value; the response writer refuses exactly per the first No-Response option. Model tied to IsNoResponseCode and ResponseWriter.SetResponse by differential evaluation, exhaustive over 256 codes x values 0..63.',
        'level_note': 'Trusted: Coq kernel + vm_compute, the harness. The wire clause (bare ACK / nothing on the wire) is covered by the datagram connection model of C05.',
        'explanation': 'Theorems: IsNoResponseCode model equals the RFC 7967 class/bit decision for every code and every value (unbounded), only bits 1,3,4 matter, other classes always pass, the response writer refuses exactly per the first No-Response option. Correspondence: exhaustive bit tables for all 256 codes x values 0..63, boundary/random 32-bit values, 16-bit codes, ResponseWriter.SetResponse over generated request option lists.',
    },
    'C04': {
        'run_vo': 'Blockwise/Run.vo', 'props_vo': 'Properties/C04.vo', 'level': 'proof',
        'classes': {1: 'body-differs-from-supplied', 2: 'body-handed-over-more-than-once', 3: 'code-or-options-not-preserved',
                    4: 'body-for-unknown-token', 5: 'do-returned-ok-without-response', 6: 'panic', 7: 'hang'},
        'trusted': ['hook net/blockwise/state_verif.go (build tag verif): sizes of the sending/receiving caches'],
        'assumptions': ['token tables are keyed by the token itself (CRC-64 collisions of Token.Hash are F18/C03, not modelled here)',
                        'one message is handled at a time per endpoint (the per-token semaphore of messageGuard is not modelled; interleavings are at message granularity)',
                        'memfile/bytes.Reader Seek/Read/Truncate behave as list operations'],
        'level_text': 'Coq theorems (Properties/C04.v) over a Gallina transcription of net/blockwise/blockwise.go (createSendingMessage, startSendingMessage, processReceivedMessage incl. ETag restart and Observe, continueSendingMessage, Handle, Do, WriteMessage): every served block is the coherent slice of the body with M <=> bytes remain (all bodies/SZX/NUM/max message sizes); for every history of coherent messages in any order with any repetition and any token mix every reassembly buffer is a prefix of the representation and everything handed to the application is the whole representation; state is removed on delivery and a non-first block without state delivers nothing; handling token t leaves every other token untouched; fault-free download lock-step completes within remaining/buffer + 1 round trips. The model is tied to the code by replaying explicit event scripts (deliver/dup/drop/reorder/replay/bump/timeout/expire, 1-3 tokens) on two real BlockWise instances joined by a marshalling relay and comparing every event (wire message, deliveries, error callbacks, returns, cache sizes); the property predicate (Spec.v) is evaluated on the observed traces.',
        'level_note': 'Safety (exact body, once, isolation) proved for all sizes/SZX/fault orders; progress proved only for the download lock-step core (uploads, the two-endpoint loop and time-outs are covered by correspondence runs; O1/O2 of DESIGN.md Appendix E are situations in which the implementation makes no progress but delivers nothing partial). Token tables are modelled as keyed by the token (CRC-64 collisions are F18/C03). Per-token semaphores and goroutine-level interleaving inside one Handle are not modelled (message-granularity interleaving only).',
        'explanation': 'Theorems: C04_serve_coherent, C04_prefix_invariant_and_complete_exact (whole histories), C04_complete_exact (one step), C04_once, C04_isolated, C04_progress_partial. Correspondence: fault-free grid (7 exchange styles x sizes {0,1,s-1,s,s+1,2s-1,2s,2s+1,3s+5} x SZX pairs incl. BERT with 1152/2048/4096), all single faults (10 kinds x every position) on 14 bases, all pairs of network faults on a both-directions base, replay of every sent message after completion, random 1-3 token interleavings with faults.',
    },
}

NOT_APPLICABLE = {}
