"""Registry of the per-property configuration used by bin/check."""

COMMON_TRUSTED = [
    'Coq 8.16.1 kernel (coqc; vm_compute used for correspondence evaluation and finite sweeps; no native_compute)',
    'no axioms: every theorem in coq/theories/Properties must print "Closed under the global context"',
    'generator `hx gen` (harness/gen.go): prints live constants/tables of the compiled /repo as Gallina',
    'correspondence harness `hx` (harness/*.go) + bin/check parsing of coqc output',
    'Go compiler/runtime semantics are modelled (integer wrap, slices), not verified',
]

PROPS = {
    'C19': {
        'run_vo': 'Block/Run.vo', 'props_vo': 'Properties/C19.vo', 'level': 'proof',
        'classes': {1: 'decoder-inside-24bit-domain', 2: 'decoder-accepts-above-24bit', 3: 'encoder-inside-domain',
                    4: 'encoder-accepts-outside-domain', 5: 'size-table', 6: 'buffer-size'},
        'trusted': ['hook net/blockwise/export_verif.go (build tag verif) exposing the constants read by gen'],
        'assumptions': ['uint32/int64 arithmetic of Go modelled in Z with explicit mod 2^32'],
        'level_text': 'Coq theorems (Properties/C19.v): decode total on all 24-bit values, encode total on szx 0-7 x 20-bit NUM, refusal outside, mutual inverses, size table and BERT buffer, stated over constants regenerated from the source; model tied to the Go functions by differential evaluation (boundary/random values, checksum sweeps; whole 2^24 / 18x2^20 domains in thorough).',
        'level_note': 'Trusted: Coq kernel + vm_compute, the constant generator, the harness; Go integer semantics modelled in Z with explicit uint32 wrap.',
        'explanation': 'Theorems: decode/encode total on the RFC 7959 domain, refusal outside, mutual inverses, size table, BERT buffer; stated over constants regenerated from the source. Correspondence: model vs EncodeBlockOption/DecodeBlockOption/SZX.Size/bufferSize on boundary+random values and checksum sweeps.',
    },
    'C20': {
        'run_vo': 'NoResp/Run.vo', 'props_vo': 'Properties/C20.vo', 'level': 'proof',
        'classes': {1: 'suppressed-class-accepted', 2: 'unsuppressed-class-refused', 3: 'writer-differs-from-rfc'},
        'runs': [{'hx': 'C20', 'classes': {1: 'suppressed-class-accepted', 2: 'unsuppressed-class-refused', 3: 'writer-differs-from-rfc'}},
                 {'hx': 'C05', 'classes': {11: 'suppressed-response-on-the-wire', 12: 'unsuppressed-response-dropped'}}],
        'extra_run_vos': ['Dedup/Run.vo'],
        'trusted': [],
        'assumptions': ['uint32 bit operations of Go modelled with Z.land/Z.shiftl on non-negative Z'],
        'level_text': 'Coq theorems (Properties/C20.v): the decision equals the RFC 7967 class/bit rule for every code and every (unbounded) value; the response writer refuses exactly per the first No-Response option. Model tied to IsNoResponseCode and ResponseWriter.SetResponse by differential evaluation, exhaustive over 256 codes x values 0..63.',
        'level_note': 'Trusted: Coq kernel + vm_compute, the harness. The wire clause (bare ACK / nothing on the wire) is proved on the datagram connection model (Dedup/Model.v, shared with C05) and checked on the same request histories (classes 11/12 of Dedup/Run.v).',
        'explanation': 'Theorems: IsNoResponseCode model equals the RFC 7967 class/bit decision for every code and every value (unbounded), only bits 1,3,4 matter, other classes always pass, the response writer refuses exactly per the first No-Response option. Correspondence: exhaustive bit tables for all 256 codes x values 0..63, boundary/random 32-bit values, 16-bit codes, ResponseWriter.SetResponse over generated request option lists.',
    },
    'C05': {
        'run_vo': 'Dedup/Run.vo', 'props_vo': 'Properties/C05.vo', 'level': 'proof',
        'classes': {1: 'handler-re-executed-for-duplicate', 2: 'duplicate-not-answered-with-first-reply', 3: 'not-fresh-after-lifetime'},
        'trusted': ['hook udp/client/export_verif.go (response-cache deadline shifting, own message-ID view)',
                    'in-memory udp/client.Session + barrier request used to wait for dispatch (harness/udpmem.go)'],
        'assumptions': ['one handleReq execution is atomic per message ID (msgIDMutex); time is modelled as validity left per cache entry, shifted by the harness instead of waiting 247 s'],
        'level_text': 'Coq theorems (Properties/C05.v) over ALL event histories of the request-path model of udp/client.Conn: a cacheable request seen again within the lifetime never reaches the handler and is answered with the stored reply retargeted to the duplicate; after the lifetime it is fresh. Model tied to the real Conn by event-by-event correspondence over an in-memory session.',
        'level_note': 'Trusted: Coq kernel + vm_compute, harness, verif hook; atomicity of one per-MID critical section rests on sync.Mutex; real 247 s waits replaced by deadline shifting.',
        'explanation': 'Histories of CON/NON requests, duplicates, virtual ageing and ticks on a real udp/client.Conn (in-memory session); observed handler calls and emitted datagrams compared with the model step by step; the property predicate is evaluated on the observed history.',
    },
    'C06': {
        'run_vo': 'Retx/Run.vo', 'props_vo': 'Properties/C06.vo', 'level': 'proof', 'confirm': True,
        'classes': {1: 'too-many-copies', 2: 'copy-not-identical', 3: 'resend-too-early', 4: 'copy-after-stop',
                    5: 'timely-response-not-returned', 6: 'success-without-response', 7: 'success-after-exhaustion'},
        'trusted': ['hook udp/client/export_verif.go (pending-entry stamp shifting)',
                    'in-memory udp/client.Session, barrier request and quiescence window used to wait for woken callers (harness/udpmem.go, c06.go)'],
        'assumptions': ['x/sync semaphore is FIFO (NSTART admission order)', 'virtual time: pending entries are aged by shifting their stamps, ticks are CheckExpirations(time.Now())'],
        'level_text': 'Coq theorems (Properties/C06.v) over ALL event histories of the sender model (pending table, NSTART, housekeeping tick, wake by message ID, token continuation, cancellation): copies bounded by 1+MAX_RETRANSMIT, spacing, identity, nothing after ack/reset/cancel/return, success exactly on a timely response. Model tied to the real udp/client.Conn by event-by-event correspondence over an in-memory session.',
        'level_note': 'Trusted: Coq kernel + vm_compute, harness, verif hook; goroutine wake-ups are observed through a quiescence window (mismatches are re-run once with a 10x window before being reported); real ACK_TIMEOUT waits replaced by stamp shifting.',
        'explanation': 'Histories of Do calls, ticks at virtual times around k*ACK_TIMEOUT, ACK/RST/piggybacked/separate responses and cancellations on a real udp/client.Conn; emitted datagrams (byte-compared with the first copy) and call results compared with the model step by step; property predicate evaluated on the observed history.',
    },
    'C12': {
        'run_vo': 'Pool/Run.vo', 'props_vo': 'Properties/C12.vo', 'level': 'other', 'confirm': False, 'shrink': False,
        'classes': {1: 'double-release', 2: 'released-while-application-holds-it', 3: 'content-changed-while-held',
                    4: 'written-after-release', 5: 'handed-to-application-after-release'},
        'trusted': ['hook message/pool (release / recycle / re-acquire notifications, poison helpers; add-only, build tag verif)',
                    'harness/pooltrack.go: object numbering by pointer, digest of message content at hand-over and at the end of the hold'],
        'assumptions': ['sync.Pool hands out only objects that were Put', 'the order of tracker events is the order in which the hooks took the tracker lock (a linearisation of the real events)'],
        'level_text': 'PARTIAL. Coq theorems (Properties/C12.v): the ownership automaton accepts only traces that satisfy the property as stated (no double release, no recycling or change while the application holds a message, no use after release); the library paths as modelled (receive, receive-with-hijack, request with clone and retransmission temporaries) are accepted, and so is EVERY interleaving of accepted traces over disjoint objects. That the Go code follows no other path is established by running the monitor on complete lifecycle traces of real executions (sequential histories of C05/C06 and concurrent scenarios), not by proof.',
        'level_note': 'Level other: theorem about the model of the paths + runtime monitoring of the real code through a verif-tagged tracker in the pool; reads after release are invisible to the tracker (only writes break the poison pattern).',
        'explanation': 'What is proved: monitor soundness, rejection of the named violations, safety of the modelled paths and of all their interleavings (Pool/Proofs.v). What is only observed: the real lifecycle traces (release, recycle, re-acquire with poison check, application hold/unhold with content digest) of server-role histories, client-role histories and concurrent mixed scenarios are accepted by the monitor and never exceed the pool bound.',
    },
}

NOT_APPLICABLE = {}

# entries contributed by work packages (bin/mergewp writes them): bin/props.d/<id>.json
import glob as _glob, json as _json, os as _os
for _f in sorted(_glob.glob(_os.path.join(_os.path.dirname(_os.path.abspath(__file__)), 'props.d', '*.json'))):
    _d = _json.load(open(_f))
    for _k in ('classes',):
        if _k in _d:
            _d[_k] = {int(a): b for a, b in _d[_k].items()}
    for _r in _d.get('runs', []):
        _r['classes'] = {int(a): b for a, b in _r['classes'].items()}
    PROPS[_os.path.basename(_f)[:-5]] = _d
