"""Registry of the per-property configuration used by bin/check."""

COMMON_TRUSTED = [
    'Coq 8.16.1 kernel (coqc; vm_compute used for correspondence evaluation and finite sweeps; no native_compute)',
    'no axioms: every theorem in coq/theories/Properties must print "Closed under the global context"',
    'generator `hx gen` (harness/gen.go): prints live constants/tables of the compiled /repo as Gallina',
    'correspondence harness `hx` (harness/*.go) + bin/check parsing of coqc output',
    'Go compiler/runtime semantics are modelled (integer wrap, slices), not verified',
]

PROPS = {
    'C19': {
        'run_vo': 'Block/Run.vo', 'props_vo': 'Properties/C19.vo', 'level': 'proof',
        'classes': {1: 'decoder-inside-24bit-domain', 2: 'decoder-accepts-above-24bit', 3: 'encoder-inside-domain',
                    4: 'encoder-accepts-outside-domain', 5: 'size-table', 6: 'buffer-size'},
        'trusted': ['hook net/blockwise/export_verif.go (build tag verif) exposing the constants read by gen'],
        'assumptions': ['uint32/int64 arithmetic of Go modelled in Z with explicit mod 2^32'],
        'level_text': 'Coq theorems (Properties/C19.v): decode total on all 24-bit values, encode total on szx 0-7 x 20-bit NUM, refusal outside, mutual inverses, size table and BERT buffer, stated over constants regenerated from the source; model tied to the Go functions by differential evaluation (boundary/random values, checksum sweeps; whole 2^24 / 18x2^20 domains in thorough).',
        'level_note': 'Trusted: Coq kernel + vm_compute, the constant generator, the harness; Go integer semantics modelled in Z with explicit uint32 wrap.',
        'explanation': 'Theorems: decode/encode total on the RFC 7959 domain, refusal outside, mutual inverses, size table, BERT buffer; stated over constants regenerated from the source. Correspondence: model vs EncodeBlockOption/DecodeBlockOption/SZX.Size/bufferSize on boundary+random values and checksum sweeps.',
    },
    'C20': {
        'run_vo': 'NoResp/Run.vo', 'props_vo': 'Properties/C20.vo', 'level': 'proof',
        'classes': {1: 'suppressed-class-accepted', 2: 'unsuppressed-class-refused', 3: 'writer-differs-from-rfc'},
        'trusted': [],
        'assumptions': ['uint32 bit operations of Go modelled with Z.land/Z.shiftl on non-negative Z'],
        'level_text': 'Coq theorems (Properties/C20.v): the decision equals the RFC 7967 class/bit rule for every code and every (unbounded) value; the response writer refuses exactly per the first No-Response option. Model tied to IsNoResponseCode and ResponseWriter.SetResponse by differential evaluation, exhaustive over 256 codes x values 0..63.',
        'level_note': 'Trusted: Coq kernel + vm_compute, the harness. The wire clause (bare ACK / nothing on the wire) is covered by the datagram connection model of C05.',
        'explanation': 'Theorems: IsNoResponseCode model equals the RFC 7967 class/bit decision for every code and every value (unbounded), only bits 1,3,4 matter, other classes always pass, the response writer refuses exactly per the first No-Response option. Correspondence: exhaustive bit tables for all 256 codes x values 0..63, boundary/random 32-bit values, 16-bit codes, ResponseWriter.SetResponse over generated request option lists.',
    },
    'C16': {
        'run_vo': 'Limiter/Run.vo', 'props_vo': 'Properties/C16.vo', 'level': 'proof',
        'classes': {1: 'endpoint-limit-exceeded', 2: 'total-limit-exceeded', 3: 'admitted-out-of-arrival-order',
                    4: 'cancelled-waiter-not-neutral', 5: 'not-idle-after-all-returned', 6: 'not-admitted-when-idle',
                    7: 'panic-hang-or-unknown-result', 8: 'waits-although-slot-free'},
        'trusted': ['golang.org/x/sync/semaphore.Weighted is modelled from its source (v0.11.0) as a FIFO counting semaphore; pkg/sync.Map callbacks are atomic sections (write lock)',
                    'harness reads goroutine wait states from runtime.Stack(all) and private tables with reflect+unsafe (no hook in /repo)'],
        'assumptions': ['every request goroutine executes Do/DoObserve once; the wrapped function returns only when the environment lets it (Finish)',
                        'Go select with several ready channels may take any of them: both outcomes are actions of the model'],
        'level_text': 'Coq theorems (Properties/C16.v) over ALL schedules of the atomic sections of limitParallelRequests.go and semaphore.Weighted (arbitrarily many requests and paths, any interleaving, both outcomes of a select with two ready channels): per-path and total limits at every instant, queue = waiters in arrival order and grants pop its head, a cancelled queued waiter changes nothing but its own channel, idle tables after all calls returned and immediate admission, no lost wake-up; via an inductive invariant (counter = slot owners, queue = waiters, no stale ids). Model tied to the Go code by forced event histories (exhaustive for <= 3 requests and a prefix of the 4-request orders in quick; all 4-request orders and 5-request prefixes in thorough) plus random longer and free-running many-goroutine histories, observed after every event.',
        'level_note': 'Trusted: Coq kernel + vm_compute; the harness (goroutine wait states from runtime.Stack, private tables via reflect); x/sync semaphore.Weighted and pkg/sync.Map modelled from their source; atomicity of the sections under their mutexes.',
        'explanation': 'Theorems: C16_endpoint_limit, C16_total_limit, C16_fifo, C16_cancel_neutral(_select), C16_idle, C16_idle_admits, C16_no_lost_wakeup, C16_invariant for every schedule of the repaired code; C16_endpoint_limit_refuted_before_repair replays F10 on the model of the old code. Correspondence: the real LimitParallelRequests.Do driven with forced histories of arrive / arrive-with-cancelled-context / cancel / finish; after each event the status of every request, the in-flight gauge per path, (processedCounter, queue length) per path and (cur, waiters) of the semaphore must equal the model run to rest; the property clauses are evaluated on the observations.',
    },
}

NOT_APPLICABLE = {}
